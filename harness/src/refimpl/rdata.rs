//! Independent per-type RDATA field table (written from the RFCs). One
//! table, three uses: generating valid RDATA, walking/decompressing RDATA
//! inside a message, and RFC 4034 §6.2 canonicalisation (RFC 6840 §5.1).

#[derive(Clone, Copy, Debug, PartialEq, Eq)]
pub enum F {
    U8,
    U16,
    U32,
    U48,
    Fixed(usize),
    /// wk = "well-known" type of RFC 1035: compression allowed on the wire
    /// (RFC 3597 §4). lower = lower-cased in canonical form.
    Name { wk: bool, lower: bool },
    CharStr,
    /// zero or more character strings up to the end of RDATA
    CharStrs,
    /// opaque rest of RDATA
    Rest,
    Len8,
    Len16,
    /// NSEC/NSEC3 type bitmap to the end
    Bitmap,
    /// SVCB parameters to the end
    SvcParams,
    /// IPSECKEY gateway; form selected by the gateway type octet (2nd field)
    IpsecGateway,
    /// EDNS options to the end
    OptOptions,
    /// CAA tag: one length octet, 1..=255 of [A-Za-z0-9]
    CaaTag,
}

pub const A: u16 = 1;
pub const NS: u16 = 2;
pub const MD: u16 = 3;
pub const MF: u16 = 4;
pub const CNAME: u16 = 5;
pub const SOA: u16 = 6;
pub const MB: u16 = 7;
pub const MG: u16 = 8;
pub const MR: u16 = 9;
pub const NULL: u16 = 10;
pub const PTR: u16 = 12;
pub const HINFO: u16 = 13;
pub const MINFO: u16 = 14;
pub const MX: u16 = 15;
pub const TXT: u16 = 16;
pub const RP: u16 = 17;
pub const AAAA: u16 = 28;
pub const SRV: u16 = 33;
pub const NAPTR: u16 = 35;
pub const DNAME: u16 = 39;
pub const OPT: u16 = 41;
pub const DS: u16 = 43;
pub const SSHFP: u16 = 44;
pub const IPSECKEY: u16 = 45;
pub const RRSIG: u16 = 46;
pub const NSEC: u16 = 47;
pub const DNSKEY: u16 = 48;
pub const NSEC3: u16 = 50;
pub const NSEC3PARAM: u16 = 51;
pub const TLSA: u16 = 52;
pub const CDS: u16 = 59;
pub const CDNSKEY: u16 = 60;
pub const OPENPGPKEY: u16 = 61;
pub const ZONEMD: u16 = 63;
pub const SVCB: u16 = 64;
pub const HTTPS: u16 = 65;
pub const TSIG: u16 = 250;
pub const CAA: u16 = 257;

/// Types that may appear in zone files (ZoneRecordData of the library).
pub const ZONE_TYPES: &[u16] = &[
    A, NS, MD, MF, CNAME, SOA, MB, MG, MR, PTR, HINFO, MINFO, MX, TXT, RP, AAAA, SRV, NAPTR, DNAME, DS, SSHFP,
    IPSECKEY, RRSIG, NSEC, DNSKEY, NSEC3, NSEC3PARAM, TLSA, CDS, CDNSKEY, OPENPGPKEY, ZONEMD, SVCB, HTTPS, CAA,
];
/// All types the library models (AllRecordData).
pub const ALL_TYPES: &[u16] = &[
    A, NS, MD, MF, CNAME, SOA, MB, MG, MR, NULL, PTR, HINFO, MINFO, MX, TXT, RP, AAAA, SRV, NAPTR, DNAME, OPT, DS,
    SSHFP, IPSECKEY, RRSIG, NSEC, DNSKEY, NSEC3, NSEC3PARAM, TLSA, CDS, CDNSKEY, OPENPGPKEY, ZONEMD, SVCB, HTTPS,
    TSIG, CAA,
];

const WK: F = F::Name { wk: true, lower: true };
const LOW: F = F::Name { wk: false, lower: true };
const RAW: F = F::Name { wk: false, lower: false };

/// Field layout of a type; None = unknown type (opaque).
pub fn schema(rtype: u16) -> Option<&'static [F]> {
    Some(match rtype {
        A => &[F::Fixed(4)],
        NS | MD | MF | CNAME | MB | MG | MR | PTR => &[WK],
        SOA => &[WK, WK, F::U32, F::U32, F::U32, F::U32, F::U32],
        NULL => &[F::Rest],
        HINFO => &[F::CharStr, F::CharStr],
        MINFO => &[WK, WK],
        MX => &[F::U16, WK],
        TXT => &[F::CharStrs],
        RP => &[LOW, LOW],
        AAAA => &[F::Fixed(16)],
        SRV => &[F::U16, F::U16, F::U16, LOW],
        NAPTR => &[F::U16, F::U16, F::CharStr, F::CharStr, F::CharStr, LOW],
        DNAME => &[LOW],
        OPT => &[F::OptOptions],
        DS | CDS => &[F::U16, F::U8, F::U8, F::Rest],
        SSHFP => &[F::U8, F::U8, F::Rest],
        IPSECKEY => &[F::U8, F::U8, F::U8, F::IpsecGateway, F::Rest],
        RRSIG => &[F::U16, F::U8, F::U8, F::U32, F::U32, F::U32, F::U16, LOW, F::Rest],
        NSEC => &[RAW, F::Bitmap],
        DNSKEY | CDNSKEY => &[F::U16, F::U8, F::U8, F::Rest],
        NSEC3 => &[F::U8, F::U8, F::U16, F::Len8, F::Len8, F::Bitmap],
        NSEC3PARAM => &[F::U8, F::U8, F::U16, F::Len8],
        TLSA => &[F::U8, F::U8, F::U8, F::Rest],
        OPENPGPKEY => &[F::Rest],
        ZONEMD => &[F::U32, F::U8, F::U8, F::Rest],
        SVCB | HTTPS => &[F::U16, RAW, F::SvcParams],
        TSIG => &[RAW, F::U48, F::U16, F::Len16, F::U16, F::U16, F::Len16],
        CAA => &[F::U8, F::CaaTag, F::Rest],
        _ => return None,
    })
}

pub fn mnemonic(rtype: u16) -> String {
    match rtype {
        A => "A", NS => "NS", MD => "MD", MF => "MF", CNAME => "CNAME", SOA => "SOA", MB => "MB", MG => "MG",
        MR => "MR", NULL => "NULL", PTR => "PTR", HINFO => "HINFO", MINFO => "MINFO", MX => "MX", TXT => "TXT",
        RP => "RP", AAAA => "AAAA", SRV => "SRV", NAPTR => "NAPTR", DNAME => "DNAME", OPT => "OPT", DS => "DS",
        SSHFP => "SSHFP", IPSECKEY => "IPSECKEY", RRSIG => "RRSIG", NSEC => "NSEC", DNSKEY => "DNSKEY",
        NSEC3 => "NSEC3", NSEC3PARAM => "NSEC3PARAM", TLSA => "TLSA", CDS => "CDS", CDNSKEY => "CDNSKEY",
        OPENPGPKEY => "OPENPGPKEY", ZONEMD => "ZONEMD", SVCB => "SVCB", HTTPS => "HTTPS", TSIG => "TSIG", CAA => "CAA",
        n => return format!("TYPE{n}"),
    }
    .to_string()
}

#[derive(Debug, Clone, PartialEq, Eq)]
pub enum WalkErr {
    Short,
    BadName(&'static str),
    Form(&'static str),
    Trailing,
}

/// Flags collected while decompressing a name.
#[derive(Default, Clone, Copy, Debug)]
pub struct NameFlags {
    pub pointers: u32,
    pub forward: bool,
    pub into_header: bool,
    pub self_segment: bool,
}

/// Reads a possibly compressed name at `pos` of `msg`. Follows only
/// pointers that point strictly backwards (before the pointer itself); a
/// pointer at or after its own position is rejected as `forward`. Returns
/// (labels, position after the name in the original stream, flags).
pub fn read_name(msg: &[u8], pos: usize, limit: usize) -> Result<(Vec<Vec<u8>>, usize, NameFlags), WalkErr> {
    let mut labels = vec![];
    let mut flags = NameFlags::default();
    let mut cur = pos;
    let mut end_of_name: Option<usize> = None;
    let mut total = 0usize;
    // Labels are read up to `limit` also after a jump (the most liberal
    // reading; termination is by the 255-octet cap because a pointer must
    // point strictly before itself and every label adds to the total).
    let bound = limit;
    let mut seg_start = pos;
    loop {
        if cur >= bound {
            return Err(WalkErr::Short);
        }
        let b = msg[cur];
        match b & 0xC0 {
            0x00 => {
                let n = b as usize;
                if n == 0 {
                    total += 1;
                    if total > 255 {
                        return Err(WalkErr::BadName("long"));
                    }
                    return Ok((labels, end_of_name.unwrap_or(cur + 1), flags));
                }
                if cur + 1 + n > bound {
                    return Err(WalkErr::Short);
                }
                total += n + 1;
                if total > 254 {
                    return Err(WalkErr::BadName("long"));
                }
                labels.push(msg[cur + 1..cur + 1 + n].to_vec());
                cur += 1 + n;
            }
            0xC0 => {
                if cur + 2 > bound {
                    return Err(WalkErr::Short);
                }
                let target = (((b & 0x3F) as usize) << 8) | msg[cur + 1] as usize;
                if end_of_name.is_none() {
                    end_of_name = Some(cur + 2);
                }
                if target >= cur {
                    flags.forward = true;
                    return Err(WalkErr::BadName("forward-pointer"));
                }
                if target < 12 {
                    flags.into_header = true;
                }
                if target >= seg_start {
                    flags.self_segment = true;
                }
                flags.pointers += 1;
                cur = target;
                seg_start = target;
            }
            _ => return Err(WalkErr::BadName("label-type")),
        }
    }
}

/// Walks the RDATA of `rtype` occupying msg[start..end] and returns the
/// normal form: the same RDATA with every embedded name decompressed.
/// `lower` additionally lower-cases the names RFC 4034 §6.2 / RFC 6840 §5.1
/// list (canonical form).
pub fn normal_rdata(rtype: u16, msg: &[u8], start: usize, end: usize, lower: bool) -> Result<(Vec<u8>, NameFlags), WalkErr> {
    let mut out = Vec::with_capacity(end - start);
    let mut agg = NameFlags::default();
    let Some(fields) = schema(rtype) else {
        out.extend_from_slice(&msg[start..end]);
        return Ok((out, agg));
    };
    let mut pos = start;
    let mut gw_type = 0u8;
    let take = |pos: &mut usize, n: usize, out: &mut Vec<u8>| -> Result<(), WalkErr> {
        if *pos + n > end {
            return Err(WalkErr::Short);
        }
        out.extend_from_slice(&msg[*pos..*pos + n]);
        *pos += n;
        Ok(())
    };
    for (i, f) in fields.iter().enumerate() {
        match *f {
            F::U8 => {
                take(&mut pos, 1, &mut out)?;
                if rtype == IPSECKEY && i == 1 {
                    gw_type = msg[pos - 1];
                }
            }
            F::U16 => take(&mut pos, 2, &mut out)?,
            F::U32 => take(&mut pos, 4, &mut out)?,
            F::U48 => take(&mut pos, 6, &mut out)?,
            F::Fixed(n) => take(&mut pos, n, &mut out)?,
            F::Name { lower: lw, .. } => {
                let (labels, next, fl) = read_name(msg, pos, end)?;
                agg.pointers += fl.pointers;
                agg.into_header |= fl.into_header;
                agg.self_segment |= fl.self_segment;
                for l in &labels {
                    out.push(l.len() as u8);
                    if lower && lw {
                        out.extend(l.iter().map(|b| b.to_ascii_lowercase()));
                    } else {
                        out.extend_from_slice(l);
                    }
                }
                out.push(0);
                pos = next;
            }
            F::CharStr => {
                if pos >= end {
                    return Err(WalkErr::Short);
                }
                let n = msg[pos] as usize;
                take(&mut pos, 1 + n, &mut out)?;
            }
            F::CharStrs => {
                while pos < end {
                    let n = msg[pos] as usize;
                    take(&mut pos, 1 + n, &mut out)?;
                }
            }
            F::Rest => {
                let n = end - pos;
                take(&mut pos, n, &mut out)?;
            }
            F::Len8 => {
                if pos >= end {
                    return Err(WalkErr::Short);
                }
                let n = msg[pos] as usize;
                take(&mut pos, 1 + n, &mut out)?;
            }
            F::Len16 => {
                if pos + 2 > end {
                    return Err(WalkErr::Short);
                }
                let n = u16::from_be_bytes([msg[pos], msg[pos + 1]]) as usize;
                take(&mut pos, 2 + n, &mut out)?;
            }
            F::CaaTag => {
                if pos >= end {
                    return Err(WalkErr::Short);
                }
                let n = msg[pos] as usize;
                take(&mut pos, 1 + n, &mut out)?;
            }
            F::Bitmap => {
                let mut last: i32 = -1;
                while pos < end {
                    if pos + 2 > end {
                        return Err(WalkErr::Short);
                    }
                    let w = msg[pos] as i32;
                    let n = msg[pos + 1] as usize;
                    if w <= last {
                        return Err(WalkErr::Form("bitmap-window-order"));
                    }
                    if n == 0 || n > 32 {
                        return Err(WalkErr::Form("bitmap-len"));
                    }
                    last = w;
                    take(&mut pos, 2 + n, &mut out)?;
                }
            }
            F::SvcParams => {
                let mut last: i32 = -1;
                while pos < end {
                    if pos + 4 > end {
                        return Err(WalkErr::Short);
                    }
                    let k = u16::from_be_bytes([msg[pos], msg[pos + 1]]) as i32;
                    let n = u16::from_be_bytes([msg[pos + 2], msg[pos + 3]]) as usize;
                    if k <= last {
                        return Err(WalkErr::Form("svcparams-order"));
                    }
                    last = k;
                    take(&mut pos, 4 + n, &mut out)?;
                }
            }
            F::OptOptions => {
                while pos < end {
                    if pos + 4 > end {
                        return Err(WalkErr::Short);
                    }
                    let n = u16::from_be_bytes([msg[pos + 2], msg[pos + 3]]) as usize;
                    take(&mut pos, 4 + n, &mut out)?;
                }
            }
            F::IpsecGateway => match gw_type {
                0 => {}
                1 => take(&mut pos, 4, &mut out)?,
                2 => take(&mut pos, 16, &mut out)?,
                3 => {
                    let (labels, next, fl) = read_name(msg, pos, end)?;
                    agg.pointers += fl.pointers;
                    for l in &labels {
                        out.push(l.len() as u8);
                        out.extend_from_slice(l);
                    }
                    out.push(0);
                    pos = next;
                }
                _ => return Err(WalkErr::Form("ipseckey-gateway-type")),
            },
        }
    }
    if pos != end {
        return Err(WalkErr::Trailing);
    }
    Ok((out, agg))
}

/// Canonical RDATA (RFC 4034 §6.2 + RFC 6840 §5.1) from *uncompressed* RDATA.
pub fn canonical_rdata(rtype: u16, rdata: &[u8]) -> Result<Vec<u8>, WalkErr> {
    normal_rdata(rtype, rdata, 0, rdata.len(), true).map(|x| x.0)
}

/// Positions (offset, len) of embedded names inside *uncompressed* RDATA,
/// with their (wk, lower) flags.
pub fn name_spans(rtype: u16, rdata: &[u8]) -> Vec<(usize, usize, bool, bool)> {
    let mut spans = vec![];
    let Some(fields) = schema(rtype) else { return spans };
    let mut pos = 0usize;
    let end = rdata.len();
    let mut gw = 0u8;
    for (i, f) in fields.iter().enumerate() {
        let adv = match *f {
            F::U8 => {
                if rtype == IPSECKEY && i == 1 && pos < end {
                    gw = rdata[pos];
                }
                1
            }
            F::U16 => 2,
            F::U32 => 4,
            F::U48 => 6,
            F::Fixed(n) => n,
            F::Name { wk, lower } => {
                let Ok((_, next, _)) = read_name(rdata, pos, end) else { return spans };
                spans.push((pos, next - pos, wk, lower));
                next - pos
            }
            F::CharStr | F::Len8 | F::CaaTag => {
                if pos >= end {
                    return spans;
                }
                1 + rdata[pos] as usize
            }
            F::Len16 => {
                if pos + 2 > end {
                    return spans;
                }
                2 + u16::from_be_bytes([rdata[pos], rdata[pos + 1]]) as usize
            }
            F::IpsecGateway => match gw {
                1 => 4,
                2 => 16,
                3 => {
                    let Ok((_, next, _)) = read_name(rdata, pos, end) else { return spans };
                    spans.push((pos, next - pos, false, false));
                    next - pos
                }
                _ => 0,
            },
            F::CharStrs | F::Rest | F::Bitmap | F::SvcParams | F::OptOptions => end.saturating_sub(pos),
        };
        pos += adv;
        if pos > end {
            return spans;
        }
    }
    spans
}
