//! Independent DNS message walker (RFC 1035 §4.1). Does not call into the
//! library.
use super::rdata::{self, NameFlags, WalkErr};

#[derive(Clone, Debug, PartialEq, Eq)]
pub struct Header {
    pub id: u16,
    pub flags: u16,
    pub counts: [u16; 4],
}

impl Header {
    pub fn qr(&self) -> bool { self.flags & 0x8000 != 0 }
    pub fn opcode(&self) -> u8 { ((self.flags >> 11) & 0xF) as u8 }
    pub fn aa(&self) -> bool { self.flags & 0x0400 != 0 }
    pub fn tc(&self) -> bool { self.flags & 0x0200 != 0 }
    pub fn rd(&self) -> bool { self.flags & 0x0100 != 0 }
    pub fn ra(&self) -> bool { self.flags & 0x0080 != 0 }
    pub fn ad(&self) -> bool { self.flags & 0x0020 != 0 }
    pub fn cd(&self) -> bool { self.flags & 0x0010 != 0 }
    pub fn rcode(&self) -> u8 { (self.flags & 0xF) as u8 }
}

#[derive(Clone, Debug, PartialEq, Eq)]
pub struct Question {
    pub name: Vec<Vec<u8>>,
    pub qtype: u16,
    pub qclass: u16,
    pub start: usize,
    pub end: usize,
    pub flags_ptrs: u32,
}

#[derive(Clone, Debug, PartialEq, Eq)]
pub struct Record {
    pub section: u8, // 1 answer, 2 authority, 3 additional
    /// decompressed owner, or why decompression fails (the record frame
    /// itself can still be skipped over, like the library's lazy reader does)
    pub owner: Result<Vec<Vec<u8>>, WalkErr>,
    pub rtype: u16,
    pub class: u16,
    pub ttl: u32,
    pub rd_start: usize,
    pub rd_end: usize,
    pub start: usize,
    pub owner_ptrs: u32,
    pub owner_pathological: bool,
}

#[derive(Clone, Debug)]
pub struct Walk {
    pub header: Header,
    pub questions: Vec<Question>,
    pub records: Vec<Record>,
    /// first error met, with the index (questions then records) where it
    /// occurred; items before it are valid.
    pub error: Option<(usize, WalkErr)>,
    /// offset after the last successfully read item
    pub end: usize,
}

pub fn header(msg: &[u8]) -> Option<Header> {
    if msg.len() < 12 {
        return None;
    }
    let g = |i: usize| u16::from_be_bytes([msg[i], msg[i + 1]]);
    Some(Header { id: g(0), flags: g(2), counts: [g(4), g(6), g(8), g(10)] })
}

/// Walks the whole message as far as the header counts say.
pub fn walk(msg: &[u8]) -> Option<Walk> {
    let h = header(msg)?;
    let mut w = Walk { header: h.clone(), questions: vec![], records: vec![], error: None, end: 12 };
    let mut pos = 12usize;
    let mut idx = 0usize;
    for _ in 0..h.counts[0] {
        match rdata::read_name(msg, pos, msg.len()) {
            Ok((name, next, fl)) => {
                if next + 4 > msg.len() {
                    w.error = Some((idx, WalkErr::Short));
                    return Some(w);
                }
                let qtype = u16::from_be_bytes([msg[next], msg[next + 1]]);
                let qclass = u16::from_be_bytes([msg[next + 2], msg[next + 3]]);
                w.questions.push(Question { name, qtype, qclass, start: pos, end: next + 4, flags_ptrs: fl.pointers });
                pos = next + 4;
                w.end = pos;
            }
            Err(e) => {
                w.error = Some((idx, e));
                return Some(w);
            }
        }
        idx += 1;
    }
    for (sec, &cnt) in h.counts[1..].iter().enumerate() {
        for _ in 0..cnt {
            match record_at(msg, pos, sec as u8 + 1) {
                Ok((r, next)) => {
                    w.records.push(r);
                    pos = next;
                    w.end = pos;
                }
                Err(e) => {
                    w.error = Some((idx, e));
                    return Some(w);
                }
            }
            idx += 1;
        }
    }
    Some(w)
}

/// Skips a name without following pointers: labels up to the root label or
/// the first pointer.
pub fn skip_name(msg: &[u8], mut pos: usize) -> Result<usize, WalkErr> {
    let mut total = 0usize;
    loop {
        let b = *msg.get(pos).ok_or(WalkErr::Short)?;
        match b & 0xC0 {
            0 => {
                if b == 0 {
                    return Ok(pos + 1);
                }
                pos += 1 + b as usize;
                total += 1 + b as usize;
                if pos > msg.len() {
                    return Err(WalkErr::Short);
                }
                if total > 255 {
                    return Err(WalkErr::BadName("long"));
                }
            }
            0xC0 => {
                if pos + 2 > msg.len() {
                    return Err(WalkErr::Short);
                }
                return Ok(pos + 2);
            }
            _ => return Err(WalkErr::BadName("label-type")),
        }
    }
}

pub fn record_at(msg: &[u8], pos: usize, section: u8) -> Result<(Record, usize), WalkErr> {
    let next = skip_name(msg, pos)?;
    let (owner, fl) = match rdata::read_name(msg, pos, msg.len()) {
        Ok((o, n, fl)) => {
            debug_assert_eq!(n, next);
            (Ok(o), fl)
        }
        Err(e) => (Err(e), rdata::NameFlags::default()),
    };
    if next + 10 > msg.len() {
        return Err(WalkErr::Short);
    }
    let g16 = |i: usize| u16::from_be_bytes([msg[i], msg[i + 1]]);
    let rtype = g16(next);
    let class = g16(next + 2);
    let ttl = u32::from_be_bytes([msg[next + 4], msg[next + 5], msg[next + 6], msg[next + 7]]);
    let rdlen = g16(next + 8) as usize;
    let rd_start = next + 10;
    if rd_start + rdlen > msg.len() {
        return Err(WalkErr::Short);
    }
    Ok((
        Record {
            section,
            owner,
            rtype,
            class,
            ttl,
            rd_start,
            rd_end: rd_start + rdlen,
            start: pos,
            owner_ptrs: fl.pointers,
            owner_pathological: fl.into_header || fl.self_segment,
        },
        rd_start + rdlen,
    ))
}

/// RDATA normal form (names decompressed) of a walked record.
pub fn rdata_normal(msg: &[u8], r: &Record) -> Result<(Vec<u8>, NameFlags), WalkErr> {
    rdata::normal_rdata(r.rtype, msg, r.rd_start, r.rd_end, false)
}

/// Simple uncompressed message assembler (independent of the library).
pub struct Asm {
    pub buf: Vec<u8>,
}
impl Asm {
    pub fn new(id: u16, flags: u16) -> Self {
        let mut buf = vec![0u8; 12];
        buf[0..2].copy_from_slice(&id.to_be_bytes());
        buf[2..4].copy_from_slice(&flags.to_be_bytes());
        Asm { buf }
    }
    fn inc(&mut self, sec: usize) {
        let i = 4 + sec * 2;
        let v = u16::from_be_bytes([self.buf[i], self.buf[i + 1]]).wrapping_add(1);
        self.buf[i..i + 2].copy_from_slice(&v.to_be_bytes());
    }
    pub fn question(&mut self, name: &[Vec<u8>], qtype: u16, qclass: u16) {
        self.name(name);
        self.buf.extend_from_slice(&qtype.to_be_bytes());
        self.buf.extend_from_slice(&qclass.to_be_bytes());
        self.inc(0);
    }
    pub fn name(&mut self, name: &[Vec<u8>]) {
        for l in name {
            self.buf.push(l.len() as u8);
            self.buf.extend_from_slice(l);
        }
        self.buf.push(0);
    }
    /// section: 1 answer, 2 authority, 3 additional
    pub fn record(&mut self, section: usize, owner: &[Vec<u8>], rtype: u16, class: u16, ttl: u32, rdata: &[u8]) {
        self.name(owner);
        self.buf.extend_from_slice(&rtype.to_be_bytes());
        self.buf.extend_from_slice(&class.to_be_bytes());
        self.buf.extend_from_slice(&ttl.to_be_bytes());
        self.buf.extend_from_slice(&(rdata.len() as u16).to_be_bytes());
        self.buf.extend_from_slice(rdata);
        self.inc(section);
    }
}
