//! Independent reference implementations written from the RFCs.
pub mod serial;
