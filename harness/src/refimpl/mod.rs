//! Independent reference implementations written from the RFCs.
pub mod rdata;
pub mod serial;
pub mod wire;
