//! RFC 1982 serial number arithmetic on wide integers (SERIAL_BITS = 32).
use std::cmp::Ordering;

pub const HALF: i64 = 1 << 31;
pub const MODULUS: i64 = 1 << 32;

/// RFC 1982 §3.2. None = undefined.
pub fn cmp(a: u32, b: u32) -> Option<Ordering> {
    let (i1, i2) = (a as i64, b as i64);
    if i1 == i2 {
        return Some(Ordering::Equal);
    }
    if (i1 < i2 && i2 - i1 < HALF) || (i1 > i2 && i1 - i2 > HALF) {
        return Some(Ordering::Less);
    }
    if (i1 < i2 && i2 - i1 > HALF) || (i1 > i2 && i1 - i2 < HALF) {
        return Some(Ordering::Greater);
    }
    None
}

/// RFC 1982 §3.1; n must be 0..=2^31-1.
pub fn add(a: u32, n: u32) -> u32 {
    (((a as i64) + (n as i64)) % MODULUS) as u32
}

/// Seconds since the epoch for a civil UTC date/time (proleptic Gregorian),
/// Howard Hinnant's days-from-civil algorithm.
pub fn civil_to_unix(y: i64, m: i64, d: i64, hh: i64, mm: i64, ss: i64) -> i64 {
    let y = if m <= 2 { y - 1 } else { y };
    let era = if y >= 0 { y } else { y - 399 } / 400;
    let yoe = y - era * 400;
    let mp = (m + 9) % 12;
    let doy = (153 * mp + 2) / 5 + d - 1;
    let doe = yoe * 365 + yoe / 4 - yoe / 100 + doy;
    let days = era * 146097 + doe - 719468;
    days * 86400 + hh * 3600 + mm * 60 + ss
}

#[cfg(test)]
mod test {
    use super::*;
    #[test]
    fn rfc1982_examples() {
        assert_eq!(cmp(0, 1), Some(Ordering::Less));
        assert_eq!(cmp(0xFFFF_FFFF, 0), Some(Ordering::Less));
        assert_eq!(cmp(0, 0x8000_0000), None);
        assert_eq!(cmp(0, 0x7FFF_FFFF), Some(Ordering::Less));
        assert_eq!(cmp(0, 0x8000_0001), Some(Ordering::Greater));
        assert_eq!(add(0xFFFF_FFFF, 1), 0);
        assert_eq!(civil_to_unix(1970, 1, 1, 0, 0, 0), 0);
        assert_eq!(civil_to_unix(2000, 3, 1, 0, 0, 0), 951868800);
        assert_eq!(civil_to_unix(2038, 1, 19, 3, 14, 8), 1 << 31);
    }
}
