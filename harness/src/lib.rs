#![allow(clippy::all)]
pub mod engine;
pub mod gen;
pub mod refimpl;
pub mod props;
