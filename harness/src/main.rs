use std::path::PathBuf;
use vlib::engine::*;

fn usage() -> ! {
    eprintln!("usage: vcheck run <ID> [--tier quick|thorough] [--seed N] [--only SUB] [--scale F] [--threads N]\n       vcheck replay <ID> <file> [--strict] [--quiet]\n       vcheck list");
    std::process::exit(2)
}

fn main() {
    install_panic_hook();
    let args: Vec<String> = std::env::args().collect();
    if args.len() < 2 {
        usage();
    }
    match args[1].as_str() {
        "list" => {
            for p in vlib::props::all() {
                println!("{} {}", p.id, p.subchecks.iter().map(|s| s.name).collect::<Vec<_>>().join(","));
            }
        }
        "run" => {
            if args.len() < 3 {
                usage();
            }
            let id = args[2].clone();
            let mut tier = std::env::var("VERIF_TIER").unwrap_or_else(|_| "quick".into());
            let mut seed: u64 = std::env::var("VERIF_SEED").ok().and_then(|s| s.parse::<i128>().ok()).map(|v| v as u64).unwrap_or(0);
            let mut only = None;
            let mut scale = std::env::var("VERIF_SCALE").ok().and_then(|s| s.parse().ok()).unwrap_or(1.0f64);
            let mut threads = std::thread::available_parallelism().map(|n| n.get()).unwrap_or(4);
            let mut i = 3;
            while i < args.len() {
                match args[i].as_str() {
                    "--tier" => { tier = args[i + 1].clone(); i += 1; }
                    "--seed" => { seed = args[i + 1].parse::<i128>().unwrap_or(0) as u64; i += 1; }
                    "--only" => { only = Some(args[i + 1].clone()); i += 1; }
                    "--scale" => { scale = args[i + 1].parse().unwrap_or(1.0); i += 1; }
                    "--threads" => { threads = args[i + 1].parse().unwrap_or(threads); i += 1; }
                    _ => usage(),
                }
                i += 1;
            }
            let thorough = tier == "thorough";
            set_run_meta(&tier, seed);
            let Some(prop) = vlib::props::all().into_iter().find(|p| p.id == id) else {
                eprintln!("unknown property {id}");
                std::process::exit(2);
            };
            install_crash_handler(None);
            let opts = RunOpts { thorough, seed, threads, scale, only };
            // Known findings: re-check their replays in strict mode and
            // print one line per listed finding.
            let known = std::sync::Arc::new(load_known());
            let mut known_lines = vec![];
            for k in known.iter().filter(|k| k.property == id && k.status == "known") {
                let mut note = String::new();
                if let Some(r) = &k.replay {
                    let path = verif_root().join(r);
                    match read_case(&path) {
                        Ok((_, sub, bytes)) => {
                            if let Some(sc) = prop.subchecks.iter().find(|s| s.name == sub) {
                                let (_, res) = run_case(prop.id, sc, &bytes, &known, true, thorough);
                                match res {
                                    Err(v) if k.sigs.iter().any(|s| v.sig == *s || (s.ends_with('*') && v.sig.starts_with(&s[..s.len() - 1]))) => {}
                                    Err(v) => note = format!(" (replay now fails differently: {})", v.sig),
                                    Ok(()) => note = " (replay no longer reproduces)".into(),
                                }
                            }
                        }
                        Err(e) => note = format!(" (replay unreadable: {e})"),
                    }
                }
                let line = format!("KNOWN-FINDING: property={} {} {}{}", id, k.id, k.what, note);
                println!("{line}");
                known_lines.push(line);
            }
            let res = run_prop(&prop, &opts);
            // health
            let mut health_err = None;
            if res.violations.is_empty() && opts.only.is_none() && opts.scale >= 1.0 {
                if let Some(h) = prop.health {
                    if let Err(e) = h(&res.agg.classes, thorough) {
                        health_err = Some(e);
                    }
                }
            }
            write_evidence(&prop, &opts, &res, &known_lines);
            println!(
                "{}: tier={} seed={} evaluations={} distinct_nontrivial={} excluded_known={:?} wall={:.1}s",
                id, tier, seed, res.agg.evaluations, res.agg.nontrivial.len(), res.agg.excluded_known, res.wall_s
            );
            if !res.violations.is_empty() {
                for (f, path) in &res.violations {
                    println!("--- violation in subcheck {} sig={}\n{}", f.sub, f.v.sig, f.v.detail);
                    println!("VIOLATION property={} replay={}", id, path.display());
                }
                std::process::exit(1);
            }
            if let Some(e) = health_err {
                eprintln!("INCONCLUSIVE: health assertion failed: {e}");
                std::process::exit(2);
            }
        }
        "replay" => {
            if args.len() < 4 {
                usage();
            }
            let id = args[2].clone();
            let path = PathBuf::from(&args[3]);
            let strict = args.iter().any(|a| a == "--strict");
            let quiet = args.iter().any(|a| a == "--quiet");
            let Some(prop) = vlib::props::all().into_iter().find(|p| p.id == id) else {
                eprintln!("unknown property {id}");
                std::process::exit(2);
            };
            let (_, sub, bytes) = match read_case(&path) {
                Ok(x) => x,
                Err(e) => { eprintln!("{e}"); std::process::exit(2); }
            };
            let Some(sc) = prop.subchecks.iter().find(|s| s.name == sub) else {
                eprintln!("unknown subcheck {sub}");
                std::process::exit(2);
            };
            install_crash_handler(Some(path.clone()));
            let known = std::sync::Arc::new(load_known());
            let (ctx, r) = run_case(prop.id, sc, &bytes, &known, strict, true);
            if !quiet {
                println!("classes: {:?}", ctx.classes);
                if let Some(s) = &ctx.sample { println!("sample: {s}"); }
                if !ctx.tolerated.is_empty() { println!("tolerated known findings: {:?}", ctx.tolerated); }
            }
            match r {
                Ok(()) => { if !quiet { println!("PASS"); } }
                Err(v) => {
                    if !quiet { println!("sig={}\n{}", v.sig, v.detail); }
                    println!("VIOLATION property={} replay={}", id, path.display());
                    std::process::exit(1);
                }
            }
        }
        _ => usage(),
    }
}
