//! Structured DNS message generator with optional name compression, and an
//! adversarial wire mutator.
use super::name::{self, Labels};
use super::rdata as grd;
use super::*;
use crate::refimpl::rdata::{self as rr, F};
use arbitrary::Unstructured;

#[derive(Clone, Debug, Default)]
pub struct Layout {
    /// offsets where an (owner or question) name starts
    pub name_offsets: Vec<usize>,
    /// offsets of RDLENGTH fields
    pub rdlen_offsets: Vec<usize>,
    /// offsets of record starts
    pub record_offsets: Vec<usize>,
    /// offsets of compression pointers
    pub pointer_offsets: Vec<usize>,
}

#[derive(Clone, Copy)]
pub struct MsgOpts {
    pub compress: bool,
    /// also compress names in RDATA of types outside RFC 1035
    pub compress_nonwk: bool,
    pub zone_only: bool,
    pub max_records: usize,
    pub plain_names: bool,
    pub with_opt: bool,
}

impl Default for MsgOpts {
    fn default() -> Self {
        MsgOpts { compress: true, compress_nonwk: false, zone_only: false, max_records: 8, plain_names: false, with_opt: true }
    }
}

pub struct Writer {
    pub buf: Vec<u8>,
    pub seen: Vec<(usize, Labels)>, // offset of a suffix, the suffix labels
    pub layout: Layout,
}

impl Writer {
    pub fn name(&mut self, u: &mut Unstructured, l: &Labels, compress: bool) {
        let mut i = 0;
        while i < l.len() {
            let suffix = &l[i..];
            if compress {
                // exact (case-sensitive) suffix match so that decompression
                // reproduces the octets
                if let Some((off, _)) = self.seen.iter().find(|(off, s)| *off < 0x4000 && s.as_slice() == suffix) {
                    if !chance(u, 24) {
                        self.layout.pointer_offsets.push(self.buf.len());
                        self.buf.extend_from_slice(&(0xC000u16 | *off as u16).to_be_bytes());
                        return;
                    }
                }
            }
            if self.buf.len() < 0x4000 {
                self.seen.push((self.buf.len(), suffix.to_vec()));
            }
            self.buf.push(l[i].len() as u8);
            self.buf.extend_from_slice(&l[i]);
            i += 1;
        }
        self.buf.push(0);
    }

    /// Writes RDATA given in uncompressed form, compressing embedded names
    /// where allowed.
    pub fn rdata(&mut self, u: &mut Unstructured, rtype: u16, rd: &[u8], compress: bool, nonwk: bool) {
        let spans = rr::name_spans(rtype, rd);
        let lenpos = self.buf.len();
        self.layout.rdlen_offsets.push(lenpos);
        self.buf.extend_from_slice(&[0, 0]);
        let start = self.buf.len();
        let mut pos = 0;
        for (off, len, wk, _) in spans {
            self.buf.extend_from_slice(&rd[pos..off]);
            let labels = name::from_wire(&rd[off..off + len]).unwrap_or_default();
            self.name(u, &labels, compress && (wk || nonwk));
            pos = off + len;
        }
        self.buf.extend_from_slice(&rd[pos..]);
        let n = (self.buf.len() - start) as u16;
        self.buf[lenpos..lenpos + 2].copy_from_slice(&n.to_be_bytes());
    }
}

pub struct Item {
    pub section: u8,
    pub owner: Labels,
    pub rtype: u16,
    pub class: u16,
    pub ttl: u32,
    pub rdata: Vec<u8>, // uncompressed
}

pub struct GenMsg {
    pub bytes: Vec<u8>,
    pub layout: Layout,
    pub questions: Vec<(Labels, u16, u16)>,
    pub items: Vec<Item>,
}

pub fn class(u: &mut Unstructured) -> u16 {
    match pick(u, 8) {
        0..=5 => 1,
        6 => [3u16, 4, 254, 255, 0][pick(u, 5)],
        _ => u16_(u),
    }
}

pub fn ttl(u: &mut Unstructured) -> u32 {
    match pick(u, 4) {
        0 => [0u32, 1, 3600, 0x7fff_ffff, 0x8000_0000, 0xffff_ffff][pick(u, 6)],
        _ => u32_(u),
    }
}

/// A valid message (all counts right, all names valid, RDATA valid for its
/// type).
pub fn message(u: &mut Unstructured, o: MsgOpts) -> GenMsg {
    let pn = 2 + pick(u, 6);
    let pool = name::pool(u, pn, o.plain_names);
    let id = u16_(u);
    let flags = match pick(u, 4) {
        0 => 0x0100u16,
        1 => 0x8180,
        2 => 0x8400,
        _ => u16_(u),
    };
    let mut w = Writer { buf: vec![0u8; 12], seen: vec![], layout: Layout::default() };
    w.buf[0..2].copy_from_slice(&id.to_be_bytes());
    w.buf[2..4].copy_from_slice(&flags.to_be_bytes());
    let mut counts = [0u16; 4];
    let mut questions = vec![];
    let mut items = vec![];
    let nq = match pick(u, 8) {
        0 => 0,
        7 => 2,
        _ => 1,
    };
    for _ in 0..nq {
        let n = pool[pick(u, pool.len())].clone();
        let qt = match pick(u, 4) {
            0 => [255u16, 252, 251, 1, 28, 6][pick(u, 6)],
            _ => grd::rtype(u, o.zone_only),
        };
        let qc = class(u);
        w.layout.name_offsets.push(w.buf.len());
        w.name(u, &n, o.compress);
        w.buf.extend_from_slice(&qt.to_be_bytes());
        w.buf.extend_from_slice(&qc.to_be_bytes());
        questions.push((n, qt, qc));
        counts[0] += 1;
    }
    let nrec = pick(u, o.max_records + 1);
    let mut section = 1u8;
    for i in 0..nrec {
        if section < 3 && chance(u, 70) {
            section += 1;
        }
        let rtype = match grd::rtype(u, o.zone_only) {
            rr::OPT => rr::TXT, // OPT handled below
            t => t,
        };
        let owner = pool[pick(u, pool.len())].clone();
        let cls = class(u);
        let t = ttl(u);
        let rd = grd::rdata(u, rtype, &pool, grd::Opts { plain_names: o.plain_names, max_blob: 200 });
        w.layout.record_offsets.push(w.buf.len());
        w.layout.name_offsets.push(w.buf.len());
        w.name(u, &owner, o.compress);
        w.buf.extend_from_slice(&rtype.to_be_bytes());
        w.buf.extend_from_slice(&cls.to_be_bytes());
        w.buf.extend_from_slice(&t.to_be_bytes());
        w.rdata(u, rtype, &rd, o.compress, o.compress_nonwk);
        counts[section as usize] += 1;
        items.push(Item { section, owner, rtype, class: cls, ttl: t, rdata: rd });
        let _ = i;
    }
    if o.with_opt && chance(u, 90) {
        let rd = grd::rdata(u, rr::OPT, &[], grd::Opts::default());
        let udp = [0u16, 512, 1232, 4096, 65535][pick(u, 5)];
        let t = if flag(u) { 0x0000_8000u32 } else { ttl(u) };
        w.layout.record_offsets.push(w.buf.len());
        w.buf.push(0);
        w.buf.extend_from_slice(&rr::OPT.to_be_bytes());
        w.buf.extend_from_slice(&udp.to_be_bytes());
        w.buf.extend_from_slice(&t.to_be_bytes());
        w.rdata(u, rr::OPT, &rd, false, false);
        counts[3] += 1;
        items.push(Item { section: 3, owner: vec![], rtype: rr::OPT, class: udp, ttl: t, rdata: rd });
    }
    for i in 0..4 {
        w.buf[4 + 2 * i..6 + 2 * i].copy_from_slice(&counts[i].to_be_bytes());
    }
    GenMsg { bytes: w.buf, layout: w.layout, questions, items }
}

/// Adversarial mutations of a (valid) message. Returns labels of what was
/// done.
pub fn mutate(u: &mut Unstructured, m: &mut Vec<u8>, l: &Layout) -> Vec<&'static str> {
    let mut done = vec![];
    let n = 1 + pick(u, 3);
    for _ in 0..n {
        if m.len() < 12 {
            break;
        }
        match pick(u, 12) {
            0 => {
                // header count
                let i = 4 + 2 * pick(u, 4);
                let cur = u16::from_be_bytes([m[i], m[i + 1]]);
                let v = [0u16, 1, cur.wrapping_add(1), cur.wrapping_sub(1), 0xFFFF, 0xFFFE][pick(u, 6)];
                m[i..i + 2].copy_from_slice(&v.to_be_bytes());
                done.push(if v == 0xFFFF { "count=0xFFFF" } else { "count-changed" });
            }
            1 if !l.pointer_offsets.is_empty() || !l.name_offsets.is_empty() => {
                // redirect or plant a pointer
                let (off, planted) = if !l.pointer_offsets.is_empty() && flag(u) {
                    (l.pointer_offsets[pick(u, l.pointer_offsets.len())], false)
                } else {
                    (l.name_offsets[pick(u, l.name_offsets.len())], true)
                };
                if off + 2 <= m.len() {
                    let target = match pick(u, 6) {
                        0 => off,                                // self
                        1 => off + 2,                            // forward
                        2 => off.saturating_sub(1),              // just before
                        3 => pick(u, 12),                        // into header
                        4 => m.len() + pick(u, 10),              // beyond end
                        _ => pick(u, m.len().min(0x3FFF)),       // anywhere
                    };
                    m[off..off + 2].copy_from_slice(&(0xC000u16 | (target as u16 & 0x3FFF)).to_be_bytes());
                    done.push(if planted { "pointer-planted" } else { "pointer-redirected" });
                }
            }
            2 if !l.rdlen_offsets.is_empty() => {
                let off = l.rdlen_offsets[pick(u, l.rdlen_offsets.len())];
                if off + 2 <= m.len() {
                    let cur = u16::from_be_bytes([m[off], m[off + 1]]);
                    let v = [cur.wrapping_add(1), cur.wrapping_sub(1), 0, 0xFFFF, cur.wrapping_add(2), cur / 2][pick(u, 6)];
                    m[off..off + 2].copy_from_slice(&v.to_be_bytes());
                    done.push("rdlen-mismatch");
                }
            }
            3 => {
                // truncate
                let cut = 12 + pick(u, m.len() - 11);
                m.truncate(cut.min(m.len()));
                done.push("truncated");
            }
            4 if !l.name_offsets.is_empty() => {
                // bad label type
                let off = l.name_offsets[pick(u, l.name_offsets.len())];
                if off < m.len() {
                    m[off] = (m[off] & 0x3F) | if flag(u) { 0x40 } else { 0x80 };
                    done.push("label-type");
                }
            }
            5 => {
                // flip a byte anywhere
                let i = pick(u, m.len());
                m[i] ^= 1 << pick(u, 8);
                done.push("bitflip");
            }
            6 => {
                // set a byte to a length-like value
                let i = 12 + pick(u, m.len().saturating_sub(12).max(1));
                if i < m.len() {
                    m[i] = [0u8, 63, 64, 0xC0, 0xFF, 1][pick(u, 6)];
                    done.push("length-octet");
                }
            }
            7 => {
                // append trailing garbage
                let k = 1 + pick(u, 20);
                for _ in 0..k {
                    m.push(byte(u));
                }
                done.push("trailing");
            }
            8 if l.pointer_offsets.len() >= 1 => {
                // pointer chain: make a pointer point at another pointer
                let a = l.pointer_offsets[pick(u, l.pointer_offsets.len())];
                let b = l.pointer_offsets[pick(u, l.pointer_offsets.len())];
                if a + 2 <= m.len() {
                    m[a..a + 2].copy_from_slice(&(0xC000u16 | (b as u16 & 0x3FFF)).to_be_bytes());
                    done.push("pointer-chain");
                }
            }
            9 if !l.rdlen_offsets.is_empty() => {
                // plant a pointer inside RDATA
                let off = l.rdlen_offsets[pick(u, l.rdlen_offsets.len())] + 2 + pick(u, 6);
                if off + 2 <= m.len() {
                    let t = pick(u, m.len().min(0x3FFF));
                    m[off..off + 2].copy_from_slice(&(0xC000u16 | t as u16).to_be_bytes());
                    done.push("pointer-in-rdata");
                }
            }
            10 if !l.record_offsets.is_empty() => {
                // duplicate a record's bytes at the end without fixing counts,
                // or fix the count
                let off = l.record_offsets[pick(u, l.record_offsets.len())];
                if off < m.len() {
                    let tail = m[off..].to_vec();
                    m.extend_from_slice(&tail[..tail.len().min(60)]);
                    if flag(u) {
                        let c = u16::from_be_bytes([m[10], m[11]]).wrapping_add(1);
                        m[10..12].copy_from_slice(&c.to_be_bytes());
                    }
                    done.push("dup-tail");
                }
            }
            _ => {
                let i = pick(u, m.len());
                m[i] = byte(u);
                done.push("byte-set");
            }
        }
    }
    done
}

/// Message bytes for totality properties: raw bytes, or a structured
/// message that was mutated. Returns (bytes, tags).
pub fn hostile_message(u: &mut Unstructured) -> (Vec<u8>, Vec<&'static str>) {
    match pick(u, 8) {
        0 | 1 => {
            // raw bytes
            let n = u.len();
            let b = u.bytes(n).unwrap_or(&[]).to_vec();
            (b, vec!["raw"])
        }
        2 => {
            let g = message(u, MsgOpts::default());
            (g.bytes, vec!["valid"])
        }
        _ => {
            let o = MsgOpts { compress_nonwk: flag(u), ..MsgOpts::default() };
            let g = message(u, o);
            let mut b = g.bytes;
            let mut tags = mutate(u, &mut b, &g.layout);
            tags.push("mutated");
            (b, tags)
        }
    }
}

#[allow(unused)]
fn _f(_: F) {}
