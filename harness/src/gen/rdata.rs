//! Valid RDATA generator driven by the independent field table
//! (`refimpl::rdata`). Output is uncompressed wire RDATA.
use super::name::{self, Labels};
use super::*;
use crate::refimpl::rdata::{self as rr, F};
use arbitrary::Unstructured;

#[derive(Clone, Copy)]
pub struct Opts {
    /// use only "plain" hostname octets in names
    pub plain_names: bool,
    /// upper bound for opaque blobs
    pub max_blob: usize,
}
impl Default for Opts {
    fn default() -> Self {
        Opts { plain_names: false, max_blob: 300 }
    }
}

pub fn blob(u: &mut Unstructured, min: usize, max: usize) -> Vec<u8> {
    let max = max.max(min);
    let n = match pick(u, 8) {
        0 => min,
        1 => max.min(min + 255),
        2..=5 => min + pick(u, (max - min).min(24) + 1),
        _ => min + pick(u, max - min + 1),
    };
    let fill = pick(u, 4);
    (0..n)
        .map(|_| match fill {
            0 => byte(u),
            1 => pickb(u, b"abcXYZ \"\\;()09.@$"),
            _ => byte(u),
        })
        .collect()
}

pub fn charstr(u: &mut Unstructured) -> Vec<u8> {
    let n = match pick(u, 10) {
        0 => 0,
        1 => 255,
        2..=7 => pick(u, 12),
        _ => pick(u, 256),
    };
    let mut v = vec![n as u8];
    for _ in 0..n {
        v.push(match pick(u, 4) {
            0 => name::SPECIAL[pick(u, name::SPECIAL.len())],
            1 => byte(u),
            _ => pickb(u, b"abcdefghijklmnopqrstuvwxyzABCDEFGHIJKLMNOPQRSTUVWXYZ0123456789"),
        });
    }
    v
}

/// RFC 4034 §4.1.2 bitmap for a set of types.
pub fn bitmap_of(types: &mut Vec<u16>) -> Vec<u8> {
    types.sort();
    types.dedup();
    let mut out = vec![];
    let mut i = 0;
    while i < types.len() {
        let w = (types[i] >> 8) as u8;
        let mut bits = [0u8; 32];
        let mut maxo = 0;
        while i < types.len() && (types[i] >> 8) as u8 == w {
            let lo = (types[i] & 0xff) as usize;
            bits[lo / 8] |= 0x80 >> (lo % 8);
            maxo = maxo.max(lo / 8);
            i += 1;
        }
        out.push(w);
        out.push((maxo + 1) as u8);
        out.extend_from_slice(&bits[..=maxo]);
    }
    out
}

pub fn bitmap(u: &mut Unstructured) -> Vec<u8> {
    let n = pick(u, 8);
    let mut types: Vec<u16> = (0..n)
        .map(|_| match pick(u, 4) {
            0 => [1u16, 2, 5, 6, 15, 16, 28, 43, 46, 47, 48, 50][pick(u, 12)],
            1 => [0u16, 255, 256, 257, 1234, 65280, 65535, 511, 512][pick(u, 9)],
            _ => u16_(u),
        })
        .collect();
    bitmap_of(&mut types)
}

fn svcparams(u: &mut Unstructured) -> Vec<u8> {
    // sorted unique keys with values in the format RFC 9460 gives them
    let mut keys: Vec<u16> = (0..pick(u, 6))
        .map(|_| match pick(u, 3) {
            0 | 1 => pick(u, 9) as u16,
            _ => [9u16, 100, 65280, 65534, 667][pick(u, 5)],
        })
        .collect();
    keys.sort();
    keys.dedup();
    let mut out = vec![];
    for k in keys.clone() {
        let v: Vec<u8> = match k {
            0 => {
                // mandatory: sorted unique list of other present keys (non-empty)
                let mut l: Vec<u16> = keys.iter().copied().filter(|&x| x != 0).collect();
                if l.is_empty() {
                    l.push(1);
                }
                l.iter().flat_map(|x| x.to_be_bytes()).collect()
            }
            1 => {
                let mut v = vec![];
                for _ in 0..1 + pick(u, 3) {
                    let id: Vec<u8> = (0..1 + pick(u, 6)).map(|_| pickb(u, b"h2h3/1.,\\abc\"")).collect();
                    v.push(id.len() as u8);
                    v.extend(id);
                }
                v
            }
            2 | 8 => vec![],
            3 => u16_(u).to_be_bytes().to_vec(),
            4 => (0..4 * (1 + pick(u, 3))).map(|_| byte(u)).collect(),
            6 => (0..16 * (1 + pick(u, 2))).map(|_| byte(u)).collect(),
            7 => b"/dns-query{?dns}".to_vec(),
            _ => blob(u, 0, 40),
        };
        out.extend_from_slice(&k.to_be_bytes());
        out.extend_from_slice(&(v.len() as u16).to_be_bytes());
        out.extend(v);
    }
    out
}

fn opt_options(u: &mut Unstructured) -> Vec<u8> {
    let mut out = vec![];
    for _ in 0..pick(u, 5) {
        let code: u16 = match pick(u, 14) {
            0 => 3,  // NSID
            1 => 5,  // DAU
            2 => 6,  // DHU
            3 => 7,  // N3U
            4 => 8,  // client subnet
            5 => 9,  // expire
            6 => 10, // cookie
            7 => 11, // keepalive
            8 => 12, // padding
            9 => 13, // chain
            10 => 14, // key tag
            11 => 15, // extended error
            _ => [4u16, 16, 65001, 65535, 0][pick(u, 5)],
        };
        let v: Vec<u8> = match code {
            3 | 12 => blob(u, 0, 40),
            5 | 6 | 7 => blob(u, 0, 8),
            8 => {
                // family, source prefix, scope prefix, address truncated
                let v4 = flag(u);
                let maxbits = if v4 { 32 } else { 128 };
                let src = pick(u, maxbits + 1) as u8;
                let scope = if flag(u) { 0 } else { pick(u, maxbits + 1) as u8 };
                let nbytes = (src as usize).div_ceil(8);
                let mut addr: Vec<u8> = (0..nbytes).map(|_| byte(u)).collect();
                if src % 8 != 0 {
                    let mask = 0xffu8 << (8 - src % 8);
                    if let Some(l) = addr.last_mut() {
                        *l &= mask;
                    }
                }
                let mut v = vec![0, if v4 { 1 } else { 2 }, src, scope];
                v.extend(addr);
                v
            }
            9 => if flag(u) { vec![] } else { u32_(u).to_be_bytes().to_vec() },
            10 => {
                // client cookie 8, optional server cookie 8..=32
                let mut v: Vec<u8> = (0..8).map(|_| byte(u)).collect();
                if flag(u) {
                    let n = 8 + pick(u, 25);
                    v.extend((0..n).map(|_| byte(u)));
                }
                v
            }
            11 => if flag(u) { vec![] } else { u16_(u).to_be_bytes().to_vec() },
            13 => name::to_wire(&name::name(u, true)),
            14 => (0..2 * pick(u, 4)).map(|_| byte(u)).collect(),
            15 => {
                let mut v = u16_(u).to_be_bytes().to_vec();
                v.extend((0..pick(u, 10)).map(|_| pickb(u, b"extended error text")));
                v
            }
            _ => blob(u, 0, 30),
        };
        out.extend_from_slice(&code.to_be_bytes());
        out.extend_from_slice(&(v.len() as u16).to_be_bytes());
        out.extend(v);
    }
    out
}

/// Generates valid uncompressed RDATA for `rtype`. `names` (if non-empty)
/// is a pool from which embedded names are drawn.
pub fn rdata(u: &mut Unstructured, rtype: u16, names: &[Labels], o: Opts) -> Vec<u8> {
    let Some(fields) = rr::schema(rtype) else {
        return blob(u, 0, o.max_blob);
    };
    let mut out = vec![];
    let mut gw = 0u8;
    for (i, f) in fields.iter().enumerate() {
        match *f {
            F::U8 => {
                let mut b = match pick(u, 4) {
                    0 => [0u8, 1, 2, 3, 255, 8, 13, 15][pick(u, 8)],
                    _ => byte(u),
                };
                if rtype == rr::IPSECKEY && i == 1 {
                    b = pick(u, 4) as u8;
                    gw = b;
                }
                out.push(b);
            }
            F::U16 => out.extend_from_slice(
                &match pick(u, 4) {
                    0 => [0u16, 1, 0xffff, 0x8000, 256][pick(u, 5)],
                    _ => u16_(u),
                }
                .to_be_bytes(),
            ),
            F::U32 => out.extend_from_slice(
                &match pick(u, 4) {
                    0 => [0u32, 1, 0xffff_ffff, 0x8000_0000, 0x7fff_ffff, 3600][pick(u, 6)],
                    _ => u32_(u),
                }
                .to_be_bytes(),
            ),
            F::U48 => out.extend_from_slice(&u64_(u).to_be_bytes()[2..]),
            F::Fixed(n) => out.extend((0..n).map(|_| byte(u))),
            F::Name { .. } => {
                let l = if !names.is_empty() && !chance(u, 40) {
                    names[pick(u, names.len())].clone()
                } else {
                    name::name(u, o.plain_names)
                };
                out.extend(name::to_wire(&l));
            }
            F::CharStr => out.extend(charstr(u)),
            F::CharStrs => {
                let n = match pick(u, 8) {
                    0 => 0,
                    1..=4 => 1,
                    _ => 1 + pick(u, 5),
                };
                for _ in 0..n {
                    out.extend(charstr(u));
                }
            }
            F::Rest => {
                // some types require a non-empty rest; that is decided by the
                // callers' classes (empty is legal on the wire for all).
                let min = match rtype {
                    rr::DNSKEY | rr::CDNSKEY | rr::DS | rr::CDS | rr::TLSA | rr::SSHFP | rr::ZONEMD => 0,
                    _ => 0,
                };
                out.extend(blob(u, min, o.max_blob));
            }
            F::Len8 => {
                let b = blob(u, 0, 255);
                out.push(b.len() as u8);
                out.extend(b);
            }
            F::Len16 => {
                let b = blob(u, 0, o.max_blob);
                out.extend_from_slice(&(b.len() as u16).to_be_bytes());
                out.extend(b);
            }
            F::CaaTag => {
                let mx = if chance(u, 20) { 255 } else { 10 };
                let n = 1 + pick(u, mx);
                out.push(n as u8);
                out.extend((0..n).map(|_| pickb(u, b"abcdefghijklmnopqrstuvwxyzABCDEFGHIJKLMNOPQRSTUVWXYZ0123456789")));
            }
            F::Bitmap => out.extend(bitmap(u)),
            F::SvcParams => out.extend(svcparams(u)),
            F::OptOptions => out.extend(opt_options(u)),
            F::IpsecGateway => match gw {
                1 => out.extend((0..4).map(|_| byte(u))),
                2 => out.extend((0..16).map(|_| byte(u))),
                3 => out.extend(name::to_wire(&name::name(u, o.plain_names))),
                _ => {}
            },
        }
    }
    out
}

/// Picks a record type: known types (round robin by input) or unknown.
pub fn rtype(u: &mut Unstructured, zone_only: bool) -> u16 {
    let list = if zone_only { rr::ZONE_TYPES } else { rr::ALL_TYPES };
    if chance(u, 16) {
        // unknown type code
        return [99u16, 255 + 3, 1234, 65280, 65534, 32768, 11, 18, 40][pick(u, 9)];
    }
    list[pick(u, list.len())]
}
