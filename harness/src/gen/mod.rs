//! Shared generators (decoders over `arbitrary::Unstructured`).
use arbitrary::Unstructured;

/// Monotone index choice: smaller input bytes give earlier alternatives.
pub fn pick(u: &mut Unstructured, n: usize) -> usize {
    if n <= 1 {
        return 0;
    }
    if n <= 256 {
        let b = u.arbitrary::<u8>().unwrap_or(0) as usize;
        (b * n) >> 8
    } else {
        let b = u.arbitrary::<u16>().unwrap_or(0) as usize;
        (b * n) >> 16
    }
}

pub fn byte(u: &mut Unstructured) -> u8 {
    u.arbitrary::<u8>().unwrap_or(0)
}
pub fn u16_(u: &mut Unstructured) -> u16 {
    u.arbitrary::<u16>().unwrap_or(0)
}
pub fn u32_(u: &mut Unstructured) -> u32 {
    u.arbitrary::<u32>().unwrap_or(0)
}
pub fn u64_(u: &mut Unstructured) -> u64 {
    u.arbitrary::<u64>().unwrap_or(0)
}
pub fn flag(u: &mut Unstructured) -> bool {
    byte(u) & 1 == 1
}
/// true with probability about num/256
pub fn chance(u: &mut Unstructured, num: u8) -> bool {
    byte(u) < num
}
/// integer in lo..=hi, monotone in the input
pub fn range(u: &mut Unstructured, lo: usize, hi: usize) -> usize {
    lo + pick(u, hi - lo + 1)
}

pub mod bigmsg;
pub mod message;
pub mod name;
pub mod rdata;

pub fn pickb(u: &mut Unstructured, s: &[u8]) -> u8 {
    s[pick(u, s.len())]
}
