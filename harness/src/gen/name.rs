//! Name generators. Names are handled as label vectors (`Vec<Vec<u8>>`,
//! root label implicit) so that nothing here depends on the library's name
//! types; `to_wire` gives the uncompressed wire form.
use super::*;
use arbitrary::Unstructured;

pub type Labels = Vec<Vec<u8>>;

/// Octets the properties single out.
pub const SPECIAL: &[u8] = b".\\\";()@$ *\t\n\r#'_-\x00\x7f\xff\x80\x1f!`[{@AZaz09";

pub fn label_byte(u: &mut Unstructured, plain: bool) -> u8 {
    if plain {
        return pickb(u, b"abcdefghijklmnopqrstuvwxyz0123456789-ABCXYZ_");
    }
    match pick(u, 8) {
        0..=3 => pickb(u, b"abcdefghijklmnopqrstuvwxyzABCDEFGHIJKLMNOPQRSTUVWXYZ0123456789-_"),
        4 | 5 => SPECIAL[pick(u, SPECIAL.len())],
        _ => byte(u),
    }
}

/// A label of 1..=max octets.
pub fn label(u: &mut Unstructured, max: usize, plain: bool) -> Vec<u8> {
    let max = max.clamp(1, 63);
    let len = match pick(u, 10) {
        0 => 1,
        1 => max,
        2 => max.saturating_sub(1).max(1),
        3..=7 => 1 + pick(u, max.min(8)),
        _ => 1 + pick(u, max),
    };
    if !plain && chance(u, 10) && max >= 1 {
        return b"*".to_vec();
    }
    (0..len).map(|_| label_byte(u, plain)).collect()
}

pub fn wire_len(l: &Labels) -> usize {
    l.iter().map(|x| x.len() + 1).sum::<usize>() + 1
}

pub fn to_wire(l: &Labels) -> Vec<u8> {
    let mut v = Vec::with_capacity(wire_len(l));
    for x in l {
        v.push(x.len() as u8);
        v.extend_from_slice(x);
    }
    v.push(0);
    v
}

/// Relative wire form (no root).
pub fn to_wire_rel(l: &Labels) -> Vec<u8> {
    let mut v = to_wire(l);
    v.pop();
    v
}

/// Parse uncompressed wire into labels (reference, strict).
pub fn from_wire(w: &[u8]) -> Option<Labels> {
    let mut out = vec![];
    let mut i = 0;
    loop {
        let n = *w.get(i)? as usize;
        i += 1;
        if n == 0 {
            return if i == w.len() && i <= 255 { Some(out) } else { None };
        }
        if n > 63 {
            return None;
        }
        out.push(w.get(i..i + n)?.to_vec());
        i += n;
    }
}

/// An absolute name with total wire length <= 255, length biased to the
/// boundaries.
pub fn name(u: &mut Unstructured, plain: bool) -> Labels {
    let target = match pick(u, 12) {
        0 => 1,
        1 => 255,
        2 => 254,
        3 => 253,
        4..=9 => 2 + pick(u, 40),
        _ => 1 + pick(u, 255),
    };
    name_with_len(u, target, plain)
}

/// Builds a name whose wire length is as close to `target` as the label
/// structure allows, never above it.
pub fn name_with_len(u: &mut Unstructured, target: usize, plain: bool) -> Labels {
    let mut labels = vec![];
    let mut len = 1usize;
    while len + 2 <= target.min(255) && labels.len() < 127 {
        let room = (target.min(255) - len - 1).min(63);
        let l = if target >= 250 && !chance(u, 40) {
            // long names: prefer long labels, exact fit at the end
            let n = if room >= 63 && chance(u, 200) { 63 } else { 1 + pick(u, room) };
            (0..n).map(|_| label_byte(u, plain)).collect()
        } else {
            label(u, room, plain)
        };
        len += l.len() + 1;
        labels.push(l);
        if target < 250 && chance(u, 70) {
            break;
        }
    }
    labels
}

pub fn swap_case(l: &Labels, u: &mut Unstructured) -> Labels {
    l.iter()
        .map(|x| {
            x.iter()
                .map(|&b| if b.is_ascii_alphabetic() && flag(u) { b ^ 0x20 } else { b })
                .collect()
        })
        .collect()
}

pub fn lower(l: &Labels) -> Labels {
    l.iter().map(|x| x.to_ascii_lowercase()).collect()
}

/// A pool of related names: shared suffixes, case variants, boundary
/// variants, long names.
pub fn pool(u: &mut Unstructured, n: usize, plain: bool) -> Vec<Labels> {
    let mut p: Vec<Labels> = vec![];
    let base: Labels = match pick(u, 4) {
        0 => vec![b"example".to_vec()],
        1 => vec![b"example".to_vec(), b"com".to_vec()],
        2 => vec![],
        _ => name(u, plain),
    };
    p.push(base.clone());
    while p.len() < n.max(1) {
        let k = pick(u, 7);
        let src = p[pick(u, p.len())].clone();
        let cand: Labels = match k {
            0 | 1 => {
                // child of an existing name
                let mut c = src.clone();
                let room = 255usize.saturating_sub(wire_len(&src) + 1).min(63);
                if room == 0 { name(u, plain) } else { c.insert(0, label(u, room.min(12), plain)); c }
            }
            2 => swap_case(&src, u),
            3 => {
                // sibling
                let mut c = src.clone();
                if c.is_empty() { name(u, plain) } else {
                    let room = (255 - (wire_len(&c) - c[0].len() - 1) - 1).min(63);
                    c[0] = label(u, room.min(12).max(1), plain);
                    c
                }
            }
            4 => {
                // label-boundary variant: merge first two labels with a dot
                let mut c = src.clone();
                if c.len() >= 2 && c[0].len() + c[1].len() + 1 <= 63 {
                    let b = c.remove(1);
                    c[0].push(b'.');
                    c[0].extend_from_slice(&b);
                }
                c
            }
            5 => name(u, plain),
            _ => {
                // parent
                let mut c = src.clone();
                if !c.is_empty() { c.remove(0); }
                c
            }
        };
        if wire_len(&cand) <= 255 {
            p.push(cand);
        }
    }
    p
}

pub fn show(l: &Labels) -> String {
    if l.is_empty() {
        return ".".into();
    }
    let mut s = String::new();
    for x in l {
        for &b in x {
            if b == b'.' || b == b'\\' {
                s.push('\\');
                s.push(b as char);
            } else if (0x21..0x7f).contains(&b) {
                s.push(b as char);
            } else {
                s.push_str(&format!("\\{b:03}"));
            }
        }
        s.push('.');
    }
    s
}

/// Library name from labels (absolute).
pub fn to_name(l: &Labels) -> domain::base::Name<Vec<u8>> {
    domain::base::Name::from_octets(to_wire(l)).expect("generated name must be valid")
}
pub fn to_name_bytes(l: &Labels) -> domain::base::Name<bytes::Bytes> {
    domain::base::Name::from_octets(bytes::Bytes::from(to_wire(l))).expect("generated name must be valid")
}
pub fn from_name<N: domain::base::ToName>(n: &N) -> Labels {
    n.iter_labels().filter(|l| !l.is_root()).map(|l| l.as_slice().to_vec()).collect()
}
