//! Large messages (sizes around the 0x3FFF pointer limit and the 0xFFFF
//! message limit) built from a small byte budget: a valid message from
//! `gen::message` is extended with padding records (NULL / TXT / unknown
//! type) up to a target size, then a few more named records are appended so
//! that names are (re)used beyond offset 0x4000.
use super::message::{self as gm, GenMsg, MsgOpts};
use super::name;
use super::*;
use crate::refimpl::rdata as rr;
use arbitrary::Unstructured;

pub fn target_size(u: &mut Unstructured) -> usize {
    match pick(u, 8) {
        0 => 0x3FF0 + pick(u, 0x30),
        1 => 0x4000 + pick(u, 0x200),
        2 => 65535,
        3 => 65535 - pick(u, 40),
        4 => 512 + pick(u, 8),
        5 => 1232 + pick(u, 8),
        _ => 600 + pick(u, 64000),
    }
}

/// Returns a valid message of roughly `target` octets (never above 65535).
pub fn big_message(u: &mut Unstructured, o: MsgOpts) -> GenMsg {
    let target = target_size(u).min(65535);
    let mut g = gm::message(u, MsgOpts { with_opt: false, ..o });
    let mut an = u16::from_be_bytes([g.bytes[6], g.bytes[7]]);
    let ns = u16::from_be_bytes([g.bytes[8], g.bytes[9]]);
    let ar = u16::from_be_bytes([g.bytes[10], g.bytes[11]]);
    // padding records go into the last non-empty section to keep the
    // section structure valid: simplest is to append to the additional
    // section (always last).
    let mut ar_new = ar;
    let _ = (an, ns);
    let owner: name::Labels = vec![b"pad".to_vec()];
    while g.bytes.len() + 20 < target && ar_new < 0xFFF0 {
        let room = target - g.bytes.len();
        let fixed = name::wire_len(&owner) + 10;
        if room <= fixed {
            break;
        }
        let rdlen = (room - fixed).min(65535 - 0).min(if chance(u, 128) { 65535 } else { 1 + pick(u, 4000) });
        let rtype = [rr::NULL, 65280u16, rr::TXT][pick(u, 3)];
        let rdlen = if g.bytes.len() + fixed + rdlen > 65535 { 65535 - g.bytes.len() - fixed } else { rdlen };
        let rd: Vec<u8> = if rtype == rr::TXT {
            // valid char-strings filling rdlen exactly
            let mut v = Vec::with_capacity(rdlen);
            let mut left = rdlen;
            while left > 0 {
                let n = (left - 1).min(255);
                v.push(n as u8);
                v.extend(std::iter::repeat(b'p').take(n));
                left -= n + 1;
            }
            v
        } else {
            vec![0xAB; rdlen]
        };
        g.layout.record_offsets.push(g.bytes.len());
        g.layout.name_offsets.push(g.bytes.len());
        g.bytes.extend(name::to_wire(&owner));
        g.bytes.extend_from_slice(&rtype.to_be_bytes());
        g.bytes.extend_from_slice(&1u16.to_be_bytes());
        g.bytes.extend_from_slice(&0u32.to_be_bytes());
        g.layout.rdlen_offsets.push(g.bytes.len());
        g.bytes.extend_from_slice(&(rd.len() as u16).to_be_bytes());
        g.bytes.extend_from_slice(&rd);
        g.items.push(gm::Item { section: 3, owner: owner.clone(), rtype, class: 1, ttl: 0, rdata: rd });
        ar_new += 1;
    }
    // a few named records after the padding, with pointers to early names
    let first_name_off = 12usize;
    let nq = u16::from_be_bytes([g.bytes[4], g.bytes[5]]);
    let mut late_off: Option<usize> = None;
    for _ in 0..pick(u, 6) {
        if g.bytes.len() + 40 > 65535 || ar_new == 0xFFFF {
            break;
        }
        g.layout.record_offsets.push(g.bytes.len());
        g.layout.name_offsets.push(g.bytes.len());
        let owner: name::Labels;
        if nq > 0 && flag(u) {
            // pointer to the first question name
            g.layout.pointer_offsets.push(g.bytes.len());
            g.bytes.extend_from_slice(&(0xC000u16 | first_name_off as u16).to_be_bytes());
            owner = g.questions[0].0.clone();
        } else if let (Some(off), true) = (late_off, flag(u)) {
            // pointer to a name that was written late in the message: the
            // target offset is >= 1024 (and < 0x4000), i.e. it needs more
            // than 10 bits of the pointer
            g.layout.pointer_offsets.push(g.bytes.len());
            let child = chance(u, 128);
            if child {
                g.bytes.extend_from_slice(&[3, b'w', b'w', b'w']);
            }
            g.bytes.extend_from_slice(&(0xC000u16 | off as u16).to_be_bytes());
            owner = if child { vec![b"www".to_vec(), b"late".to_vec(), b"example".to_vec()] } else { vec![b"late".to_vec(), b"example".to_vec()] };
        } else {
            owner = vec![b"late".to_vec(), b"example".to_vec()];
            if g.bytes.len() < 0x4000 && late_off.is_none() {
                late_off = Some(g.bytes.len());
            }
            g.bytes.extend(name::to_wire(&owner));
        }
        let rd = vec![192, 0, 2, byte(u)];
        g.bytes.extend_from_slice(&rr::A.to_be_bytes());
        g.bytes.extend_from_slice(&1u16.to_be_bytes());
        g.bytes.extend_from_slice(&300u32.to_be_bytes());
        g.layout.rdlen_offsets.push(g.bytes.len());
        g.bytes.extend_from_slice(&4u16.to_be_bytes());
        g.bytes.extend_from_slice(&rd);
        g.items.push(gm::Item { section: 3, owner, rtype: rr::A, class: 1, ttl: 300, rdata: rd });
        ar_new += 1;
    }
    an = an;
    g.bytes[10..12].copy_from_slice(&ar_new.to_be_bytes());
    g
}
