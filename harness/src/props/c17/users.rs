//! C17, users of serial arithmetic: "decisions about which zone version ...
//! is newer stay correct across the 2^32 wrap-around". Two decisions that
//! the anchored code takes with `Serial`:
//!  * `WritableZone::commit(bump_soa_serial = true)`: the new SOA serial must
//!    be the RFC 1982 successor of the old one (and thereby newer);
//!  * the XFR middleware's IXFR answer: a client whose serial is the same as
//!    or newer than the zone's (RFC 1982 order) gets the single SOA, a client
//!    that is behind gets the transfer.
//! Built on the C10 harness pieces (zone model, sender driver).
use super::{addend, val};
use crate::engine::*;
use crate::gen::*;
use crate::props::c10::lib_io::*;
use crate::props::c10::model::{self as m, VersionM};
use crate::refimpl::rdata as rr;
use crate::refimpl::serial as rs;
use crate::{vensure, vfail};
use arbitrary::Unstructured;
use std::cmp::Ordering;
use core::future::{ready, Future};
use core::ops::ControlFlow;
use core::pin::Pin;
use domain::base::Serial;
use domain::net::server::message::Request;
use domain::net::server::middleware::xfr::{XfrData, XfrDataProvider, XfrDataProviderError, XfrMiddlewareSvc};
use domain::zonetree::{InMemoryZoneDiff, Zone};
use futures_util::StreamExt;
use std::sync::Arc;

/// Data provider that hands out the diffs it has whatever serial the client
/// names (a provider that keeps a history of recent diffs and lets the
/// middleware decide): this is what makes the middleware's own
/// "is the client already up to date?" comparison reachable for clients that
/// are level with or ahead of the zone.
#[derive(Clone)]
struct LooseProvider {
    zone: Zone,
    diffs: Vec<Arc<InMemoryZoneDiff>>,
    strict: bool,
}

impl XfrDataProvider<()> for LooseProvider {
    type Diff = Arc<InMemoryZoneDiff>;
    fn request<Octs>(
        &self,
        req: &Request<Octs, ()>,
        diff_from: Option<Serial>,
    ) -> Pin<Box<dyn Future<Output = Result<XfrData<Self::Diff>, XfrDataProviderError>> + Sync + Send + '_>>
    where
        Octs: octseq::Octets + Send + Sync,
    {
        let res = req.message().sole_question().map_err(XfrDataProviderError::ParseError).and_then(|q| {
            if q.qname() == self.zone.apex_name() && q.qclass() == self.zone.class() {
                let matches = self.diffs.first().map(|d| d.start_serial) == diff_from;
                let diffs = if matches || (!self.strict && diff_from.is_some()) { self.diffs.clone() } else { vec![] };
                Ok(XfrData::new(self.zone.clone(), diffs, false))
            } else {
                Err(XfrDataProviderError::UnknownZone)
            }
        });
        Box::pin(ready(res))
    }
}

async fn serve_loose(provider: LooseProvider, req: &Request<Vec<u8>, ()>) -> Result<Vec<Vec<u8>>, String> {
    let sem = Arc::new(tokio::sync::Semaphore::new(1));
    let sem2 = Arc::new(tokio::sync::Semaphore::new(1));
    let res = XfrMiddlewareSvc::<Vec<u8>, NextSvc, (), LooseProvider>::preprocess(sem, sem2, req, provider).await;
    let mut stream = match res {
        Ok(ControlFlow::Break(s)) => s,
        Ok(ControlFlow::Continue(())) => return Err("request not handled by the XFR middleware".into()),
        Err(rcode) => return Err(format!("preprocess returned {rcode}")),
    };
    let mut out = vec![];
    let mut n = 0usize;
    while let Some(item) = stream.next().await {
        n += 1;
        if n > 100_000 {
            return Err("response stream does not end".into());
        }
        match item {
            Ok(cr) => {
                let (resp, _fb) = cr.into_inner();
                if let Some(b) = resp {
                    out.push(b.as_message().as_slice().to_vec());
                }
            }
            Err(e) => return Err(format!("service error in stream: {e:?}")),
        }
    }
    Ok(out)
}

fn soa_serial_of(c: &m::Content, apex: &Vec<Vec<u8>>) -> Option<u32> {
    let k = m::key_of(apex, rr::SOA);
    let rd = c.get(&k)?.rdatas.first()?.clone();
    // serial follows the two names
    let spans = rr::name_spans(rr::SOA, &rd);
    let off = spans.iter().map(|s| s.0 + s.1).max()?;
    Some(u32::from_be_bytes(rd.get(off..off + 4)?.try_into().ok()?))
}

fn small_version(u: &mut Unstructured, apex: &Vec<Vec<u8>>, pool: &[Vec<Vec<u8>>], serial: u32) -> VersionM {
    let mut v = m::gen_version(u, apex, pool, &m::GenOpts { max_sets: 3, blob: 8, allow_bulk: false, thorough: false });
    v.soa.serial = serial;
    v
}

pub fn run_bump(data: &[u8], ctx: &mut Ctx) -> CaseResult {
    let mut u = Unstructured::new(data);
    let s = val(&mut u);
    let apex = m::apex(&mut u);
    let pool = m::owner_pool(&mut u, &apex, 4);
    let old = small_version(&mut u, &apex, &pool, s);
    if s >= 0xFFFF_FFF0 || s == 0x7FFF_FFFF || s == 0x8000_0000 {
        ctx.class(format!("bump-from:{s:#x}"));
        ctx.class("bump-at-boundary");
    }
    ctx.nontrivial(&("bump", s, &old.sets.len()));
    ctx.sample(|| format!("zone at serial {s:#x}, one RRset added, commit(bump_soa_serial = true)"));
    // (the shared RDATA generator can emit records the library refuses, e.g. an
    // NSEC without type bitmap; such a zone cannot be set up: skip, counted)
    let zone = match zone_from_version(&apex, &old) {
        Ok(z) => z,
        Err(_) => { ctx.class("users-setup-skipped"); return Ok(()); }
    };
    ctx.class("users-bump-ran");
    let res: Result<(Option<(u32, u32)>, Option<u32>), String> = block_on_paused(async {
        use domain::base::name::Label;
        let mut w = zone.write().await;
        let root = w.open(true).await.map_err(|e| format!("open: {e}"))?;
        let child = root.update_child(Label::from_slice(b"c17added").unwrap()).await.map_err(|e| format!("update_child: {e}"))?;
        let mut owner = vec![b"c17added".to_vec()];
        owner.extend(apex.iter().cloned());
        child.update_rrset(shared_rrset(&owner, rr::A, 60, &[vec![192, 0, 2, 17]])?).await.map_err(|e| format!("update_rrset: {e}"))?;
        drop(child);
        drop(root);
        let d = w.commit(true).await.map_err(|e| format!("commit: {e}"))?;
        let after = soa_serial_of(&snapshot(&zone), &apex);
        Ok((d.map(|d| (d.start_serial.into_int(), d.end_serial.into_int())), after))
    });
    let (diff, after) = match res {
        Ok(x) => x,
        Err(e) => vfail!("users:bump:error", "commit with bump at serial {s:#x}: {e}"),
    };
    let want = rs::add(s, 1);
    vensure!(after == Some(want), "users:bump:serial-not-successor", "zone serial {s:#x}: after commit(true) the SOA serial is {after:?}, RFC 1982 successor is {want:#x}");
    vensure!(rs::cmp(s, want) == Some(Ordering::Less), "users:bump:reference", "reference");
    match diff {
        Some((a, b)) => vensure!(a == s && b == want, "users:bump:diff-serials", "diff says {a:#x}->{b:#x}, zone went {s:#x}->{want:#x}"),
        None => vfail!("users:bump:no-diff", "commit(true) of a changed zone at serial {s:#x} returned no diff (the new version is not considered newer)"),
    }
    Ok(())
}

/// One IXFR exchange: zone at serial a+step (previous version a, diff
/// available), client at `a + client_off`. Returns the response records with
/// every SOA serial made relative to `a`.
/// What the receiving side (XfrResponseInterpreter + ZoneUpdater on a zone
/// holding the previous version) made of the response stream: error stage (if
/// any), the kinds of the updates it produced, and whether interpreter and
/// updater consider the transfer finished.
/// ... plus the SOA serial of the receiving zone afterwards, relative to the
/// previous version's serial, and the number of non-SOA RRsets it holds.
type ClientView = (Option<&'static str>, Vec<u8>, bool, bool, Option<u32>, usize);
type Shape = (Vec<(Vec<u8>, u16, u32, Vec<u8>)>, ClientView);

fn ixfr_shape(apex: &Vec<Vec<u8>>, old_t: &VersionM, new_t: &VersionM, a: u32, step: u32, client_off: u32, id: u16, strict: bool, nmid: usize) -> Result<Option<Shape>, String> {
    let mut old = old_t.clone();
    let mut new = new_t.clone();
    old.soa.serial = a;
    new.soa.serial = rs::add(a, step);
    let client = a.wrapping_add(client_off);
    // the history between the previous and the current version: nmid
    // intermediate versions (each adds one record), i.e. nmid + 1 diffs that
    // the provider hands out oldest first (RFC 1995 section 4)
    let mut versions = vec![old.clone()];
    for k in 1..=nmid {
        let mut v = versions.last().unwrap().clone();
        let owner = [vec![format!("c17m{k}").into_bytes()], apex.clone()].concat();
        v.sets.insert(m::key_of(&owner, rr::A), m::SetM { owner: owner.clone(), rtype: rr::A, ttl: 30, rdatas: vec![vec![192, 0, 2, k as u8]] });
        v.soa.serial = rs::add(a, ((step / (nmid as u32 + 1)) * k as u32).max(k as u32));
        versions.push(v);
    }
    {
        // the current version holds everything the intermediate ones added
        let last = versions.last().unwrap().clone();
        for (k, set) in last.sets.iter() {
            new.sets.entry(k.clone()).or_insert_with(|| set.clone());
        }
    }
    versions.push(new.clone());
    let mut diffs = vec![];
    for w in versions.windows(2) {
        match model_diff(apex, &w[0], &w[1]) {
            Ok(d) => diffs.push(std::sync::Arc::new(d)),
            Err(_) => return Ok(None),
        }
    }
    let zone = match zone_from_version(apex, &new) {
        Ok(z) => z,
        Err(_) => return Ok(None),
    };
    let provider = LooseProvider { zone, diffs, strict };
    let req = mk_request(apex, &ReqOpts { ixfr_from: Some(client), udp: None, reserve: 0, id });
    let msgs = block_on_paused(serve_loose(provider, &req))?;
    let recs = records_of(&msgs)?;
    // the receiving side: a zone holding the previous version takes the stream
    let client_view: ClientView = match zone_from_version(apex, &old) {
        Ok(old_zone) => {
            let rx = block_on_paused(receive(&old_zone, &msgs, false));
            (rx.err.as_ref().map(|e| e.stage), rx.kinds.clone(), rx.interp_finished, rx.updater_finished, soa_serial_of(&rx.after_drop, apex).map(|x| x.wrapping_sub(a)), rx.after_drop.len())
        }
        Err(_) => (Some("setup"), vec![], false, false, None, 0),
    };
    Ok(Some((
        recs.into_iter()
            .map(|r| {
                let mut rd = r.rdata.clone();
                if r.rtype == rr::SOA {
                    let spans = rr::name_spans(rr::SOA, &rd);
                    if let Some(off) = spans.iter().map(|s| s.0 + s.1).max() {
                        if off + 4 <= rd.len() {
                            let ser = u32::from_be_bytes(rd[off..off + 4].try_into().unwrap());
                            rd[off..off + 4].copy_from_slice(&ser.wrapping_sub(a).to_be_bytes());
                        }
                    }
                }
                (gn_wire(&r.owner), r.rtype, r.ttl, rd)
            })
            .collect(),
        client_view,
    )))
}

fn gn_wire(l: &Vec<Vec<u8>>) -> Vec<u8> {
    crate::gen::name::to_wire(l)
}

/// The server's IXFR decision ("is the client behind, level or ahead?") must
/// be invariant under adding the same amount to every serial involved: the
/// same exchange is run once with serials far from any boundary and once
/// shifted so that the serials sit at or straddle the 2^31 / 2^32 boundaries;
/// the two response streams must be identical up to that shift.
pub fn run_ixfr(data: &[u8], ctx: &mut Ctx) -> CaseResult {
    let mut u = Unstructured::new(data);
    let a = val(&mut u);
    let step = match pick(&mut u, 3) { 0 => 1 + pick(&mut u, 8) as u32, _ => addend(&mut u).max(1) };
    // the client's serial relative to a: behind (= a, the diff's start), level
    // (= a + step) or ahead of the zone by k < 2^31 - step
    let (client_off, relation) = match pick(&mut u, 6) {
        0 | 1 | 2 => (0u32, "behind"),
        3 => (step, "level"),
        _ => {
            let room = 0x7FFF_FFFFu32 - step;
            (step + if room == 0 { 0 } else { 1 + (u32_(&mut u) % room.max(1)).min(room - 1) }, "ahead")
        }
    };
    let apex = m::apex(&mut u);
    let pool = m::owner_pool(&mut u, &apex, 4);
    let old_t = small_version(&mut u, &apex, &pool, 0);
    let mut new_t = old_t.clone();
    let added = [vec![b"c17".to_vec()], apex.clone()].concat();
    new_t.sets.insert(m::key_of(&added, rr::A), m::SetM { owner: added.clone(), rtype: rr::A, ttl: 30, rdatas: vec![vec![192, 0, 2, byte(&mut u)]] });
    let id = u16_(&mut u);
    let strict = chance(&mut u, 100);
    ctx.class(if strict { "ixfr-provider-strict" } else { "ixfr-provider-loose" });
    // number of intermediate versions between the previous and the current one
    let nmid = (pick(&mut u, 3)).min((step as usize).saturating_sub(1));
    ctx.class(format!("ixfr-history-of-{}-diffs", nmid + 1));
    let b = rs::add(a, step);
    let client = a.wrapping_add(client_off);
    let straddle = (a as u64 + step as u64) >= (1u64 << 32) || (a as u64 + client_off as u64) >= (1u64 << 32);
    let half = [a, b, client].iter().any(|&x| x == 0x7FFF_FFFF || x == 0x8000_0000 || x == 0xFFFF_FFFF || x == 0);
    ctx.class(format!("ixfr-client-{relation}"));
    if straddle && nmid > 0 {
        ctx.class("ixfr-multi-diff-history-straddles-wrap");
    }
    if straddle {
        ctx.class("ixfr-serials-straddle-wrap");
        ctx.class(format!("ixfr-client-{relation}-across-wrap"));
    }
    if half {
        ctx.class("ixfr-serial-at-boundary");
    }
    ctx.nontrivial(&("ixfr", a, step, client_off));
    ctx.sample(|| format!("previous serial {a:#x}, zone serial {b:#x}, IXFR from client serial {client:#x} ({relation}); reference run with previous serial 0x1000"));
    let base = match ixfr_shape(&apex, &old_t, &new_t, 0x1000, step, client_off, id, strict, nmid) {
        Ok(Some(x)) => x,
        Ok(None) => { ctx.class("users-setup-skipped"); return Ok(()); }
        Err(e) => vfail!("users:ixfr:sender-error", "reference exchange: {e}"),
    };
    let shifted = match ixfr_shape(&apex, &old_t, &new_t, a, step, client_off, id, strict, nmid) {
        Ok(Some(x)) => x,
        Ok(None) => { ctx.class("users-setup-skipped"); return Ok(()); }
        Err(e) => vfail!("users:ixfr:sender-error", "previous {a:#x} zone {b:#x} client {client:#x}: {e}"),
    };
    let (base, base_client) = base;
    let (shifted, shifted_client) = shifted;
    ctx.class("users-ixfr-ran");
    ctx.class(if base.len() == 1 { "ixfr-answer-single-soa" } else { "ixfr-answer-transfer" });
    // record order inside a transfer follows the library's hash maps: compare
    // the leading record, the trailing record and the multiset
    // ... and the sequence of SOA records, which frames the difference
    // sequences (RFC 1995 section 4: oldest first) and is the same in every run
    let norm = |v: &Vec<(Vec<u8>, u16, u32, Vec<u8>)>| { let mut m = v.clone(); m.sort(); let soas: Vec<Vec<u8>> = v.iter().filter(|r| r.1 == rr::SOA).map(|r| r.3.clone()).collect(); (v.first().cloned(), v.last().cloned(), m, soas) };
    if norm(&base) != norm(&shifted) {
        vfail!(
            format!("users:ixfr:decision-not-translation-invariant:client-{relation}"),
            "IXFR answer depends on where the serials sit: with previous/zone/client serials 0x1000/{:#x}/{:#x} the server sends {} records, with {a:#x}/{b:#x}/{client:#x} (same differences) it sends {} records",
            0x1000u32.wrapping_add(step), 0x1000u32.wrapping_add(client_off), base.len(), shifted.len()
        );
    }
    // the receiving side (XFR client: XfrResponseInterpreter + ZoneUpdater)
    // must take the same decisions about the same stream wherever the serials
    // sit: accept/reject at the same stage, same sequence of update kinds,
    // same finished state
    if std::env::var_os("C17_DEBUG").is_some() && nmid > 0 && straddle {
        eprintln!("DEBUG a={a:#x} step={step} nmid={nmid} rel={relation} base={:?} shifted={:?} nrec={}/{}", (base_client.0, base_client.1.len(), base_client.4, base_client.5), (shifted_client.0, shifted_client.1.len(), shifted_client.4, shifted_client.5), base.len(), shifted.len());
    }
    if base_client.0 != Some("setup") && shifted_client.0 != Some("setup") {
        ctx.class(if base_client.0.is_none() { "ixfr-receiver-accepts" } else { "ixfr-receiver-rejects" });
        if base_client.0.is_none() && base_client.2 && straddle {
            ctx.class("ixfr-receiver-applies-diff-across-wrap");
        }
        if base_client != shifted_client {
            vfail!(
                format!("users:ixfr:receiver-not-translation-invariant:client-{relation}"),
                "the XFR client treats the same response stream differently depending on where the serials sit: with previous/zone serials 0x1000/{:#x} -> error stage {:?}, {} updates, interpreter finished {}, updater finished {}, resulting serial (relative) {:?}, {} RRsets; with {a:#x}/{b:#x} (same differences) -> error stage {:?}, {} updates, interpreter finished {}, updater finished {}, resulting serial (relative) {:?}, {} RRsets",
                0x1000u32.wrapping_add(step), base_client.0, base_client.1.len(), base_client.2, base_client.3, base_client.4, base_client.5, shifted_client.0, shifted_client.1.len(), shifted_client.2, shifted_client.3, shifted_client.4, shifted_client.5
            );
        }
    }
    Ok(())
}
