//! C17 — the new-API serial number type (`domain::new::base::Serial`, which is
//! also the type of `new::rdata::Rrsig::{inception, expiration}` and of the
//! new SOA serial) judged against the same RFC 1982 reference as the
//! established `base::Serial`.
use super::{addend, val, DIFFS};
use crate::engine::*;
use crate::gen::*;
use crate::refimpl::serial as rs;
use crate::vensure;
use arbitrary::Unstructured;
use domain::new::base::Serial as NSerial;
use std::cmp::Ordering;

fn rev(o: Option<Ordering>) -> Option<Ordering> {
    o.map(|o| o.reverse())
}

/// All comparison clauses for one ordered pair.
pub(crate) fn check_new_pair(a: u32, b: u32, what: &str) -> CaseResult {
    let (sa, sb) = (NSerial::new(a), NSerial::new(b));
    let want = rs::cmp(a, b);
    let got = sa.partial_cmp(&sb);
    vensure!(got == want, format!("{what}:cmp-differs-from-rfc1982"), "new::base::Serial({a}).partial_cmp(Serial({b})) = {got:?}, RFC 1982 says {want:?}");
    let back = sb.partial_cmp(&sa);
    vensure!(back == rev(want), format!("{what}:antisymmetry"), "new Serial: cmp({a},{b})={got:?} but cmp({b},{a})={back:?}");
    vensure!((sa == sb) == (a == b) && (sa != sb) == (a != b), format!("{what}:eq"), "new Serial ==/!= wrong for {a},{b}");
    let le = matches!(want, Some(Ordering::Less) | Some(Ordering::Equal));
    let ge = matches!(want, Some(Ordering::Greater) | Some(Ordering::Equal));
    vensure!((sa < sb) == (want == Some(Ordering::Less)) && (sa > sb) == (want == Some(Ordering::Greater)) && (sa <= sb) == le && (sa >= sb) == ge, format!("{what}:operators"), "new Serial operators for {a},{b} disagree with RFC 1982 order {want:?}: < {} <= {} > {} >= {}", sa < sb, sa <= sb, sa > sb, sa >= sb);
    vensure!(PartialOrd::lt(&sa, &sb) == (want == Some(Ordering::Less)) && PartialOrd::gt(&sa, &sb) == (want == Some(Ordering::Greater)) && PartialOrd::le(&sa, &sb) == le && PartialOrd::ge(&sa, &sb) == ge, format!("{what}:operator-methods"), "PartialOrd::lt/le/gt/ge of new Serial({a}), Serial({b}) disagree with RFC 1982 order {want:?}");
    // the two serial types of the crate must take the same decision
    let old = domain::base::Serial(a).partial_cmp(&domain::base::Serial(b));
    vensure!(old == got, format!("{what}:differs-from-base-serial"), "new::base::Serial and base::Serial disagree on ({a},{b}): {got:?} vs {old:?}");
    Ok(())
}

pub fn run_new_pairs(data: &[u8], ctx: &mut Ctx) -> CaseResult {
    let mut u = Unstructured::new(data);
    let a = val(&mut u);
    let b = match pick(&mut u, 3) {
        0 => a.wrapping_add(DIFFS[pick(&mut u, DIFFS.len())]),
        1 => a.wrapping_add(0x8000_0000u32.wrapping_add(u32_(&mut u) % 5).wrapping_sub(2)),
        _ => val(&mut u),
    };
    let n = addend(&mut u);
    let k = addend(&mut u);
    let m = addend(&mut u);
    let d = b.wrapping_sub(a);
    let near_half = (d as i64 - 0x8000_0000i64).abs() <= 2;
    let straddle = (a as u64 + d as u64) >= (1u64 << 32);
    if near_half {
        ctx.class("new-near-2^31");
    }
    if straddle {
        ctx.class("new-straddles-wrap");
    }
    if n >= 0x7FFF_FFFE {
        ctx.class("new-inc-by-max");
    }
    if near_half || straddle || n >= 0x7FFF_FFFE {
        ctx.nontrivial(&("new", a, b, n, k));
        ctx.sample(|| format!("[new-api] a={a:#x} b={b:#x} n={n:#x} k={k:#x}"));
    }
    check_new_pair(a, b, "new-pairs")?;
    check_new_pair(b, a, "new-pairs")?;
    // value accessors / conversions
    vensure!(NSerial::new(a).get() == a && u32::from(NSerial::from(a)) == a, "new-pairs:from-into", "new/get/From/Into do not round trip {a}");
    vensure!(NSerial::new(a).to_string() == a.to_string(), "new-pairs:display", "Display of new Serial({a}) is {}", NSerial::new(a));
    // addition: inc(n), 0 <= n <= 2^31-1 (negative n panics by contract: not generated)
    let s = NSerial::new(a).inc(n as i32);
    vensure!(s.get() == rs::add(a, n), "new-pairs:inc-value", "new Serial({a}).inc({n}) = {} want {}", s.get(), rs::add(a, n));
    if n >= 1 {
        vensure!(s > NSerial::new(a) && NSerial::new(a) < s && s.partial_cmp(&NSerial::new(a)) == Some(Ordering::Greater) && NSerial::new(a).partial_cmp(&s) == Some(Ordering::Less), "new-pairs:inc-not-greater", "new Serial({a}).inc({n}) = {} does not compare strictly greater than {a} from both sides", s.get());
    } else {
        vensure!(s == NSerial::new(a), "new-pairs:inc-zero-identity", "inc(0) changed {a}");
    }
    // translation invariance
    let (ak, bk) = (NSerial::new(a).inc(k as i32), NSerial::new(b).inc(k as i32));
    vensure!(ak.partial_cmp(&bk) == rs::cmp(a, b), "new-pairs:translation-invariance", "cmp({a}+{k},{b}+{k}) = {:?} but RFC 1982 cmp({a},{b}) = {:?}", ak.partial_cmp(&bk), rs::cmp(a, b));
    // associativity when m+n < 2^31
    if (m as u64 + n as u64) < (1u64 << 31) {
        vensure!(NSerial::new(a).inc(m as i32).inc(n as i32) == NSerial::new(a).inc((m + n) as i32), "new-pairs:inc-assoc", "inc({m}).inc({n}) != inc({})", m + n);
    }
    Ok(())
}

/// Part of the whole-run sweep: for one base, every difference in the given
/// range (called by `extra` in mod.rs for the boundary windows in the quick
/// tier and for all 2^32 differences in the thorough tier).
#[inline]
pub(crate) fn sweep_one(a: u32, d: u64) -> bool {
    let b = a.wrapping_add(d as u32);
    let want = if d == 0 {
        Some(Ordering::Equal)
    } else if d < (1 << 31) {
        Some(Ordering::Less)
    } else if d == (1 << 31) {
        None
    } else {
        Some(Ordering::Greater)
    };
    let (sa, sb) = (NSerial::new(a), NSerial::new(b));
    let mut ok = sa.partial_cmp(&sb) == want && sb.partial_cmp(&sa) == rev(want);
    if d >= 1 && d < (1 << 31) {
        let s = sa.inc(d as i32);
        ok = ok && s.get() == b && s > sa && sa < s;
    }
    ok
}
