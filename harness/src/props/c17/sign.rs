//! C17, users of signature-time arithmetic: the signer's decision "is this
//! validity period the right way round?" (RFC 4034 3.1.5: inception and
//! expiration are compared with serial number arithmetic) must be the RFC
//! 1982 decision on every signing entry point, so that a period crossing the
//! 2^32 wrap is accepted and an inverted one refused, and the decision is
//! invariant under shifting both times by the same amount.
//!
//! The key is a dummy `SignRaw` (constant signature): only the time decision
//! and the times copied into the RRSIG are judged here; what is signed is
//! C12's business.
use super::{addend, val, DIFFS};
use crate::engine::*;
use crate::gen::*;
use crate::refimpl::serial as rs;
use crate::{vensure, vfail};
use arbitrary::Unstructured;
use bytes::Bytes;
use domain::base::iana::{Class, SecurityAlgorithm};
use domain::base::{Name, Record, Ttl};
use domain::crypto::sign::{SignError, SignRaw, Signature};
use domain::dnssec::sign::error::SigningError;
use domain::dnssec::sign::keys::signingkey::SigningKey;
use domain::dnssec::sign::records::{Rrset, SortedRecords};
use domain::dnssec::sign::signatures::rrsigs::{sign_rrset, sign_sorted_rrset_in, sign_sorted_zone_records, GenerateRrsigConfig};
use domain::rdata::dnssec::Timestamp;
use domain::rdata::{Dnskey, Rrsig, ZoneRecordData, A};
use std::cmp::Ordering;
use std::str::FromStr;

type NB = Name<Bytes>;
type RecF = Record<NB, ZoneRecordData<Bytes, NB>>;

#[derive(Debug)]
struct DummyKey;
impl SignRaw for DummyKey {
    fn algorithm(&self) -> SecurityAlgorithm {
        SecurityAlgorithm::ED25519
    }
    fn dnskey(&self) -> Dnskey<Vec<u8>> {
        Dnskey::new(256, 3, SecurityAlgorithm::ED25519, vec![7u8; 32]).expect("short key")
    }
    fn sign_raw(&self, _data: &[u8]) -> Result<Signature, SignError> {
        Ok(Signature::Ed25519(Box::new([0x5A; 64])))
    }
}

#[derive(Clone, Copy, Debug, PartialEq)]
enum Verdict {
    Signed(u32, u32),
    RefusedPeriod,
}

fn verdict(res: Result<Vec<(u32, u32)>, SigningError>, what: &str) -> Result<Verdict, Violation> {
    match res {
        Ok(v) => {
            vensure!(!v.is_empty(), format!("users-sign:{what}:nothing-signed"), "{what}: no RRSIG for a zone with authoritative data");
            let first = v[0];
            vensure!(v.iter().all(|x| *x == first), format!("users-sign:{what}:rrsigs-differ-in-times"), "{what}: RRSIG times differ within one run: {v:?}");
            Ok(Verdict::Signed(first.0, first.1))
        }
        Err(SigningError::InvalidSignatureValidityPeriod(_, _)) => Ok(Verdict::RefusedPeriod),
        Err(e) => vfail!(format!("users-sign:{what}:unexpected-error"), "{what}: {e}"),
    }
}

fn times(r: &Record<NB, Rrsig<Bytes, NB>>) -> (u32, u32) {
    (r.data().inception().into_int(), r.data().expiration().into_int())
}

fn run_all(inc: u32, exp: u32, n_extra: usize) -> Result<Vec<(&'static str, Verdict)>, Violation> {
    let apex: NB = Name::from_str("example.").unwrap();
    let www: NB = Name::from_str("www.example.").unwrap();
    let mut recs: Vec<RecF> = vec![];
    for i in 0..=n_extra {
        let a: ZoneRecordData<Bytes, NB> = ZoneRecordData::A(A::from_octets(192, 0, 2, 1 + i as u8));
        recs.push(Record::new(if i % 2 == 0 { apex.clone() } else { www.clone() }, Class::IN, Ttl::from_secs(300), a));
    }
    let key: SigningKey<Bytes, DummyKey> = SigningKey::new(apex.clone(), 256, DummyKey);
    let (ti, te) = (Timestamp::from(inc), Timestamp::from(exp));
    let mut out = vec![];
    // one RRset (the apex A RRset)
    let apex_recs: Vec<RecF> = recs.iter().filter(|r| r.owner() == &apex).cloned().collect();
    let rrset = Rrset::new_from_owned(&apex_recs[..]).expect("non-empty");
    out.push(("sign_rrset", verdict(sign_rrset(&key, &rrset, ti, te).map(|r| vec![times(&r)]), "sign_rrset")?));
    let mut scratch = vec![];
    out.push(("sign_sorted_rrset_in", verdict(sign_sorted_rrset_in(&key, &rrset, ti, te, &mut scratch).map(|r| vec![times(&r)]), "sign_sorted_rrset_in")?));
    // whole zone
    let sr: SortedRecords<NB, ZoneRecordData<Bytes, NB>> = SortedRecords::from(recs.clone());
    let cfg = GenerateRrsigConfig::new(ti, te);
    let res = sign_sorted_zone_records(&apex, sr.owner_rrs(), &[&key], &cfg);
    out.push(("sign_sorted_zone_records", verdict(res.map(|v| v.iter().map(times).collect()), "sign_sorted_zone_records")?));
    Ok(out)
}

pub fn run_sign(data: &[u8], ctx: &mut Ctx) -> CaseResult {
    let mut u = Unstructured::new(data);
    let inc = val(&mut u);
    let d = match pick(&mut u, 3) {
        0 => DIFFS[pick(&mut u, DIFFS.len())],
        1 => 0x8000_0000u32.wrapping_add(u32_(&mut u) % 5).wrapping_sub(2),
        _ => u32_(&mut u),
    };
    let exp = inc.wrapping_add(d);
    let k = addend(&mut u);
    let n_extra = pick(&mut u, 3);
    let order = rs::cmp(exp, inc);
    let crosses = (inc as u64 + d as u64) >= (1u64 << 32) && order == Some(Ordering::Greater);
    ctx.class("users-sign-ran");
    if crosses { ctx.class("sign-period-crosses-2^32"); }
    match order {
        Some(Ordering::Less) => ctx.class("sign-period-inverted"),
        None => ctx.class("sign-period-2^31-apart"),
        _ => ctx.class("sign-period-valid"),
    }
    if crosses || order != Some(Ordering::Greater) {
        ctx.nontrivial(&(inc, exp, k));
        ctx.sample(|| format!("inception={inc:#x} expiration={exp:#x} (RFC 1982 order of expiration vs inception: {order:?}), shift k={k:#x}"));
    }
    let base = run_all(inc, exp, n_extra)?;
    for (what, v) in base.iter() {
        match (order, v) {
            (Some(Ordering::Less), Verdict::Signed(..)) => vfail!(format!("users-sign:{what}:inverted-period-accepted"), "{what}: inception={inc} expiration={exp}: expiration is before inception (RFC 1982) but a signature was made"),
            (Some(Ordering::Greater) | Some(Ordering::Equal), Verdict::RefusedPeriod) => vfail!(format!("users-sign:{what}:valid-period-refused"), "{what}: inception={inc} expiration={exp}: expiration is not before inception (RFC 1982: {order:?}) but the period was refused"),
            (_, Verdict::Signed(i, e)) => vensure!(*i == inc && *e == exp, format!("users-sign:{what}:times-not-copied"), "{what}: RRSIG carries inception={i} expiration={e}, asked for {inc}/{exp}"),
            _ => {}
        }
    }
    // all entry points take the same decision (also for the undefined pair)
    let first = base[0].1;
    for (what, v) in base.iter() {
        vensure!(std::mem::discriminant(v) == std::mem::discriminant(&first), format!("users-sign:{what}:entry-points-disagree"), "inception={inc} expiration={exp}: {} says {first:?}, {what} says {v:?}", base[0].0);
    }
    // translation invariance of the decision
    let (inc2, exp2) = (inc.wrapping_add(k), exp.wrapping_add(k));
    let shifted = run_all(inc2, exp2, n_extra)?;
    for ((what, v), (_, v2)) in base.iter().zip(shifted.iter()) {
        vensure!(std::mem::discriminant(v) == std::mem::discriminant(v2), format!("users-sign:{what}:decision-not-translation-invariant"), "{what}: period {inc}..{exp} gives {v:?}, the same period shifted by {k} ({inc2}..{exp2}) gives {v2:?}");
    }
    Ok(())
}
