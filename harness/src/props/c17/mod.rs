//! C17 — serial numbers and signature times obey RFC 1982.
pub mod users;
pub mod sign;
pub mod newapi;
use crate::engine::*;
use crate::gen::*;
use crate::refimpl::serial as rs;
use crate::{vensure, vfail};
use arbitrary::Unstructured;
use domain::base::cmp::CanonicalOrd;
use domain::base::Serial;
use domain::rdata::dnssec::Timestamp;
use std::cmp::Ordering;
use std::collections::BTreeMap;
use std::str::FromStr;

pub(crate) const DIFFS: [u32; 12] = [
    0, 1, 2, 0x7FFF_FFFE, 0x7FFF_FFFF, 0x8000_0000, 0x8000_0001, 0x8000_0002, 0xFFFF_FFFE, 0xFFFF_FFFF, 0x1234_5678, 0x4000_0000,
];
const BASES: [u32; 10] = [0, 1, 2, 0x7FFF_FFFE, 0x7FFF_FFFF, 0x8000_0000, 0x8000_0001, 0xFFFF_FFFE, 0xFFFF_FFFF, 0x1234_5678];

pub(crate) fn val(u: &mut Unstructured) -> u32 {
    match pick(u, 4) {
        0 => BASES[pick(u, BASES.len())],
        1 => BASES[pick(u, BASES.len())].wrapping_add(u32_(u) % 5).wrapping_sub(2),
        _ => u32_(u),
    }
}
pub(crate) fn addend(u: &mut Unstructured) -> u32 {
    (match pick(u, 4) {
        0 => [0u32, 1, 2, 0x7FFF_FFFF, 0x7FFF_FFFE, 0x4000_0000][pick(u, 6)],
        _ => u32_(u),
    }) & 0x7FFF_FFFF
}

fn rev(o: Option<Ordering>) -> Option<Ordering> {
    o.map(|o| o.reverse())
}

fn check_pair(a: u32, b: u32, what: &str) -> CaseResult {
    let (sa, sb) = (Serial(a), Serial(b));
    let got = sa.partial_cmp(&sb);
    let want = rs::cmp(a, b);
    vensure!(got == want, format!("{what}:cmp-differs-from-rfc1982"), "Serial({a}).partial_cmp(Serial({b})) = {got:?}, RFC 1982 says {want:?}");
    let back = sb.partial_cmp(&sa);
    vensure!(back == rev(got), format!("{what}:antisymmetry"), "cmp({a},{b})={got:?} but cmp({b},{a})={back:?}");
    vensure!((sa == sb) == (a == b), format!("{what}:eq"), "Serial eq wrong for {a},{b}");
    vensure!((got == Some(Ordering::Equal)) == (sa == sb), format!("{what}:eq-vs-cmp"), "Equal/== incoherent for {a},{b}");
    // operators derived from partial_cmp
    vensure!((sa < sb) == (want == Some(Ordering::Less)), format!("{what}:lt"), "< wrong for {a},{b}");
    vensure!((sa > sb) == (want == Some(Ordering::Greater)), format!("{what}:gt"), "> wrong for {a},{b}");
    // every comparison operator is the RFC 1982 relation: for values 2^31
    // apart none of <, <=, >, >= holds
    let le = matches!(want, Some(Ordering::Less) | Some(Ordering::Equal));
    let ge = matches!(want, Some(Ordering::Greater) | Some(Ordering::Equal));
    vensure!((sa <= sb) == le, format!("{what}:le"), "Serial({a}) <= Serial({b}) is {}, RFC 1982 order is {want:?}", sa <= sb);
    vensure!((sa >= sb) == ge, format!("{what}:ge"), "Serial({a}) >= Serial({b}) is {}, RFC 1982 order is {want:?}", sa >= sb);
    vensure!(PartialOrd::lt(&sa, &sb) == (want == Some(Ordering::Less)) && PartialOrd::gt(&sa, &sb) == (want == Some(Ordering::Greater)) && PartialOrd::le(&sa, &sb) == le && PartialOrd::ge(&sa, &sb) == ge, format!("{what}:operator-methods"), "PartialOrd::lt/le/gt/ge of Serial({a}), Serial({b}) disagree with RFC 1982 order {want:?}");
    vensure!((sa != sb) == (a != b), format!("{what}:ne"), "Serial != wrong for {a},{b}");
    // Timestamp must agree with Serial
    let (ta, tb) = (Timestamp::from(a), Timestamp::from(b));
    vensure!(ta.partial_cmp(&tb) == want, format!("{what}:timestamp-cmp"), "Timestamp cmp({a},{b}) = {:?}, want {want:?}", ta.partial_cmp(&tb));
    vensure!(ta.into_int() == a && tb.into_int() == b, format!("{what}:timestamp-into_int"), "into_int");
    vensure!((ta < tb) == (want == Some(Ordering::Less)) && (ta > tb) == (want == Some(Ordering::Greater)) && (ta <= tb) == le && (ta >= tb) == ge, format!("{what}:timestamp-operators"), "Timestamp operators for {a},{b} disagree with RFC 1982 order {want:?}: < {} <= {} > {} >= {}", ta < tb, ta <= tb, ta > tb, ta >= tb);
    vensure!((ta == tb) == (a == b), format!("{what}:timestamp-eq"), "Timestamp eq wrong for {a},{b}");
    Ok(())
}

fn run_pairs(data: &[u8], ctx: &mut Ctx) -> CaseResult {
    let mut u = Unstructured::new(data);
    let a = val(&mut u);
    let b = match pick(&mut u, 3) {
        0 => a.wrapping_add(DIFFS[pick(&mut u, DIFFS.len())]),
        1 => a.wrapping_add(0x8000_0000u32.wrapping_add(u32_(&mut u) % 5).wrapping_sub(2)),
        _ => val(&mut u),
    };
    let n = addend(&mut u);
    let k = addend(&mut u);
    let m = addend(&mut u);
    let d = b.wrapping_sub(a);
    let near_half = (d as i64 - 0x8000_0000i64).abs() <= 2;
    let straddle = (a as u64 + d as u64) >= (1u64 << 32);
    if near_half { ctx.class("near-2^31"); }
    if straddle { ctx.class("straddles-wrap"); }
    if near_half || straddle {
        ctx.nontrivial(&(a, b, n, k));
        ctx.sample(|| format!("a={a:#x} b={b:#x} n={n:#x} k={k:#x}"));
    }
    check_pair(a, b, "pairs")?;
    // addition
    let s = Serial(a).add(n);
    vensure!(s.into_int() == rs::add(a, n), "pairs:add-value", "Serial({a}).add({n}) = {} want {}", s.into_int(), rs::add(a, n));
    if n >= 1 {
        vensure!(s > Serial(a), "pairs:add-not-greater", "Serial({a}).add({n}) = {s} is not > {a}");
        vensure!(Serial(a) < s, "pairs:add-not-greater", "{a} is not < Serial({a}).add({n}) = {s}");
        vensure!(s.partial_cmp(&Serial(a)) == Some(Ordering::Greater), "pairs:add-not-greater", "partial_cmp");
    } else {
        vensure!(s == Serial(a), "pairs:add-zero-identity", "add(0) changed {a}");
    }
    // translation invariance
    let (ak, bk) = (Serial(a).add(k), Serial(b).add(k));
    vensure!(ak.partial_cmp(&bk) == Serial(a).partial_cmp(&Serial(b)), "pairs:translation-invariance", "cmp({a}+{k},{b}+{k}) = {:?} but cmp({a},{b}) = {:?}", ak.partial_cmp(&bk), Serial(a).partial_cmp(&Serial(b)));
    // associativity when m+n < 2^31
    if (m as u64 + n as u64) < (1u64 << 31) {
        vensure!(Serial(a).add(m).add(n) == Serial(a).add(m + n), "pairs:add-assoc", "add({m}).add({n}) != add({})", m + n);
    }
    // From/Into, canonical_cmp is plain integer order (RDATA octet order)
    vensure!(u32::from(Serial::from(a)) == a, "pairs:from-into", "from/into");
    vensure!(Serial(a).canonical_cmp(&Serial(b)) == a.to_be_bytes().cmp(&b.to_be_bytes()), "pairs:canonical_cmp", "canonical_cmp is not octet order for {a},{b}");
    vensure!(Serial::from_be_bytes(a.to_be_bytes()).into_int() == a, "pairs:from_be_bytes", "from_be_bytes");
    // text round trips
    let txt = Serial(a).to_string();
    vensure!(Serial::from_str(&txt).ok() == Some(Serial(a)), "pairs:serial-text-roundtrip", "{txt}");
    let t = Timestamp::from(a);
    let txt = t.to_string();
    match Timestamp::from_str(&txt) {
        Ok(t2) => vensure!(t2.into_int() == a, "pairs:timestamp-text-roundtrip", "{txt} -> {}", t2.into_int()),
        Err(_) => vfail!("pairs:timestamp-text-roundtrip", "Timestamp text {txt} does not parse"),
    }
    Ok(())
}

fn run_datetime(data: &[u8], ctx: &mut Ctx) -> CaseResult {
    // YYYYMMDDHHmmSS presentation form: value = unix seconds mod 2^32
    let mut u = Unstructured::new(data);
    let y = match pick(&mut u, 4) {
        0 => [1970i64, 2038, 2106, 2107, 2242, 1999, 2000, 2100, 2400][pick(&mut u, 9)],
        _ => 1970 + (u16_(&mut u) % 600) as i64,
    };
    let m = 1 + pick(&mut u, 12) as i64;
    let leap = (y % 4 == 0 && y % 100 != 0) || y % 400 == 0;
    let dim = [31, if leap { 29 } else { 28 }, 31, 30, 31, 30, 31, 31, 30, 31, 30, 31][(m - 1) as usize];
    let d = 1 + pick(&mut u, dim) as i64;
    let (hh, mm, ss) = (pick(&mut u, 24) as i64, pick(&mut u, 60) as i64, pick(&mut u, 60) as i64);
    let txt = format!("{y:04}{m:02}{d:02}{hh:02}{mm:02}{ss:02}");
    let want = rs::civil_to_unix(y, m, d, hh, mm, ss);
    let want32 = (want.rem_euclid(1 << 32)) as u32;
    if want >= (1 << 31) { ctx.class("date-beyond-2038"); }
    if want >= (1 << 32) { ctx.class("date-beyond-2106"); }
    ctx.nontrivial(&txt);
    ctx.sample(|| format!("{txt} -> {want32}"));
    match Timestamp::from_str(&txt) {
        Ok(t) => vensure!(t.into_int() == want32, "datetime:value", "{txt} parsed to {} want {want32}", t.into_int()),
        Err(_) => vfail!("datetime:rejected", "valid date {txt} rejected"),
    }
    // two dates compare by RFC 1982 on their integer values
    let other = Timestamp::from(want32.wrapping_add(DIFFS[pick(&mut u, DIFFS.len())]));
    let t = Timestamp::from_str(&txt).unwrap();
    vensure!(t.partial_cmp(&other) == rs::cmp(t.into_int(), other.into_int()), "datetime:cmp", "cmp");
    // wall-clock entry point: `Serial::from(jiff::Timestamp)` for times on
    // both sides of the epoch and of the 2^32-second eras. Moving the clock
    // forward by d < 2^31 seconds must move the serial forward by d (RFC 1982
    // addition), so that later times compare newer also across 1970 / 2106.
    let secs: i64 = match pick(&mut u, 6) {
        0 => -(1 + (u32_(&mut u) % 100_000) as i64),
        1 => [0i64, -1, 1, -0x8000_0000, -0x8000_0001, -0x7FFF_FFFF, 0xFFFF_FFFF, 0x1_0000_0000, -0x1_0000_0000, -0x1_0000_0001][pick(&mut u, 10)],
        2 => want,
        3 => -((u64_(&mut u) % (1u64 << 35)) as i64),
        _ => (u64_(&mut u) % (1u64 << 35)) as i64,
    };
    let d = addend(&mut u);
    if let (Ok(t0), Ok(t1)) = (jiff::Timestamp::from_second(secs), jiff::Timestamp::from_second(secs + d as i64)) {
        let (s0, s1) = (Serial::from(t0), Serial::from(t1));
        if secs < 0 { ctx.class("wallclock-before-epoch"); }
        if secs < 0 && secs + d as i64 >= 0 { ctx.class("wallclock-pair-straddles-epoch"); }
        vensure!(s1 == s0.add(d), "datetime:wallclock-conversion-not-additive", "Serial::from(time {secs} s) = {s0}, Serial::from(time {} s) = {s1}: {d} seconds later is not serial + {d}", secs + d as i64);
        if d >= 1 {
            vensure!(s0 < s1 && s1 > s0, "datetime:wallclock-later-time-not-newer", "time {secs} s -> serial {s0}; {d} s later -> serial {s1}, which does not compare newer");
        }
    }
    Ok(())
}


/// `Timestamp::to_system_time(reference)`: documented to return a time that
/// is congruent to the timestamp modulo 2^32 and within i32 range of the
/// reference, "can be used to sort Timestamp values" — i.e. the mapping must
/// respect RFC 1982 order around the reference, also across the 2^32 wrap.
fn run_systime(data: &[u8], ctx: &mut Ctx) -> CaseResult {
    use std::time::{Duration, UNIX_EPOCH};
    let mut u = Unstructured::new(data);
    let reference: u64 = match pick(&mut u, 8) {
        0 => [0u64, 1, 0x7FFF_FFFF, 0x8000_0000, 0xFFFF_FFFF, 0x1_0000_0000, 0x1_8000_0000, 0x2_0000_0005][pick(&mut u, 8)],
        1 | 2 => 1_790_000_000 + (u32_(&mut u) as u64 % 1_000_000),
        3 | 4 => (1u64 << 32) - 1_000_000 + (u32_(&mut u) as u64 % 2_000_000),
        _ => u64_(&mut u) % (1u64 << 34),
    };
    let ref_mod = (reference % (1 << 32)) as u32;
    // timestamps: relative to the reference (so that both sides of the
    // wrap are hit) or absolute
    let ts = match pick(&mut u, 4) {
        0 => val(&mut u),
        _ => ref_mod.wrapping_add(DIFFS[pick(&mut u, DIFFS.len())]).wrapping_add(u32_(&mut u) % 3).wrapping_sub(1),
    };
    let off = match pick(&mut u, 3) { 0 => DIFFS[pick(&mut u, DIFFS.len())], _ => u32_(&mut u) % 100_000 };
    let ts2 = ts.wrapping_add(off);
    let map = |t: u32| -> Result<u64, Violation> {
        let st = Timestamp::from(t).to_system_time(UNIX_EPOCH + Duration::from_secs(reference));
        st.duration_since(UNIX_EPOCH).map(|d| d.as_secs()).map_err(|_| Violation::new("systime:before-epoch", format!("to_system_time({t}, ref {reference}) is before the epoch")))
    };
    let half: i128 = 1 << 31;
    let mut mapped = vec![];
    for t in [ts, ts2] {
        let secs = map(t)?;
        vensure!(secs % (1 << 32) == t as u64, "systime:not-congruent", "to_system_time({t:#x}, ref {reference:#x}) = {secs:#x}, not congruent to the timestamp modulo 2^32");
        let d = secs as i128 - reference as i128;
        // nearest representative; the earlier era does not exist before the epoch
        let ok = d.abs() <= half || (d > half && reference < (1 << 32));
        vensure!(ok, "systime:not-nearest-era", "to_system_time({t:#x}, ref {reference:#x}) = {secs:#x} is {d} s away from the reference although a representative within 2^31 s exists");
        mapped.push((t, secs, d));
    }
    let wrapped = mapped.iter().any(|m| (m.1 >> 32) != (reference >> 32));
    if wrapped {
        ctx.class("systime-other-era-than-reference");
    }
    if reference < (1 << 32) {
        ctx.class("systime-reference-in-era-0");
    }
    ctx.nontrivial(&(reference, ts, ts2));
    ctx.sample(|| format!("reference {reference:#x}, timestamps {ts:#x} / {ts2:#x} -> {:#x} / {:#x}", mapped[0].1, mapped[1].1));
    // sorting: when both mapped times lie within 2^31 s of each other their
    // order must be the RFC 1982 order of the timestamps
    let (a, b) = (mapped[0], mapped[1]);
    if (a.1 as i128 - b.1 as i128).abs() < half && a.2.abs() < half && b.2.abs() < half {
        let want = rs::cmp(a.0, b.0);
        vensure!(want == Some(a.1.cmp(&b.1)), "systime:order-differs-from-rfc1982", "timestamps {:#x} and {:#x} compare {want:?} by RFC 1982 but map to {:#x} and {:#x} (reference {reference:#x})", a.0, b.0, a.1, b.1);
        ctx.class("systime-order-checked");
    }
    Ok(())
}

/// Exhaustive sweep: for each base a, all 2^32 values of b (thorough) or a
/// 1/8 slice of the differences plus windows around 0, 2^31 and 2^32 (quick).
fn extra(opts: &RunOpts, agg: &mut Agg) -> Result<(), (Violation, Vec<u8>)> {
    use std::sync::atomic::{AtomicBool, AtomicU64, Ordering as AO};
    let mut bases: Vec<u32> = vec![0, 1, 0x7FFF_FFFF, 0x8000_0000, 0xFFFF_FFFF, 0x1234_5678];
    bases.push((opts.seed.wrapping_mul(0x9E3779B97F4A7C15) >> 17) as u32);
    let threads = opts.threads.max(1) as u64;
    let full: u64 = 1 << 32;
    // ranges of differences d = b - a
    let ranges: Vec<(u64, u64)> = if opts.thorough {
        vec![(0, full)]
    } else {
        let slice = full / 8;
        let off = (opts.seed % 8) * slice;
        vec![(off, off + slice), (0, 1 << 16), ((1 << 31) - (1 << 16), (1 << 31) + (1 << 16)), (full - (1 << 16), full)]
    };
    let stop = AtomicBool::new(false);
    let count = AtomicU64::new(0);
    let nontriv = AtomicU64::new(0);
    let fail: std::sync::Mutex<Option<(Violation, Vec<u8>)>> = std::sync::Mutex::new(None);
    std::thread::scope(|s| {
        for t in 0..threads {
            let (bases, ranges, stop, count, nontriv, fail) = (&bases, &ranges, &stop, &count, &nontriv, &fail);
            s.spawn(move || {
                let mut c = 0u64;
                let mut nt = 0u64;
                for &a in bases.iter() {
                    for (ri, &(lo, hi)) in ranges.iter().enumerate() {
                        // the new-API serial type: all differences in the thorough tier,
                        // the boundary windows (0, 2^31, 2^32) in the quick tier
                        let new_too = ranges.len() == 1 || ri >= 1;
                        let per = (hi - lo).div_ceil(threads);
                        let l = lo + t * per;
                        let h = (l + per).min(hi);
                        let mut d = l;
                        while d < h {
                            if d & 0xFFFFF == 0 && stop.load(AO::Relaxed) {
                                return;
                            }
                            let b = a.wrapping_add(d as u32);
                            let got = Serial(a).partial_cmp(&Serial(b));
                            let want = if d == 0 { Some(Ordering::Equal) } else if d < (1 << 31) { Some(Ordering::Less) } else if d == (1 << 31) { None } else { Some(Ordering::Greater) };
                            let back = Serial(b).partial_cmp(&Serial(a));
                            let mut bad = got != want || back != rev(want);
                            let (sa, sb) = (Serial(a), Serial(b));
                            if (sa <= sb) != matches!(want, Some(Ordering::Less) | Some(Ordering::Equal)) || (sa >= sb) != matches!(want, Some(Ordering::Greater) | Some(Ordering::Equal)) || (sa < sb) != (want == Some(Ordering::Less)) || (sa > sb) != (want == Some(Ordering::Greater)) {
                                bad = true;
                            }
                            // a + d > a for 1 <= d <= 2^31-1
                            if d >= 1 && d < (1 << 31) {
                                let s = Serial(a).add(d as u32);
                                if s.into_int() != b || !(s > Serial(a)) {
                                    bad = true;
                                }
                            }
                            if !bad && new_too && !newapi::sweep_one(a, d) {
                                stop.store(true, AO::Relaxed);
                                let mut bytes = a.to_le_bytes().to_vec();
                                bytes.extend_from_slice(&b.to_le_bytes());
                                *fail.lock().unwrap() = Some((Violation::new("sweep:new-cmp-or-inc", format!("new::base::Serial: a={a} b={b} d={d}: partial_cmp/inc disagree with RFC 1982")), bytes));
                                return;
                            }
                            if new_too {
                                c += 1;
                            }
                            if bad {
                                stop.store(true, AO::Relaxed);
                                let mut bytes = a.to_le_bytes().to_vec();
                                bytes.extend_from_slice(&b.to_le_bytes());
                                *fail.lock().unwrap() = Some((Violation::new("sweep:cmp-or-add", format!("a={a} b={b} d={d}: cmp={got:?} want {want:?}; reverse={back:?}")), bytes));
                                return;
                            }
                            c += 1;
                            if (d as i64 - (1i64 << 31)).abs() <= 2 || (a as u64 + d) >= full {
                                nt += 1;
                            }
                            d += 1;
                        }
                    }
                }
                count.fetch_add(c, AO::Relaxed);
                nontriv.fetch_add(nt, AO::Relaxed);
            });
        }
    });
    if let Some(f) = fail.into_inner().unwrap() {
        return Err(f);
    }
    let c = count.load(AO::Relaxed);
    agg.evaluations += c;
    agg.extra_notes.insert("sweep_pairs".into(), c.into());
    agg.extra_notes.insert("sweep_nontrivial_pairs".into(), nontriv.load(AO::Relaxed).into());
    agg.extra_notes.insert("sweep_bases".into(), serde_json::json!(bases));
    agg.extra_notes.insert("sweep_ranges_of_b_minus_a".into(), serde_json::json!(ranges));
    agg.exhaustive = opts.thorough;
    // sweep cases are all distinct; record a few non-trivial ones
    for (i, a) in bases.iter().enumerate() {
        agg.nontrivial.insert(fnv(&("sweep", a, i)));
    }
    agg.samples.push(format!("[sweep] base a={:#x}, all b with (b-a) in {:?}", bases[0], ranges));
    Ok(())
}

fn replay_extra(data: &[u8], _ctx: &mut Ctx) -> CaseResult {
    // replay format of a sweep failure: a (4 LE) b (4 LE)
    if data.len() < 8 { return Ok(()); }
    let a = u32::from_le_bytes(data[0..4].try_into().unwrap());
    let b = u32::from_le_bytes(data[4..8].try_into().unwrap());
    check_pair(a, b, "sweep")?;
    newapi::check_new_pair(a, b, "sweep:new")?;
    newapi::check_new_pair(b, a, "sweep:new")?;
    let d = b.wrapping_sub(a);
    vensure!(newapi::sweep_one(a, d as u64), "sweep:new-cmp-or-inc", "new::base::Serial: a={a} b={b}");
    if d >= 1 && d < (1 << 31) {
        let s = Serial(a).add(d);
        vensure!(s.into_int() == b && s > Serial(a), "sweep:cmp-or-add", "add");
    }
    Ok(())
}

fn health(c: &BTreeMap<String, u64>, _t: bool) -> Result<(), String> {
    for k in ["near-2^31", "straddles-wrap", "date-beyond-2038", "bump-at-boundary", "ixfr-client-behind-across-wrap", "ixfr-client-level", "ixfr-client-ahead", "ixfr-answer-single-soa", "ixfr-answer-transfer", "users-bump-ran", "users-ixfr-ran", "systime-other-era-than-reference", "systime-order-checked", "systime-reference-in-era-0", "users-sign-ran", "sign-period-crosses-2^32", "sign-period-inverted", "sign-period-2^31-apart", "sign-period-valid", "new-near-2^31", "new-straddles-wrap", "new-inc-by-max", "ixfr-receiver-accepts", "ixfr-receiver-applies-diff-across-wrap", "ixfr-multi-diff-history-straddles-wrap", "wallclock-before-epoch", "wallclock-pair-straddles-epoch"] {
        if c.get(k).copied().unwrap_or(0) < 50 {
            return Err(format!("class {k} starved"));
        }
    }
    Ok(())
}

pub fn prop() -> Prop {
    Prop {
        id: "C17",
        rule: "pairs (a,b), addends n,k,m < 2^31 decoded from generated bytes with boundary bias; non-trivial = |b-a| within 2 of 2^31 or the pair straddles the 2^32 wrap (distinct by (a,b,n,k)); datetime cases are distinct by text; the sweep enumerates all b for each base (thorough: all 2^32 differences, exhaustive=true; quick: a seed-chosen 1/8 slice plus windows at 0, 2^31, 2^32) and its pairs are counted in evaluations only",
        assumptions: &["Serial::add with an addend >= 2^31 panics by documented contract and is never generated", "reference: RFC 1982 section 3 on i64 arithmetic (refimpl::serial)"],
        subchecks: vec![
            SubCheck::new("pairs", run_pairs, 400_000, 20_000_000, 40),
            SubCheck::new("datetime", run_datetime, 60_000, 2_000_000, 48),
            SubCheck::new("systime", run_systime, 200_000, 6_000_000, 40),
            SubCheck::new("new-pairs", newapi::run_new_pairs, 300_000, 10_000_000, 40),
            SubCheck::new("users-bump", users::run_bump, 6_000, 150_000, 200),
            SubCheck::new("users-ixfr", users::run_ixfr, 8_000, 200_000, 300),
            SubCheck::new("users-sign", sign::run_sign, 40_000, 1_000_000, 40),
            SubCheck::new("extra", replay_extra, 0, 0, 8),
        ],
        health: Some(health),
        extra: Some(extra),
    }
}
