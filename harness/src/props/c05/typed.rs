//! Forward direction: values made with the public constructors and builders
//! from generated fields; the reference wire form is assembled by hand from
//! the same fields (independent of the library).
use super::*;
use domain::base::charstr::CharStr;
use domain::base::iana::{
    DigestAlgorithm, ExtendedErrorCode, IpseckeyAlgorithm, Nsec3HashAlgorithm, OptionCode, SecurityAlgorithm, SshfpAlgorithm, SshfpType, SvcParamKey, TlsaCertificateUsage,
    TlsaMatchingType, TlsaSelector, TsigRcode, ZonemdAlgorithm, ZonemdScheme,
};
use domain::base::opt::{self, AllOptData, ComposeOptData, OptData, ParseOptData, UnknownOptData};
use domain::base::Serial;
use domain::rdata::dnssec::{RtypeBitmap, RtypeBitmapBuilder, Timestamp};
use domain::rdata::ipseckey::IpseckeyGateway;
use domain::rdata::nsec3::{Nsec3Salt, OwnerHash};
use domain::rdata::rfc1035::TxtBuilder;
use domain::rdata::svcb::value::AllValues;
use domain::rdata::svcb::{ComposeSvcParamValue, ParseSvcParamValue, SvcParamValue, SvcParams, SvcParamsBuilder, UnknownSvcParam};
use domain::rdata::tsig::Time48;
use octseq::str::Str;
use std::net::{IpAddr, Ipv4Addr, Ipv6Addr};

pub struct Made {
    pub v: AllV,
    pub want: Vec<u8>,
    /// fields as text, for samples
    pub how: &'static str,
}

type R<T> = Result<T, Violation>;

fn nm(u: &mut Unstructured, pool: &[Labels]) -> (Vec<u8>, NV) {
    let l = if !pool.is_empty() && !chance(u, 60) { pool[pick(u, pool.len())].clone() } else { gn::name(u, false) };
    (gn::to_wire(&l), gn::to_name(&l))
}

/// character-string content (0..=255 octets)
fn cs(u: &mut Unstructured) -> Vec<u8> {
    let mut c = grd::charstr(u);
    c.remove(0);
    c
}

fn mkcs(tn: &str, content: &[u8]) -> R<CharStr<Vec<u8>>> {
    CharStr::from_octets(content.to_vec()).map_err(|e| Violation::new(format!("forward:{tn}:charstr-rejects-valid"), format!("{} octets: {e}", content.len())))
}

fn push_cs(want: &mut Vec<u8>, content: &[u8]) {
    want.push(content.len() as u8);
    want.extend_from_slice(content);
}

fn tail(u: &mut Unstructured) -> Vec<u8> {
    let max = match pick(u, 8) {
        0 => 0,
        1..=5 => 40,
        6 => 300,
        _ => 1500,
    };
    grd::blob(u, 0, max)
}

fn u8v(u: &mut Unstructured) -> u8 {
    match pick(u, 4) {
        0 => [0u8, 1, 2, 3, 255, 8, 13, 15][pick(u, 8)],
        _ => byte(u),
    }
}
fn u16v(u: &mut Unstructured) -> u16 {
    match pick(u, 4) {
        0 => [0u16, 1, 0xffff, 0x8000, 256, 255][pick(u, 6)],
        _ => u16_(u),
    }
}
fn u32v(u: &mut Unstructured) -> u32 {
    match pick(u, 4) {
        0 => [0u32, 1, 0xffff_ffff, 0x8000_0000, 0x7fff_ffff, 3600][pick(u, 6)],
        _ => u32_(u),
    }
}

//------------ TXT via its three constructors ------------------------------------

fn make_txt(u: &mut Unstructured, ctx: &mut Ctx) -> R<(Txt<Vec<u8>>, Vec<u8>, &'static str)> {
    match pick(u, 4) {
        0 => {
            // from_octets on a valid encoding (one or more strings)
            let n = 1 + pick(u, 4);
            let mut want = vec![];
            for _ in 0..n {
                want.extend(grd::charstr(u));
            }
            let t = Txt::from_octets(want.clone()).map_err(|e| Violation::new("forward:TXT:from_octets-rejects-valid", format!("{e}: {}", hex(&want))))?;
            Ok((t, want, "from_octets"))
        }
        1 => {
            // build_from_slice: chunks of 255, empty text = one empty string
            let len = match pick(u, 6) {
                0 => 0,
                1 => 255,
                2 => 256,
                3 => 510,
                4 => pick(u, 40),
                _ => pick(u, 1200),
            };
            let text: Vec<u8> = (0..len).map(|_| byte(u)).collect();
            let mut want = vec![];
            for c in text.chunks(255) {
                push_cs(&mut want, c);
            }
            if want.is_empty() {
                want.push(0);
            }
            let t: Txt<Vec<u8>> = Txt::build_from_slice(&text).map_err(|e| Violation::new("forward:TXT:build_from_slice-rejects-valid", format!("{e:?} for {len} octets")))?;
            vensure!(t.text::<Vec<u8>>() == text, "forward:TXT:text-differs", "text() does not give back the {len} octets");
            Ok((t, want, "build_from_slice"))
        }
        _ => {
            // TxtBuilder op sequence against a model
            ctx.class("txtbuilder");
            let mut b = TxtBuilder::<Vec<u8>>::new();
            let mut strings: Vec<Vec<u8>> = vec![];
            let mut open = false;
            let nops = 1 + pick(u, 8);
            for _ in 0..nops {
                match pick(u, 5) {
                    0 | 1 => {
                        let len = match pick(u, 6) {
                            0 => 0,
                            1 => 255,
                            2 => 254,
                            3 => 256,
                            4 => pick(u, 20),
                            _ => pick(u, 700),
                        };
                        let s: Vec<u8> = (0..len).map(|_| byte(u)).collect();
                        b.append_slice(&s).map_err(|e| Violation::new("forward:TXT:builder-append_slice-fails", format!("{e:?}")))?;
                        let mut rest = &s[..];
                        if open {
                            let cur = strings.last_mut().unwrap();
                            let room = 255 - cur.len();
                            if rest.len() < room {
                                cur.extend_from_slice(rest);
                                rest = &[];
                            } else {
                                cur.extend_from_slice(&rest[..room]);
                                rest = &rest[room..];
                                // string is full; an empty remainder leaves it
                                // (full and) open, which is the same as closed
                                if !rest.is_empty() {
                                    open = false;
                                }
                            }
                        }
                        if !rest.is_empty() {
                            for c in rest.chunks(255) {
                                strings.push(c.to_vec());
                                open = c.len() < 255;
                            }
                        }
                    }
                    2 => {
                        let c = byte(u);
                        b.append_u8(c).map_err(|e| Violation::new("forward:TXT:builder-append_u8-fails", format!("{e:?}")))?;
                        if open && strings.last().unwrap().len() < 255 {
                            strings.last_mut().unwrap().push(c);
                        } else {
                            strings.push(vec![c]);
                            open = true;
                        }
                    }
                    3 => {
                        let c = cs(u);
                        b.append_charstr(&mkcs("TXT", &c)?).map_err(|e| Violation::new("forward:TXT:builder-append_charstr-fails", format!("{e:?}")))?;
                        strings.push(c);
                        open = false;
                    }
                    _ => {
                        b.close_charstr();
                        open = false;
                    }
                }
            }
            let t = b.finish().map_err(|e| Violation::new("forward:TXT:builder-finish-fails", format!("{e:?}")))?;
            let mut want = vec![];
            for s in &strings {
                push_cs(&mut want, s);
            }
            if want.is_empty() {
                want.push(0);
            }
            let got: Vec<Vec<u8>> = t.iter().map(|s| s.to_vec()).collect();
            let wanted: Vec<Vec<u8>> = if strings.is_empty() { vec![vec![]] } else { strings.clone() };
            vensure!(got == wanted, "forward:TXT:builder-strings-differ", "TxtBuilder produced strings of lengths {:?}, model {:?}", got.iter().map(|s| s.len()).collect::<Vec<_>>(), wanted.iter().map(|s| s.len()).collect::<Vec<_>>());
            Ok((t, want, "TxtBuilder"))
        }
    }
}

//------------ type bitmaps -------------------------------------------------------

fn make_bitmap(u: &mut Unstructured, ctx: &mut Ctx) -> R<(RtypeBitmap<Vec<u8>>, Vec<u8>)> {
    let n = pick(u, 10);
    let mut types: Vec<u16> = (0..n)
        .map(|_| match pick(u, 4) {
            0 => [1u16, 2, 5, 6, 15, 16, 28, 43, 46, 47, 48, 50][pick(u, 12)],
            1 => [0u16, 255, 256, 257, 1234, 65280, 65535, 511, 512, 7, 8][pick(u, 11)],
            _ => u16_(u),
        })
        .collect();
    let order = types.clone();
    let want = grd::bitmap_of(&mut types);
    if flag(u) {
        ctx.class("bitmapbuilder");
        let mut b = RtypeBitmapBuilder::new_vec();
        for t in &order {
            b.add(Rtype::from_int(*t)).map_err(|_| Violation::new("forward:bitmap:add-fails", "add"))?;
        }
        let bm = b.finalize();
        vensure!(bm.as_slice() == &want[..], "forward:bitmap:builder-differs", "RtypeBitmapBuilder for {order:?} gives {} want {}", hex(bm.as_slice()), hex(&want));
        for t in &order {
            vensure!(bm.contains(Rtype::from_int(*t)), "forward:bitmap:contains", "type {t} not contained");
        }
        let listed: Vec<u16> = bm.iter().map(|r| r.to_int()).collect();
        vensure!(listed == types, "forward:bitmap:iter-differs", "iter gives {listed:?} want {types:?}");
        Ok((bm, want))
    } else {
        let bm = RtypeBitmap::from_octets(want.clone()).map_err(|e| Violation::new("forward:bitmap:from_octets-rejects-valid", format!("{e}: {}", hex(&want))))?;
        Ok((bm, want))
    }
}

//------------ SVCB parameters -----------------------------------------------------

/// One parameter: key, reference value octets, and how to push it.
enum Sp {
    Mandatory(Vec<u16>),
    Alpn(Vec<Vec<u8>>),
    NoDefaultAlpn,
    Port(u16),
    Ipv4(Vec<[u8; 4]>),
    Ech(Vec<u8>),
    Ipv6(Vec<[u8; 16]>),
    DohPath(String),
    Ohttp,
    Groups(Vec<u16>),
    Unknown(u16, Vec<u8>),
}

impl Sp {
    fn key(&self) -> u16 {
        match self {
            Sp::Mandatory(_) => 0,
            Sp::Alpn(_) => 1,
            Sp::NoDefaultAlpn => 2,
            Sp::Port(_) => 3,
            Sp::Ipv4(_) => 4,
            Sp::Ech(_) => 5,
            Sp::Ipv6(_) => 6,
            Sp::DohPath(_) => 7,
            Sp::Ohttp => 8,
            Sp::Groups(_) => 9,
            Sp::Unknown(k, _) => *k,
        }
    }
    fn value(&self) -> Vec<u8> {
        match self {
            Sp::Mandatory(k) | Sp::Groups(k) => k.iter().flat_map(|x| x.to_be_bytes()).collect(),
            Sp::Alpn(ids) => ids.iter().flat_map(|i| std::iter::once(i.len() as u8).chain(i.iter().copied())).collect(),
            Sp::NoDefaultAlpn | Sp::Ohttp => vec![],
            Sp::Port(p) => p.to_be_bytes().to_vec(),
            Sp::Ipv4(a) => a.iter().flatten().copied().collect(),
            Sp::Ipv6(a) => a.iter().flatten().copied().collect(),
            Sp::Ech(b) => b.clone(),
            Sp::DohPath(s) => s.as_bytes().to_vec(),
            Sp::Unknown(_, b) => b.clone(),
        }
    }
}

fn gen_sp(u: &mut Unstructured) -> Sp {
    match pick(u, 12) {
        0 => Sp::Mandatory((0..1 + pick(u, 3)).map(|_| 1 + pick(u, 9) as u16).collect()),
        1 => Sp::Alpn((0..1 + pick(u, 3)).map(|_| (0..1 + pick(u, 6)).map(|_| pickb(u, b"h2h3/1.,\\abc\"")).collect()).collect()),
        2 => Sp::NoDefaultAlpn,
        3 => Sp::Port(u16v(u)),
        4 => Sp::Ipv4((0..1 + pick(u, 3)).map(|_| [byte(u), byte(u), byte(u), byte(u)]).collect()),
        5 => Sp::Ech(grd::blob(u, 0, 60)),
        6 => Sp::Ipv6((0..1 + pick(u, 2)).map(|_| { let mut a = [0u8; 16]; for x in a.iter_mut() { *x = byte(u); } a }).collect()),
        7 => Sp::DohPath(["/dns-query{?dns}", "/{?dns}", "/q{?dns}&x=\u{e9}", ""][pick(u, 4)].to_string()),
        8 => Sp::Ohttp,
        9 => Sp::Groups((0..1 + pick(u, 3)).map(|_| u16v(u)).collect()),
        _ => Sp::Unknown([10u16, 100, 65280, 65534, 667, 65535][pick(u, 6)], grd::blob(u, 0, 40)),
    }
}

fn make_svcparams(u: &mut Unstructured, ctx: &mut Ctx) -> R<(SvcParams<Vec<u8>>, Vec<u8>)> {
    let n = pick(u, 6);
    let items: Vec<Sp> = (0..n).map(|_| gen_sp(u)).collect();
    // model: first push of a key wins, a second push of the same key fails
    let mut kept: Vec<&Sp> = vec![];
    let via_builder = !chance(u, 50);
    let mut b = SvcParamsBuilder::<Vec<u8>>::empty();
    for it in &items {
        let dup = kept.iter().any(|k| k.key() == it.key());
        if via_builder {
            let r: Result<(), String> = match it {
                Sp::Mandatory(k) => b.mandatory(k.iter().map(|x| SvcParamKey::from_int(*x)).collect::<Vec<_>>()).map_err(|e| format!("{e:?}")),
                Sp::Alpn(ids) => {
                    let refs: Vec<&[u8]> = ids.iter().map(|x| &x[..]).collect();
                    b.alpn(&refs).map_err(|e| format!("{e:?}"))
                }
                Sp::NoDefaultAlpn => b.no_default_alpn().map_err(|e| format!("{e:?}")),
                Sp::Port(p) => b.port(*p).map_err(|e| format!("{e:?}")),
                Sp::Ipv4(a) => b.ipv4hint(a.iter().map(|x| Ipv4Addr::from(*x)).collect::<Vec<_>>()).map_err(|e| format!("{e:?}")),
                Sp::Ech(e) => b.ech(e).map_err(|e| format!("{e:?}")),
                Sp::Ipv6(a) => b.ipv6hint(a.iter().map(|x| Ipv6Addr::from(*x)).collect::<Vec<_>>()).map_err(|e| format!("{e:?}")),
                Sp::DohPath(s) => b.dohpath(s).map_err(|e| format!("{e:?}")),
                Sp::Ohttp => b.ohttp().map_err(|e| format!("{e:?}")),
                Sp::Groups(k) => b.tls_supported_groups(k.iter().map(|x| SvcParamKey::from_int(*x)).collect::<Vec<_>>()).map_err(|e| format!("{e:?}")),
                Sp::Unknown(k, v) => {
                    let p = UnknownSvcParam::new(SvcParamKey::from_int(*k), v.clone()).map_err(|_| Violation::new("forward:SVCB:unknown-param-rejects-valid", "short value rejected"))?;
                    b.push(&p).map_err(|e| format!("{e:?}"))
                }
            };
            match (r, dup) {
                (Ok(()), false) => {}
                (Err(_), true) => ctx.class("svcparamsbuilder-duplicate-rejected"),
                (Ok(()), true) => vfail!("forward:SVCB:builder-accepts-duplicate-key", "second push of key {} accepted", it.key()),
                (Err(e), false) => vfail!("forward:SVCB:builder-rejects-valid", "push of key {} failed: {e}", it.key()),
            }
        }
        if !dup {
            kept.push(it);
        }
    }
    kept.sort_by_key(|k| k.key());
    let mut want = vec![];
    for k in &kept {
        let v = k.value();
        want.extend_from_slice(&k.key().to_be_bytes());
        want.extend_from_slice(&(v.len() as u16).to_be_bytes());
        want.extend(v);
    }
    if via_builder {
        ctx.class("svcparamsbuilder");
        let p: SvcParams<Vec<u8>> = b.freeze().map_err(|_| Violation::new("forward:SVCB:freeze-fails", "freeze"))?;
        vensure!(p.as_slice() == &want[..], "forward:SVCB:builder-differs", "SvcParamsBuilder gives {} want {} (keys pushed in order {:?})", hex(p.as_slice()), hex(&want), items.iter().map(|i| i.key()).collect::<Vec<_>>());
        Ok((p, want))
    } else {
        let p = SvcParams::from_octets(want.clone()).map_err(|e| Violation::new("forward:SVCB:from_octets-rejects-valid", format!("{}: {}", domain::base::wire::ParseError::from(e), hex(&want))))?;
        Ok((p, want))
    }
}

/// Every parameter value of accepted SVCB parameters survives its own
/// compose/parse, and a builder copy is identical.
pub fn check_svc_params(slice: &[u8], ctx: &mut Ctx) -> CaseResult {
    let bb = Bytes::copy_from_slice(slice);
    let params = match SvcParams::from_octets(bb.clone()) {
        Ok(p) => p,
        Err(e) => vfail!("svcparam:accepted-params-rejected-by-from_octets", "{}: {}", domain::base::wire::ParseError::from(e), hex(slice)),
    };
    let raws: Vec<UnknownSvcParam<Bytes>> = params.iter::<UnknownSvcParam<Bytes>>().filter_map(|x| x.ok()).collect();
    let mut rebuilt = SvcParamsBuilder::<Vec<u8>>::empty();
    let mut all_exact = true;
    for (i, item) in params.iter::<AllValues<Bytes>>().enumerate() {
        let Some(raw) = raws.get(i) else { vfail!("svcparam:iterators-disagree", "typed iterator yields more items than the raw one") };
        let val = match item {
            Ok(v) => v,
            Err(_) => {
                // a known key whose value does not parse as its type
                ctx.class("svcparam-value-unparsable");
                all_exact = false;
                break;
            }
        };
        vensure!(val.key() == raw.key(), "svcparam:key-differs", "typed {} raw {}", val.key(), raw.key());
        let mut out = vec![];
        let _ = val.compose_value(&mut out);
        let k = val.key().to_int();
        vensure!(usize::from(val.compose_len()) == out.len(), format!("svcparam:compose_len-differs:key{}", k.min(10)), "compose_len {} but {} octets", val.compose_len(), out.len());
        if out != raw.as_slice() {
            all_exact = false;
            ctx.class(format!("svcparam-normalised:key{}", k.min(10)));
        }
        let ob = Bytes::from(out.clone());
        let mut p = Parser::from_ref(&ob);
        match AllValues::<Bytes>::parse_value(val.key(), &mut p) {
            Ok(Some(v2)) => {
                vensure!(v2 == val && p.remaining() == 0, format!("svcparam:reparsed-differs:key{}", k.min(10)), "value {} reparsed differs", hex(&out));
                let mut out2 = vec![];
                let _ = v2.compose_value(&mut out2);
                vensure!(out2 == out, format!("svcparam:recomposition-differs:key{}", k.min(10)), "{} then {}", hex(&out), hex(&out2));
            }
            other => vfail!(format!("svcparam:composed-does-not-parse:key{}", k.min(10)), "{} -> {:?}", hex(&out), other.map(|_| ())),
        }
        ctx.class("svcparam-roundtrip");
        ctx.class(format!("svcparam:key{}", k.min(10)));
        if rebuilt.push(&val).is_err() {
            all_exact = false;
        }
    }
    if all_exact {
        let p: SvcParams<Vec<u8>> = rebuilt.freeze().map_err(|_| Violation::new("svcparam:freeze", "freeze"))?;
        vensure!(p.as_slice() == slice, "svcparam:rebuilt-differs", "values pushed into a builder give {} instead of {}", hex(p.as_slice()), hex(slice));
        let copy = SvcParamsBuilder::<Vec<u8>>::from_params(&params).map_err(|_| Violation::new("svcparam:from_params", "from_params"))?;
        let p: SvcParams<Vec<u8>> = copy.freeze().map_err(|_| Violation::new("svcparam:freeze", "freeze"))?;
        vensure!(p.as_slice() == slice, "svcparam:from_params-differs", "from_params + freeze gives {} instead of {}", hex(p.as_slice()), hex(slice));
    }
    Ok(())
}

//------------ OPT options ----------------------------------------------------------

#[derive(Clone)]
enum Op {
    Nsid(Vec<u8>),
    Dau(Vec<u8>),
    Dhu(Vec<u8>),
    N3u(Vec<u8>),
    Subnet { v4: bool, src: u8, scope: u8, addr: Vec<u8> },
    Expire(Option<u32>),
    Cookie([u8; 8], Option<Vec<u8>>),
    Keepalive(Option<u16>),
    Padding(Vec<u8>),
    Chain(Labels),
    KeyTag(Vec<u16>),
    ExtErr(u16, Option<String>),
    Other(u16, Vec<u8>),
}

impl Op {
    fn code(&self) -> u16 {
        match self {
            Op::Nsid(_) => 3,
            Op::Dau(_) => 5,
            Op::Dhu(_) => 6,
            Op::N3u(_) => 7,
            Op::Subnet { .. } => 8,
            Op::Expire(_) => 9,
            Op::Cookie(..) => 10,
            Op::Keepalive(_) => 11,
            Op::Padding(_) => 12,
            Op::Chain(_) => 13,
            Op::KeyTag(_) => 14,
            Op::ExtErr(..) => 15,
            Op::Other(c, _) => *c,
        }
    }
    fn value(&self) -> Vec<u8> {
        match self {
            Op::Nsid(b) | Op::Dau(b) | Op::Dhu(b) | Op::N3u(b) | Op::Padding(b) | Op::Other(_, b) => b.clone(),
            Op::Subnet { v4, src, scope, addr } => {
                let mut v = vec![0, if *v4 { 1 } else { 2 }, *src, *scope];
                v.extend_from_slice(&addr[..(*src as usize).div_ceil(8)]);
                v
            }
            Op::Expire(e) => e.map(|x| x.to_be_bytes().to_vec()).unwrap_or_default(),
            Op::Cookie(c, s) => {
                let mut v = c.to_vec();
                if let Some(s) = s {
                    v.extend_from_slice(s);
                }
                v
            }
            Op::Keepalive(t) => t.map(|x| x.to_be_bytes().to_vec()).unwrap_or_default(),
            Op::Chain(l) => gn::to_wire(l),
            Op::KeyTag(k) => k.iter().flat_map(|x| x.to_be_bytes()).collect(),
            Op::ExtErr(c, t) => {
                let mut v = c.to_be_bytes().to_vec();
                if let Some(t) = t {
                    v.extend_from_slice(t.as_bytes());
                }
                v
            }
        }
    }
}

fn gen_op(u: &mut Unstructured) -> Op {
    match pick(u, 14) {
        0 => Op::Nsid(grd::blob(u, 0, 40)),
        1 => Op::Dau(grd::blob(u, 0, 8)),
        2 => Op::Dhu(grd::blob(u, 0, 8)),
        3 => Op::N3u(grd::blob(u, 0, 8)),
        4 => {
            let v4 = flag(u);
            let maxbits = if v4 { 32 } else { 128 };
            let src = pick(u, maxbits + 1) as u8;
            let scope = if flag(u) { 0 } else { pick(u, maxbits + 1) as u8 };
            let mut addr: Vec<u8> = (0..maxbits / 8).map(|_| byte(u)).collect();
            // bits beyond the source prefix are zero (RFC 7871 §6)
            for (i, b) in addr.iter_mut().enumerate() {
                let lo = i * 8;
                if lo >= src as usize {
                    *b = 0;
                } else if lo + 8 > src as usize {
                    *b &= 0xffu8 << (8 - (src as usize - lo));
                }
            }
            Op::Subnet { v4, src, scope, addr }
        }
        5 => Op::Expire(if flag(u) { None } else { Some(u32v(u)) }),
        6 => {
            let mut c = [0u8; 8];
            for x in c.iter_mut() {
                *x = byte(u);
            }
            let s = if flag(u) { None } else { Some((0..8 + pick(u, 25)).map(|_| byte(u)).collect()) };
            Op::Cookie(c, s)
        }
        7 => Op::Keepalive(if flag(u) { None } else { Some(u16v(u)) }),
        8 => Op::Padding(grd::blob(u, 0, 40)),
        9 => Op::Chain(gn::name(u, false)),
        10 => Op::KeyTag((0..pick(u, 4)).map(|_| u16v(u)).collect()),
        11 => Op::ExtErr(u16v(u), match pick(u, 3) {
            0 => None,
            1 => Some(["x", "signature expired", "\u{e9}t\u{e9}", "a\0b", ""][pick(u, 5)].to_string()),
            _ => Some((0..1 + pick(u, 12)).map(|_| pickb(u, b"extended error text") as char).collect()),
        }),
        _ => Op::Other([4u16, 16, 65001, 65535, 0, 1, 2][pick(u, 7)], grd::blob(u, 0, 30)),
    }
}

fn sec_algs(b: &[u8]) -> Vec<SecurityAlgorithm> {
    b.iter().map(|x| SecurityAlgorithm::from_int(*x)).collect()
}

/// Pushes one option with its typed constructor to `Opt::push`.
/// compose -> parse -> `==` at the level of one option value, then push.
macro_rules! rt_push {
    ($o:expr, $val:expr, $parse:expr) => {{
        let val = $val;
        let mut b = vec![];
        let _ = val.compose_option(&mut b);
        if usize::from(val.compose_len()) != b.len() {
            return Err(format!("OPTION-COMPOSE-LEN {} vs {}", val.compose_len(), b.len()));
        }
        let bb = Bytes::from(b);
        let mut p = Parser::from_ref(&bb);
        match $parse(&mut p) {
            Ok(v2) => {
                if !(v2 == val) || p.remaining() != 0 {
                    return Err(format!("OPTION-VALUE-DIFFERS after compose -> parse: wire {}", hex(&bb)));
                }
            }
            Err(e) => return Err(format!("OPTION-VALUE-REJECTED by its own parser: {e}: wire {}", hex(&bb))),
        }
        $o.push(&val).map_err(|x: opt::BuildDataError| format!("{x:?}"))
    }};
}

/// Pushes one option with its typed constructor to `Opt::push`.
fn push_typed(o: &mut Opt<Vec<u8>>, op: &Op) -> Result<(), String> {
    type P<'a> = Parser<'a, Bytes>;
    match op {
        Op::Nsid(b) => rt_push!(o, opt::Nsid::from_octets(b.clone()).map_err(|x| format!("{x}"))?, |p: &mut P| opt::Nsid::<Bytes>::parse(p)),
        Op::Dau(b) => rt_push!(o, opt::Dau::<Vec<u8>>::from_sec_algs(sec_algs(b)).map_err(|x| format!("{x:?}"))?, |p: &mut P| opt::Dau::<Bytes>::parse(p)),
        Op::Dhu(b) => rt_push!(o, opt::Dhu::from_octets(b.clone()).map_err(|x| format!("{x}"))?, |p: &mut P| opt::Dhu::<Bytes>::parse(p)),
        Op::N3u(b) => rt_push!(o, opt::N3u::from_octets(b.clone()).map_err(|x| format!("{x}"))?, |p: &mut P| opt::N3u::<Bytes>::parse(p)),
        Op::Subnet { v4, src, scope, addr } => {
            let ip: IpAddr = if *v4 { IpAddr::from(<[u8; 4]>::try_from(&addr[..]).unwrap()) } else { IpAddr::from(<[u8; 16]>::try_from(&addr[..]).unwrap()) };
            let cs = opt::ClientSubnet::new(*src, *scope, ip);
            if cs.source_prefix_len() != *src || cs.scope_prefix_len() != *scope || cs.addr() != ip {
                return Err("OPTION-ACCESSOR client subnet changed valid arguments".into());
            }
            rt_push!(o, cs, |p: &mut P| opt::ClientSubnet::parse(p))
        }
        Op::Expire(x) => rt_push!(o, opt::Expire::new(*x), |p: &mut P| opt::Expire::parse(p)),
        Op::Cookie(c, s) => rt_push!(o, opt::Cookie::new(opt::cookie::ClientCookie::from_octets(*c), s.as_ref().map(|s| opt::cookie::ServerCookie::from_octets(s))), |p: &mut P| opt::Cookie::parse(p)),
        Op::Keepalive(t) => rt_push!(o, opt::TcpKeepalive::new(t.map(Into::into)), |p: &mut P| opt::TcpKeepalive::parse(p)),
        Op::Padding(b) => {
            // Padding has no PartialEq: compare the octets
            let val = opt::Padding::from_octets(b.clone()).map_err(|x| format!("{x}"))?;
            let bb = Bytes::from(b.clone());
            let mut p = Parser::from_ref(&bb);
            match opt::Padding::<Bytes>::parse(&mut p) {
                Ok(v2) if v2.as_slice() == val.as_slice() => {}
                _ => return Err("OPTION-VALUE-DIFFERS padding".into()),
            }
            o.push(&val).map_err(|x| format!("{x:?}"))
        }
        Op::Chain(l) => rt_push!(o, opt::Chain::new(gn::to_name(l)), |p: &mut P| opt::Chain::<Name<Bytes>>::parse(p)),
        Op::KeyTag(k) => {
            let b: Vec<u8> = k.iter().flat_map(|x| x.to_be_bytes()).collect();
            rt_push!(o, opt::KeyTag::from_octets(b).map_err(|x| format!("{x}"))?, |p: &mut P| opt::KeyTag::<Bytes>::parse(p))
        }
        Op::ExtErr(c, t) => {
            let text = t.as_ref().map(|t| Str::<Vec<u8>>::copy_from_str(t));
            rt_push!(o, opt::ExtendedError::new(ExtendedErrorCode::from_int(*c), text).map_err(|x| format!("{x}"))?, |p: &mut P| opt::ExtendedError::<Bytes>::parse(p))
        }
        Op::Other(c, b) => o.push(&UnknownOptData::new(OptionCode::from_int(*c), b.clone()).map_err(|x| format!("{x}"))?).map_err(|x| format!("{x:?}")),
    }
}

fn make_opt(u: &mut Unstructured, ctx: &mut Ctx) -> R<(Opt<Vec<u8>>, Vec<u8>, &'static str)> {
    let n = pick(u, 6);
    let ops: Vec<Op> = (0..n).map(|_| gen_op(u)).collect();
    let mut want = vec![];
    for op in &ops {
        let v = op.value();
        want.extend_from_slice(&op.code().to_be_bytes());
        want.extend_from_slice(&(v.len() as u16).to_be_bytes());
        want.extend(v);
    }
    match pick(u, 3) {
        0 => {
            let o = Opt::from_octets(want.clone()).map_err(|e| Violation::new("forward:OPT:from_octets-rejects-valid", format!("{e}: {}", hex(&want))))?;
            Ok((o, want, "from_octets"))
        }
        1 => {
            let mut o = Opt::<Vec<u8>>::empty();
            for op in &ops {
                if let Err(e) = push_typed(&mut o, op) {
                    let kind = if e.starts_with("OPTION-") { "option-roundtrip" } else { "push-rejects-valid" };
                    vfail!(format!("forward:OPT:{kind}:code{}", op.code().min(16)), "{e}: option {} value {}", op.code(), hex(&op.value()));
                }
            }
            Ok((o, want, "Opt::push"))
        }
        _ => {
            // OptBuilder inside a message
            ctx.class("optbuilder");
            let mb = MessageBuilder::from_target(StaticCompressor::new(Vec::new())).map_err(|_| Violation::new("harness:builder", "builder"))?;
            let mut ab = mb.additional();
            let mut failed: Option<String> = None;
            let r = ab.opt(|ob| {
                for op in &ops {
                    let res: Result<(), String> = match op {
                        Op::Nsid(b) => ob.nsid(b).map_err(|e| format!("{e:?}")),
                        Op::Dau(b) => ob.dau(&sec_algs(b)).map_err(|e| format!("{e:?}")),
                        Op::Dhu(b) => ob.dhu(&sec_algs(b)).map_err(|e| format!("{e:?}")),
                        Op::N3u(b) => ob.n3u(&sec_algs(b)).map_err(|e| format!("{e:?}")),
                        Op::Subnet { v4, src, scope, addr } => {
                            let ip: IpAddr = if *v4 { IpAddr::from(<[u8; 4]>::try_from(&addr[..]).unwrap()) } else { IpAddr::from(<[u8; 16]>::try_from(&addr[..]).unwrap()) };
                            ob.client_subnet(*src, *scope, ip).map_err(|e| format!("{e:?}"))
                        }
                        Op::Expire(x) => ob.expire(*x).map_err(|e| format!("{e:?}")),
                        Op::Cookie(c, s) => ob
                            .cookie(opt::Cookie::new(opt::cookie::ClientCookie::from_octets(*c), s.as_ref().map(|s| opt::cookie::ServerCookie::from_octets(s))))
                            .map_err(|e| format!("{e:?}")),
                        Op::Keepalive(t) => ob.tcp_keepalive(t.map(Into::into)).map_err(|e| format!("{e:?}")),
                        Op::Padding(b) => {
                            // the builder writes zero octets only
                            ob.padding(b.len() as u16).map_err(|e| format!("{e:?}"))
                        }
                        Op::Chain(l) => ob.chain(gn::to_name(l)).map_err(|e| format!("{e:?}")),
                        Op::KeyTag(k) => {
                            let b: Vec<u8> = k.iter().flat_map(|x| x.to_be_bytes()).collect();
                            match opt::KeyTag::from_octets(b) {
                                Ok(kt) => ob.key_tag(&kt).map_err(|e| format!("{e:?}")),
                                Err(e) => Err(format!("{e:?}")),
                            }
                        }
                        Op::ExtErr(c, t) => {
                            let text = t.as_ref().map(|t| Str::<Vec<u8>>::copy_from_str(t));
                            ob.extended_error(ExtendedErrorCode::from_int(*c), text.as_ref()).map_err(|e| format!("{e:?}"))
                        }
                        Op::Other(c, b) => match UnknownOptData::new(OptionCode::from_int(*c), b.clone()) {
                            Ok(d) => ob.push(&d).map_err(|e| format!("{e:?}")),
                            Err(e) => Err(format!("{e:?}")),
                        },
                    };
                    if let Err(e) = res {
                        failed = Some(format!("option {}: {e}", op.code()));
                        break;
                    }
                }
                Ok(())
            });
            if let Some(e) = failed {
                vfail!("forward:OPT:optbuilder-rejects-valid", "{e}");
            }
            if let Err(e) = r {
                vfail!("forward:OPT:optbuilder-rejects-valid", "{e:?}: options {:?}", ops.iter().map(|o| o.code()).collect::<Vec<_>>());
            }
            let msg = ab.finish().as_ref().to_vec();
            let w = wire::walk(&msg).ok_or_else(|| Violation::new("forward:OPT:optbuilder-not-a-message", "short"))?;
            vensure!(w.error.is_none() && w.records.len() == 1 && w.records[0].rtype == rr::OPT && w.records[0].rd_end == msg.len(), "forward:OPT:optbuilder-rdlength-wrong", "message {} walks to {:?}", hex(&msg), w.error);
            let got = msg[w.records[0].rd_start..w.records[0].rd_end].to_vec();
            // padding content is zeros with the builder
            let mut want2 = vec![];
            for op in &ops {
                let v = match op {
                    Op::Padding(b) => vec![0u8; b.len()],
                    o => o.value(),
                };
                want2.extend_from_slice(&op.code().to_be_bytes());
                want2.extend_from_slice(&(v.len() as u16).to_be_bytes());
                want2.extend(v);
            }
            vensure!(got == want2, "forward:OPT:optbuilder-differs", "OptBuilder wrote {} want {}", hex(&got), hex(&want2));
            let o = Opt::from_octets(got).map_err(|e| Violation::new("forward:OPT:optbuilder-output-rejected", format!("{e}")))?;
            Ok((o, want2, "OptBuilder"))
        }
    }
}

/// Every option of accepted OPT data survives its own compose/parse.
pub fn check_opt_options(o: Opt<&[u8]>, expect_valid: bool, ctx: &mut Ctx) -> CaseResult {
    let mut v = vec![];
    let _ = o.compose_rdata(&mut v);
    let bb = Bytes::from(v);
    let ob = Opt::from_octets(bb.clone()).map_err(|e| Violation::new("opt-option:accepted-opt-rejected-by-from_octets", format!("{e}")))?;
    let raws: Vec<UnknownOptData<Bytes>> = ob.iter::<UnknownOptData<Bytes>>().filter_map(|x| x.ok()).collect();
    for (i, item) in ob.iter::<AllOptData<Bytes, Name<Bytes>>>().enumerate() {
        let Some(raw) = raws.get(i) else { vfail!("opt-option:iterators-disagree", "typed iterator yields more options than the raw one") };
        let d = match item {
            Ok(d) => d,
            Err(e) => {
                if expect_valid {
                    vfail!(format!("forward:OPT:valid-option-unparsable:code{}", raw.code().to_int().min(16)), "option {} with value {} made by its constructor is rejected when the OPT data is read back: {e}", raw.code(), hex(raw.as_slice()));
                }
                ctx.class("opt-option-unparsable");
                break;
            }
        };
        let code = d.code().to_int();
        let cl = code.min(16);
        vensure!(d.code() == raw.code(), "opt-option:code-differs", "typed {} raw {}", d.code(), raw.code());
        let mut out = vec![];
        let _ = d.compose_option(&mut out);
        vensure!(usize::from(d.compose_len()) == out.len(), format!("opt-option:compose_len-differs:code{cl}"), "compose_len {} but {} octets for option {code}: {}", d.compose_len(), out.len(), hex(raw.as_slice()));
        if out != raw.as_slice() {
            ctx.class(format!("opt-option-normalised:code{cl}"));
            ctx.sample(|| format!("option {code} normalised: {} -> {}", hex(raw.as_slice()), hex(&out)));
        }
        let obuf = Bytes::from(out.clone());
        let mut p = Parser::from_ref(&obuf);
        match AllOptData::<Bytes, Name<Bytes>>::parse_option(d.code(), &mut p) {
            Ok(Some(d2)) => {
                vensure!(p.remaining() == 0, format!("opt-option:reparse-trailing:code{cl}"), "{}", hex(&out));
                let mut out2 = vec![];
                let _ = d2.compose_option(&mut out2);
                vensure!(out2 == out && d2.code() == d.code(), format!("opt-option:recomposition-differs:code{cl}"), "option {code}: {} then {}", hex(&out), hex(&out2));
            }
            other => vfail!(format!("opt-option:composed-does-not-parse:code{cl}"), "option {code}: {} (from {}) -> {:?}", hex(&out), hex(raw.as_slice()), other.map(|_| ())),
        }
        ctx.class("opt-option-roundtrip");
        ctx.class(format!("opt-option:code{cl}"));
    }
    Ok(())
}

//------------ one typed value per case ------------------------------------------------

fn build(u: &mut Unstructured, rtype: u16, pool: &[Labels], ctx: &mut Ctx) -> R<Made> {
    let tn = tname(rtype);
    let mut want: Vec<u8> = vec![];
    let mut how = "new";
    let v: AllV = match rtype {
        rr::A => {
            let a = [byte(u), byte(u), byte(u), byte(u)];
            want.extend_from_slice(&a);
            let d = if flag(u) { A::new(Ipv4Addr::from(a)) } else { A::from_octets(a[0], a[1], a[2], a[3]) };
            vensure!(d.addr().octets() == a, "forward:A:accessor", "addr");
            d.into()
        }
        rr::AAAA => {
            let mut a = [0u8; 16];
            for x in a.iter_mut() {
                *x = byte(u);
            }
            want.extend_from_slice(&a);
            Aaaa::new(Ipv6Addr::from(a)).into()
        }
        rr::NS | rr::MD | rr::MF | rr::CNAME | rr::MB | rr::MG | rr::MR | rr::PTR | rr::DNAME => {
            let (w, n) = nm(u, pool);
            want.extend(w);
            match rtype {
                rr::NS => Ns::new(n).into(),
                rr::MD => Md::new(n).into(),
                rr::MF => Mf::new(n).into(),
                rr::CNAME => Cname::new(n).into(),
                rr::MB => Mb::new(n).into(),
                rr::MG => Mg::new(n).into(),
                rr::MR => Mr::new(n).into(),
                rr::PTR => Ptr::new(n).into(),
                _ => Dname::new(n).into(),
            }
        }
        rr::SOA => {
            let (w1, m) = nm(u, pool);
            let (w2, r) = nm(u, pool);
            let f = [u32v(u), u32v(u), u32v(u), u32v(u), u32v(u)];
            want.extend(w1);
            want.extend(w2);
            for x in f {
                want.extend_from_slice(&x.to_be_bytes());
            }
            let d = Soa::new(m, r, Serial(f[0]), Ttl::from_secs(f[1]), Ttl::from_secs(f[2]), Ttl::from_secs(f[3]), Ttl::from_secs(f[4]));
            vensure!(d.serial() == Serial(f[0]) && d.refresh().as_secs() == f[1] && d.retry().as_secs() == f[2] && d.expire().as_secs() == f[3] && d.minimum().as_secs() == f[4], "forward:SOA:accessor", "accessors differ from constructor arguments");
            d.into()
        }
        rr::MINFO => {
            let (w1, a) = nm(u, pool);
            let (w2, b) = nm(u, pool);
            want.extend(w1);
            want.extend(w2);
            Minfo::new(a, b).into()
        }
        rr::RP => {
            let (w1, a) = nm(u, pool);
            let (w2, b) = nm(u, pool);
            want.extend(w1);
            want.extend(w2);
            Rp::new(a, b).into()
        }
        rr::MX => {
            let p = u16v(u);
            let (w, n) = nm(u, pool);
            want.extend_from_slice(&p.to_be_bytes());
            want.extend(w);
            let d = Mx::new(p, n);
            vensure!(d.preference() == p, "forward:MX:accessor", "preference");
            d.into()
        }
        rr::SRV => {
            let f = [u16v(u), u16v(u), u16v(u)];
            let (w, n) = nm(u, pool);
            for x in f {
                want.extend_from_slice(&x.to_be_bytes());
            }
            want.extend(w);
            let d = Srv::new(f[0], f[1], f[2], n);
            vensure!(d.priority() == f[0] && d.weight() == f[1] && d.port() == f[2], "forward:SRV:accessor", "accessors differ from constructor arguments");
            d.into()
        }
        rr::TXT => {
            let (t, w, h) = make_txt(u, ctx)?;
            want = w;
            how = h;
            t.into()
        }
        rr::HINFO => {
            let (a, b) = (cs(u), cs(u));
            push_cs(&mut want, &a);
            push_cs(&mut want, &b);
            let d = Hinfo::new(mkcs(&tn, &a)?, mkcs(&tn, &b)?);
            vensure!(d.cpu().as_slice() == &a[..] && d.os().as_slice() == &b[..], "forward:HINFO:accessor", "cpu/os");
            d.into()
        }
        rr::NULL => {
            want = tail(u);
            Null::from_octets(want.clone()).map_err(|_| Violation::new("forward:NULL:constructor-rejects-valid", "short data rejected"))?.into()
        }
        rr::NAPTR => {
            let (o, p) = (u16v(u), u16v(u));
            let (f, s, r) = (cs(u), cs(u), cs(u));
            let (w, n) = nm(u, pool);
            want.extend_from_slice(&o.to_be_bytes());
            want.extend_from_slice(&p.to_be_bytes());
            push_cs(&mut want, &f);
            push_cs(&mut want, &s);
            push_cs(&mut want, &r);
            want.extend(w);
            let d = Naptr::new(o, p, mkcs(&tn, &f)?, mkcs(&tn, &s)?, mkcs(&tn, &r)?, n);
            vensure!(d.order() == o && d.preference() == p && d.flags().as_slice() == &f[..] && d.services().as_slice() == &s[..] && d.regexp().as_slice() == &r[..], "forward:NAPTR:accessor", "accessors differ from constructor arguments");
            d.into()
        }
        rr::CAA => {
            let fl = u8v(u);
            let mx = if chance(u, 20) { 255 } else { 10 };
            let tag: Vec<u8> = (0..1 + pick(u, mx)).map(|_| pickb(u, b"abcdefghijklmnopqrstuvwxyzABCDEFGHIJKLMNOPQRSTUVWXYZ0123456789")).collect();
            let val = tail(u);
            want.push(fl);
            push_cs(&mut want, &tag);
            want.extend_from_slice(&val);
            let t = caa::CaaTag::from_octets(tag.clone()).map_err(|e| Violation::new("forward:CAA:tag-rejects-valid", format!("{e}: {}", hex(&tag))))?;
            let d = Caa::new(caa::CaaFlags::new(fl), t, val.clone());
            vensure!(d.flags().bits() == fl && d.value() == &val, "forward:CAA:accessor", "flags/value");
            d.into()
        }
        rr::DS | rr::CDS => {
            let (k, a, t) = (u16v(u), u8v(u), u8v(u));
            let dg = tail(u);
            want.extend_from_slice(&k.to_be_bytes());
            want.push(a);
            want.push(t);
            want.extend_from_slice(&dg);
            let e = |_| Violation::new(format!("forward:{tn}:constructor-rejects-valid"), format!("digest of {} octets rejected", dg.len()));
            if rtype == rr::DS {
                let d = Ds::new(k, SecurityAlgorithm::from_int(a), DigestAlgorithm::from_int(t), dg.clone()).map_err(e)?;
                vensure!(d.key_tag() == k && d.algorithm().to_int() == a && d.digest_type().to_int() == t && d.digest() == &dg, "forward:DS:accessor", "accessors");
                d.into()
            } else {
                Cds::new(k, SecurityAlgorithm::from_int(a), DigestAlgorithm::from_int(t), dg.clone()).map_err(e)?.into()
            }
        }
        rr::DNSKEY | rr::CDNSKEY => {
            let (f, p, a) = (u16v(u), u8v(u), u8v(u));
            let key = tail(u);
            want.extend_from_slice(&f.to_be_bytes());
            want.push(p);
            want.push(a);
            want.extend_from_slice(&key);
            let e = |_| Violation::new(format!("forward:{tn}:constructor-rejects-valid"), format!("key of {} octets rejected", key.len()));
            if rtype == rr::DNSKEY {
                let d = Dnskey::new(f, p, SecurityAlgorithm::from_int(a), key.clone()).map_err(e)?;
                vensure!(d.flags() == f && d.protocol() == p && d.algorithm().to_int() == a && d.public_key() == &key, "forward:DNSKEY:accessor", "accessors");
                d.into()
            } else {
                Cdnskey::new(f, p, SecurityAlgorithm::from_int(a), key.clone()).map_err(e)?.into()
            }
        }
        rr::RRSIG => {
            let (tc, alg, labels, ottl, exp, inc, tag) = (u16v(u), u8v(u), u8v(u), u32v(u), u32v(u), u32v(u), u16v(u));
            let (w, n) = nm(u, pool);
            let sig = tail(u);
            want.extend_from_slice(&tc.to_be_bytes());
            want.push(alg);
            want.push(labels);
            want.extend_from_slice(&ottl.to_be_bytes());
            want.extend_from_slice(&exp.to_be_bytes());
            want.extend_from_slice(&inc.to_be_bytes());
            want.extend_from_slice(&tag.to_be_bytes());
            want.extend(w);
            want.extend_from_slice(&sig);
            let d = Rrsig::new(Rtype::from_int(tc), SecurityAlgorithm::from_int(alg), labels, Ttl::from_secs(ottl), Timestamp::from(exp), Timestamp::from(inc), tag, n, sig.clone())
                .map_err(|_| Violation::new("forward:RRSIG:constructor-rejects-valid", format!("signature of {} octets rejected", sig.len())))?;
            vensure!(
                d.type_covered().to_int() == tc && d.algorithm().to_int() == alg && d.labels() == labels && d.original_ttl().as_secs() == ottl && d.expiration().into_int() == exp && d.inception().into_int() == inc && d.key_tag() == tag && d.signature() == &sig,
                "forward:RRSIG:accessor",
                "accessors differ from constructor arguments"
            );
            d.into()
        }
        rr::NSEC => {
            let (w, n) = nm(u, pool);
            let (mut bm, mut wb) = make_bitmap(u, ctx)?;
            if wb.is_empty() {
                // RFC 4034 §4.1.2: the NSEC type bitmap has one or more window
                // blocks (an NSEC lists at least NSEC itself); since the fix
                // "Nsec::parse rejects an empty bitmap" the reader enforces
                // it, so an NSEC value with an empty bitmap is outside the
                // valid value domain (like a ZONEMD digest shorter than 12
                // octets). NSEC3 keeps empty bitmaps (RFC 6840 §6.4).
                ctx.class("nsec-empty-bitmap-replaced");
                let mut b = RtypeBitmapBuilder::new_vec();
                b.add(Rtype::NSEC).map_err(|_| Violation::new("forward:bitmap:add-fails", "add"))?;
                bm = b.finalize();
                wb = bm.as_slice().to_vec();
            }
            want.extend(w);
            want.extend(wb);
            Nsec::new(n, bm).into()
        }
        rr::NSEC3 | rr::NSEC3PARAM => {
            let (alg, fl, it) = (u8v(u), u8v(u), u16v(u));
            let salt = grd::blob(u, 0, 255);
            want.push(alg);
            want.push(fl);
            want.extend_from_slice(&it.to_be_bytes());
            push_cs(&mut want, &salt);
            let s = Nsec3Salt::from_octets(salt.clone()).map_err(|_| Violation::new(format!("forward:{tn}:salt-rejects-valid"), format!("salt of {} octets", salt.len())))?;
            if rtype == rr::NSEC3 {
                let hash = grd::blob(u, 0, 255);
                push_cs(&mut want, &hash);
                let (bm, wb) = make_bitmap(u, ctx)?;
                want.extend(wb);
                let h = OwnerHash::from_octets(hash.clone()).map_err(|_| Violation::new("forward:NSEC3:ownerhash-rejects-valid", format!("hash of {} octets", hash.len())))?;
                let d = Nsec3::new(Nsec3HashAlgorithm::from_int(alg), fl, it, s, h, bm);
                vensure!(d.hash_algorithm().to_int() == alg && d.flags() == fl && d.iterations() == it && d.salt().as_slice() == &salt[..] && d.next_owner().as_slice() == &hash[..], "forward:NSEC3:accessor", "accessors");
                d.into()
            } else {
                Nsec3param::new(Nsec3HashAlgorithm::from_int(alg), fl, it, s).into()
            }
        }
        rr::TLSA => {
            let (a, b, c) = (u8v(u), u8v(u), u8v(u));
            let d = tail(u);
            want.extend_from_slice(&[a, b, c]);
            want.extend_from_slice(&d);
            Tlsa::new(TlsaCertificateUsage::from_int(a), TlsaSelector::from_int(b), TlsaMatchingType::from_int(c), d).into()
        }
        rr::SSHFP => {
            let (a, b) = (u8v(u), u8v(u));
            let d = tail(u);
            want.extend_from_slice(&[a, b]);
            want.extend_from_slice(&d);
            Sshfp::new(SshfpAlgorithm::from_int(a), SshfpType::from_int(b), d).into()
        }
        rr::OPENPGPKEY => {
            want = tail(u);
            Openpgpkey::new(want.clone()).into()
        }
        rr::ZONEMD => {
            let (s, a, b) = (u32v(u), u8v(u), u8v(u));
            // RFC 8976 §2.2.4: the digest MUST NOT be shorter than 12 octets
            // (the parser enforces it, the constructor does not)
            let mut d = tail(u);
            while d.len() < 12 {
                d.push(byte(u));
            }
            want.extend_from_slice(&s.to_be_bytes());
            want.extend_from_slice(&[a, b]);
            want.extend_from_slice(&d);
            Zonemd::new(Serial(s), ZonemdScheme::from_int(a), ZonemdAlgorithm::from_int(b), d).into()
        }
        rr::IPSECKEY => {
            let prec = u8v(u);
            let gwt = pick(u, 4) as u8;
            // algorithm 0 means "no key"; a key-less record with another
            // algorithm is not a value the type is meant to hold (RFC 4025
            // §2.4; the parser rejects it)
            let mut key = tail(u);
            let alg = if key.is_empty() { 0 } else { u8v(u) };
            if alg == 0 && chance(u, 128) {
                key.clear();
            }
            want.extend_from_slice(&[prec, gwt, alg]);
            let gw: IpseckeyGateway<NV> = match gwt {
                0 => IpseckeyGateway::None,
                1 => {
                    let a = [byte(u), byte(u), byte(u), byte(u)];
                    want.extend_from_slice(&a);
                    IpseckeyGateway::Ipv4(A::new(Ipv4Addr::from(a)))
                }
                2 => {
                    let mut a = [0u8; 16];
                    for x in a.iter_mut() {
                        *x = byte(u);
                    }
                    want.extend_from_slice(&a);
                    IpseckeyGateway::Ipv6(Aaaa::new(Ipv6Addr::from(a)))
                }
                _ => {
                    let (w, n) = nm(u, pool);
                    want.extend(w);
                    IpseckeyGateway::Name(n)
                }
            };
            want.extend_from_slice(&key);
            let d = Ipseckey::new(prec, IpseckeyAlgorithm::from_int(alg), gw, key.clone());
            vensure!(d.precedence() == prec && u8::from(d.gateway_type()) == gwt && u8::from(d.algorithm()) == alg && d.key() == &key, "forward:IPSECKEY:accessor", "accessors");
            d.into()
        }
        rr::SVCB | rr::HTTPS => {
            let prio = u16v(u);
            let (w, n) = nm(u, pool);
            let (params, wp) = make_svcparams(u, ctx)?;
            want.extend_from_slice(&prio.to_be_bytes());
            want.extend(w);
            want.extend(wp);
            let e = |_| Violation::new(format!("forward:{tn}:constructor-rejects-valid"), "short params rejected".to_string());
            if rtype == rr::SVCB {
                let d = Svcb::new(prio, n, params).map_err(e)?;
                vensure!(d.priority() == prio, "forward:SVCB:accessor", "priority");
                d.into()
            } else {
                Https::new(prio, n, params).map_err(e)?.into()
            }
        }
        rr::TSIG => {
            let (w, n) = nm(u, pool);
            let t = u64_(u) & 0xFFFF_FFFF_FFFF;
            let (fudge, oid, err) = (u16v(u), u16v(u), u16v(u));
            let mac = grd::blob(u, 0, 70);
            let other = grd::blob(u, 0, 12);
            want.extend(w);
            want.extend_from_slice(&t.to_be_bytes()[2..]);
            want.extend_from_slice(&fudge.to_be_bytes());
            want.extend_from_slice(&(mac.len() as u16).to_be_bytes());
            want.extend_from_slice(&mac);
            want.extend_from_slice(&oid.to_be_bytes());
            want.extend_from_slice(&err.to_be_bytes());
            want.extend_from_slice(&(other.len() as u16).to_be_bytes());
            want.extend_from_slice(&other);
            let d = Tsig::new(n, Time48::from_u64(t), fudge, mac.clone(), oid, TsigRcode::from_int(err), other.clone()).map_err(|_| Violation::new("forward:TSIG:constructor-rejects-valid", "short mac rejected"))?;
            vensure!(u64::from(d.time_signed()) == t && d.fudge() == fudge && d.mac() == &mac && d.original_id() == oid && d.error().to_int() == err && d.other() == &other, "forward:TSIG:accessor", "accessors");
            d.into()
        }
        rr::OPT => {
            let (o, w, h) = make_opt(u, ctx)?;
            want = w;
            how = h;
            check_opt_options(o.for_slice_ref(), true, ctx)?;
            o.into()
        }
        _ => {
            want = tail(u);
            UnknownRecordData::from_octets(Rtype::from_int(rtype), want.clone()).map_err(|_| Violation::new("forward:unknown:constructor-rejects-valid", "short data rejected"))?.into()
        }
    };
    Ok(Made { v, want, how })
}

pub fn run_typed(data: &[u8], ctx: &mut Ctx) -> CaseResult {
    let mut u = Unstructured::new(data);
    let rtype = pick_rtype(&mut u);
    let plain_names = chance(&mut u, 64);
    let np = 2 + pick(&mut u, 4);
    let pool = gn::pool(&mut u, np, plain_names);
    let tn = tname(rtype);
    let m = build(&mut u, rtype, &pool, ctx)?;
    if std::env::var_os("VERIF_DEBUG").is_some() {
        eprintln!("typed {tn} via {}: want {}", m.how, hex(&m.want));
    }
    let plain = check_value(rtype, &m.v, &pool, &mut u, ctx)?;
    vensure!(plain == m.want, format!("forward:{tn}:wire-differs-from-fields"), "value made via {} composes to {} but its fields encode as {}", m.how, hex(&plain), hex(&m.want));
    // the independent table agrees that this is well-formed RDATA
    if let Err(e) = rr::normal_rdata(rtype, &m.want, 0, m.want.len(), false) {
        ctx.class(format!("typed-walker-rejects:{tn}:{e:?}"));
    }
    ctx.class(format!("typed:{tn}"));
    ctx.class(format!("via:{}", m.how));
    if is_nontrivial(rtype, &plain) {
        ctx.nontrivial(&(rtype, &plain, "typed"));
        ctx.sample(|| format!("{tn} via {}: {}", m.how, hex(&plain)));
    }
    Ok(())
}
