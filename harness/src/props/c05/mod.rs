//! C05 — record data of every type survives compose/parse; lengths exact;
//! unknown types opaque; canonical form = RFC 4034 §6.2 / RFC 6840 §5.1.
//!
//! Sub-checks
//! * `wire`   — RDATA made by the independent generator (`gen::rdata`) for a
//!   chosen type, embedded in a scratch message (optionally with compressed
//!   embedded names), optionally mutated. If the library's parser accepts it
//!   the value goes through the full value oracle (`check_value`).
//! * `raw`    — raw octets with a chosen type (also the fuzz entry).
//! * `typed`  — values made with the public constructors and builders from
//!   generated fields (`typed.rs`); the reference wire form is assembled by
//!   hand from the same fields.
//! * `limits` — values at the 65535-octet RDLENGTH limit (`limits.rs`).
use crate::engine::*;
use crate::gen::message as gm;
use crate::gen::name::{self as gn, Labels};
use crate::gen::rdata as grd;
use crate::gen::*;
use crate::refimpl::rdata::{self as rr, F};
use crate::refimpl::wire;
use crate::{vensure, vfail};
use arbitrary::Unstructured;
use bytes::Bytes;
use domain::base::iana::{Class, Rtype};
use domain::base::message_builder::{HashCompressor, StaticCompressor, TreeCompressor};
use domain::base::name::{FlattenInto, ParsedName, ToName};
use domain::base::opt::Opt;
use domain::base::rdata::{ComposeRecordData, ParseAnyRecordData, ParseRecordData, RecordData, UnknownRecordData};
use domain::base::wire::Composer;
use domain::base::{MessageBuilder, Name, Ttl};
use domain::rdata::*;
use octseq::parse::Parser;
use std::collections::BTreeMap;

mod entry;
mod limits;
mod typed;

pub type NV = Name<Vec<u8>>;
pub type AllV = AllRecordData<Vec<u8>, NV>;
pub type PB = ParsedName<Bytes>;
pub type AllB = AllRecordData<Bytes, PB>;
pub type ZoneB = ZoneRecordData<Bytes, PB>;

//------------ helpers ---------------------------------------------------------

pub fn hex(b: &[u8]) -> String {
    let mut s = String::with_capacity(b.len() * 2);
    for x in b.iter().take(300) {
        s.push_str(&format!("{x:02x}"));
    }
    if b.len() > 300 {
        s.push_str(&format!("…({} octets)", b.len()));
    }
    s
}

/// Type label used in signatures and classes.
pub fn tname(rtype: u16) -> String {
    if rr::schema(rtype).is_some() {
        rr::mnemonic(rtype)
    } else {
        "unknown".to_string()
    }
}

/// `==` of the library, with the two variants for which `AllRecordData`'s
/// `PartialEq` has no arm (known finding of C04) compared through their
/// inner values. For unknown types the record type is part of the value.
pub fn all_eq<O, N, OO, NN>(a: &AllRecordData<O, N>, b: &AllRecordData<OO, NN>) -> bool
where
    O: AsRef<[u8]>,
    OO: AsRef<[u8]>,
    N: ToName,
    NN: ToName,
{
    match (a, b) {
        (AllRecordData::Opt(x), AllRecordData::Opt(y)) => x == y,
        (AllRecordData::Unknown(x), AllRecordData::Unknown(y)) => x.rtype() == y.rtype() && x == y,
        _ => a == b,
    }
}

/// Parses msg[start..end] as RDATA of `rtype` the way the message reader
/// does (sub-parser limited to the RDATA, trailing data is an error).
pub fn parse_region(msg: &Bytes, start: usize, end: usize, rtype: Rtype) -> Result<AllB, String> {
    let mut p = Parser::from_ref(msg);
    p.advance(start).map_err(|_| "harness: start beyond buffer".to_string())?;
    let mut sub = p.parse_parser(end - start).map_err(|_| "harness: end beyond buffer".to_string())?;
    let v = AllB::parse_any_rdata(rtype, &mut sub).map_err(|e| e.to_string())?;
    if sub.remaining() > 0 {
        return Err("trailing data".into());
    }
    Ok(v)
}

pub fn parse_region_zone(msg: &Bytes, start: usize, end: usize, rtype: Rtype) -> Result<ZoneB, String> {
    let mut p = Parser::from_ref(msg);
    p.advance(start).map_err(|_| "harness: start beyond buffer".to_string())?;
    let mut sub = p.parse_parser(end - start).map_err(|_| "harness: end beyond buffer".to_string())?;
    let v = ZoneB::parse_rdata(rtype, &mut sub).map_err(|e| e.to_string())?;
    if sub.remaining() > 0 {
        return Err("trailing data".into());
    }
    v.ok_or_else(|| "declined".to_string())
}

fn go_typed<'a, T>(msg: &'a Bytes, start: usize, end: usize, rtype: Rtype) -> Result<AllB, String>
where
    T: ParseRecordData<'a, Bytes> + Into<AllB>,
{
    let mut p = Parser::from_ref(msg);
    p.advance(start).map_err(|_| "harness".to_string())?;
    // "If the function doesn't want to process the data, it must not touch
    // the parser": a foreign type must be declined without advancing.
    {
        let other = if rtype == Rtype::from_int(4242) { Rtype::from_int(4243) } else { Rtype::from_int(4242) };
        let mut sub = p.parse_parser(end - start).map_err(|_| "harness".to_string())?;
        let before = sub.pos();
        match T::parse_rdata(other, &mut sub) {
            Ok(None) if sub.pos() == before => {}
            Ok(None) => return Err("DECLINE-ADVANCED".into()),
            _ => return Err("FOREIGN-TYPE-NOT-DECLINED".into()),
        }
    }
    let mut p = Parser::from_ref(msg);
    p.advance(start).map_err(|_| "harness".to_string())?;
    let mut sub = p.parse_parser(end - start).map_err(|_| "harness".to_string())?;
    match T::parse_rdata(rtype, &mut sub) {
        Ok(Some(v)) => {
            if sub.remaining() > 0 {
                Err("trailing data".into())
            } else {
                Ok(v.into())
            }
        }
        Ok(None) => Err("DECLINED-OWN-TYPE".into()),
        Err(e) => Err(e.to_string()),
    }
}

/// For the types that have `parse` but no `ParseRecordData` impl.
fn go_fn<T: Into<AllB>>(msg: &Bytes, start: usize, end: usize, f: impl FnOnce(&mut Parser<'_, Bytes>) -> Result<T, domain::base::wire::ParseError>) -> Result<AllB, String> {
    let mut p = Parser::from_ref(msg);
    p.advance(start).map_err(|_| "harness".to_string())?;
    let mut sub = p.parse_parser(end - start).map_err(|_| "harness".to_string())?;
    match f(&mut sub) {
        Ok(v) => {
            if sub.remaining() > 0 {
                Err("trailing data".into())
            } else {
                Ok(v.into())
            }
        }
        Err(e) => Err(e.to_string()),
    }
}

/// Parses through the dedicated type's own `ParseRecordData` impl (or its
/// `parse` function). None for types without a dedicated type.
pub fn parse_region_typed(msg: &Bytes, s: usize, e: usize, rtype: Rtype) -> Option<Result<AllB, String>> {
    Some(match rtype.to_int() {
        rr::A => go_typed::<A>(msg, s, e, rtype),
        rr::NS => go_typed::<Ns<PB>>(msg, s, e, rtype),
        rr::MD => go_typed::<Md<PB>>(msg, s, e, rtype),
        rr::MF => go_typed::<Mf<PB>>(msg, s, e, rtype),
        rr::CNAME => go_typed::<Cname<PB>>(msg, s, e, rtype),
        rr::SOA => go_typed::<Soa<PB>>(msg, s, e, rtype),
        rr::MB => go_typed::<Mb<PB>>(msg, s, e, rtype),
        rr::MG => go_typed::<Mg<PB>>(msg, s, e, rtype),
        rr::MR => go_typed::<Mr<PB>>(msg, s, e, rtype),
        rr::NULL => go_typed::<Null<Bytes>>(msg, s, e, rtype),
        rr::PTR => go_typed::<Ptr<PB>>(msg, s, e, rtype),
        rr::HINFO => go_typed::<Hinfo<Bytes>>(msg, s, e, rtype),
        rr::MINFO => go_typed::<Minfo<PB>>(msg, s, e, rtype),
        rr::MX => go_typed::<Mx<PB>>(msg, s, e, rtype),
        rr::TXT => go_typed::<Txt<Bytes>>(msg, s, e, rtype),
        rr::RP => go_typed::<Rp<PB>>(msg, s, e, rtype),
        rr::AAAA => go_typed::<Aaaa>(msg, s, e, rtype),
        rr::SRV => go_typed::<Srv<PB>>(msg, s, e, rtype),
        rr::NAPTR => go_typed::<Naptr<Bytes, PB>>(msg, s, e, rtype),
        rr::DNAME => go_typed::<Dname<PB>>(msg, s, e, rtype),
        rr::OPT => go_typed::<Opt<Bytes>>(msg, s, e, rtype),
        rr::DS => go_typed::<Ds<Bytes>>(msg, s, e, rtype),
        rr::SSHFP => go_fn(msg, s, e, |p| Sshfp::<Bytes>::parse(p)),
        rr::IPSECKEY => go_fn(msg, s, e, |p| Ipseckey::<Bytes, PB>::parse(p)),
        rr::RRSIG => go_typed::<Rrsig<Bytes, PB>>(msg, s, e, rtype),
        rr::NSEC => go_typed::<Nsec<Bytes, PB>>(msg, s, e, rtype),
        rr::DNSKEY => go_typed::<Dnskey<Bytes>>(msg, s, e, rtype),
        rr::NSEC3 => go_typed::<Nsec3<Bytes>>(msg, s, e, rtype),
        rr::NSEC3PARAM => go_typed::<Nsec3param<Bytes>>(msg, s, e, rtype),
        rr::TLSA => go_fn(msg, s, e, |p| Tlsa::<Bytes>::parse(p)),
        rr::CDS => go_typed::<Cds<Bytes>>(msg, s, e, rtype),
        rr::CDNSKEY => go_typed::<Cdnskey<Bytes>>(msg, s, e, rtype),
        rr::OPENPGPKEY => go_fn(msg, s, e, |p| Openpgpkey::<Bytes>::parse(p)),
        rr::ZONEMD => go_fn(msg, s, e, |p| Zonemd::<Bytes>::parse(p)),
        rr::SVCB => go_typed::<Svcb<Bytes, PB>>(msg, s, e, rtype),
        rr::HTTPS => go_typed::<Https<Bytes, PB>>(msg, s, e, rtype),
        rr::TSIG => go_typed::<Tsig<Bytes, PB>>(msg, s, e, rtype),
        rr::CAA => go_typed::<Caa<Bytes>>(msg, s, e, rtype),
        _ => return None,
    })
}

fn compose_plain<D: ComposeRecordData>(d: &D) -> Vec<u8> {
    let mut v = Vec::new();
    let _ = d.compose_rdata(&mut v);
    v
}
fn compose_canon<D: ComposeRecordData>(d: &D) -> Vec<u8> {
    let mut v = Vec::new();
    let _ = d.compose_canonical_rdata(&mut v);
    v
}

/// Minimal RDATA length of a type by the field table (all variable fields
/// empty, names = root).
pub fn min_len(rtype: u16) -> Option<usize> {
    let fields = rr::schema(rtype)?;
    Some(
        fields
            .iter()
            .map(|f| match *f {
                F::U8 => 1,
                F::U16 => 2,
                F::U32 => 4,
                F::U48 => 6,
                F::Fixed(n) => n,
                F::Name { .. } => 1,
                F::CharStr | F::Len8 => 1,
                F::Len16 => 2,
                F::CaaTag => 2,
                F::CharStrs | F::Rest | F::Bitmap | F::SvcParams | F::IpsecGateway | F::OptOptions => 0,
            })
            .sum(),
    )
}

/// Non-triviality rule (see `Prop.rule`).
pub fn is_nontrivial(rtype: u16, plain: &[u8]) -> bool {
    let Some(fields) = rr::schema(rtype) else { return !plain.is_empty() };
    let only_fixed = fields.iter().all(|f| matches!(f, F::U8 | F::U16 | F::U32 | F::U48 | F::Fixed(_)));
    if only_fixed {
        return plain.iter().any(|&b| b != 0);
    }
    if plain.len() > min_len(rtype).unwrap_or(0) {
        return true;
    }
    rr::name_spans(rtype, plain).iter().any(|&(o, l, _, _)| plain[o..o + l].iter().any(|b| b.is_ascii_uppercase()))
}

//------------ compressing targets ----------------------------------------------

fn direct_on<T, D>(mut t: T, seeds: &[NV], d: &D) -> Result<(Vec<u8>, usize), String>
where
    T: Composer,
    D: ComposeRecordData,
{
    t.append_slice(&[0u8; 12]).map_err(|_| "append".to_string())?;
    for s in seeds {
        t.append_compressed_name(s).map_err(|_| "append".to_string())?;
        t.append_slice(&[0, 1, 0, 1]).map_err(|_| "append".to_string())?;
    }
    let lenpos = t.as_ref().len();
    d.compose_len_rdata(&mut t).map_err(|_| "compose_len_rdata failed".to_string())?;
    Ok((t.as_ref().to_vec(), lenpos))
}

fn builder_on<T, D>(t: T, seeds: &[NV], d: &D) -> Result<Vec<u8>, String>
where
    T: Composer,
    D: ComposeRecordData,
{
    let root = NV::root();
    let mb = MessageBuilder::from_target(t).map_err(|_| "from_target".to_string())?;
    let mut q = mb.question();
    let qn = seeds.first().unwrap_or(&root);
    q.push((qn, Rtype::A)).map_err(|e| format!("question push: {e}"))?;
    let mut a = q.answer();
    // records ahead so that suffixes are known to the compressor
    for s in seeds.iter().skip(1) {
        a.push((s, Class::IN, Ttl::from_secs(1), A::from_octets(192, 0, 2, 9))).map_err(|e| format!("seed push: {e}"))?;
    }
    let owner = seeds.last().unwrap_or(&root);
    a.push((owner, Class::IN, Ttl::from_secs(3600), d)).map_err(|e| format!("PUSH-DATA: {e}"))?;
    a.push((owner, Class::IN, Ttl::from_secs(3600), A::from_octets(192, 0, 2, 1))).map_err(|e| format!("sentinel push: {e}"))?;
    Ok(a.finish().as_ref().to_vec())
}

/// Names used to seed a compressor: the names embedded in `plain` (so that
/// compression actually happens), parents and case variants of them, and a
/// few pool names.
fn seed_names(rtype: u16, plain: &[u8], pool: &[Labels], u: &mut Unstructured) -> Vec<NV> {
    let mut out: Vec<Labels> = vec![];
    for (o, l, _, _) in rr::name_spans(rtype, plain) {
        if let Some(n) = gn::from_wire(&plain[o..o + l]) {
            match pick(u, 5) {
                0 => out.push(n),
                1 => out.push(gn::swap_case(&n, u)),
                2 => {
                    let mut p = n.clone();
                    if !p.is_empty() {
                        p.remove(0);
                    }
                    out.push(p);
                }
                3 => {
                    // sibling sharing the parent
                    let mut p = n.clone();
                    if !p.is_empty() {
                        p[0] = b"sib".to_vec();
                    }
                    if gn::wire_len(&p) <= 255 {
                        out.push(p);
                    }
                }
                _ => {}
            }
        }
    }
    if !pool.is_empty() {
        for _ in 0..pick(u, 3) {
            out.push(pool[pick(u, pool.len())].clone());
        }
    }
    out.truncate(6);
    out.iter().map(gn::to_name).collect()
}

/// Checks one value on the three compressing targets, directly and through
/// `MessageBuilder`.
fn check_compressing<O, N>(
    tn: &str,
    rtype: u16,
    v: &AllRecordData<O, N>,
    plain: &[u8],
    pool: &[Labels],
    u: &mut Unstructured,
    ctx: &mut Ctx,
) -> CaseResult
where
    O: AsRef<[u8]>,
    N: ToName,
{
    let seeds = seed_names(rtype, plain, pool, u);
    let which = pick(u, 3);
    let rt = Rtype::from_int(rtype);
    let rdlen_c = v.rdlen(true);
    if let Some(n) = rdlen_c {
        vensure!(usize::from(n) == plain.len(), format!("rdlen:{tn}:compress-some-differs-from-plain"), "rdlen(true) = Some({n}) but plain composition has {} octets", plain.len());
    }
    // (1) compose_len_rdata directly on a compressing target
    // entry point dimension (read after everything older so that existing
    // replay files decode as before): data handed over as T, &T or &&T, the
    // target as X or as &mut X (blanket impls `ComposeRecordData for &T`,
    // `Composer for &mut T`)
    let epd = pick(u, 3);
    let mt = flag(u);
    ctx.class(["entry:data-by-value", "entry:data-by-ref", "entry:data-by-refref"][epd]);
    if mt {
        ctx.class("entry:target-by-mutref");
    }
    macro_rules! with_data {
        ($f:ident, $t:expr) => {
            match epd {
                0 => $f($t, &seeds, v),
                1 => $f($t, &seeds, &v),
                _ => $f($t, &seeds, &&v),
            }
        };
    }
    macro_rules! with_target {
        ($f:ident) => {
            match (which, mt) {
                (0, false) => with_data!($f, StaticCompressor::new(Vec::new())),
                (1, false) => with_data!($f, TreeCompressor::new(Vec::new())),
                (_, false) => with_data!($f, HashCompressor::new(Vec::new())),
                (0, true) => {
                    let mut c = StaticCompressor::new(Vec::new());
                    with_data!($f, &mut c)
                }
                (1, true) => {
                    let mut c = TreeCompressor::new(Vec::new());
                    with_data!($f, &mut c)
                }
                (_, true) => {
                    let mut c = HashCompressor::new(Vec::new());
                    with_data!($f, &mut c)
                }
            }
        };
    }
    {
        let mut c = StaticCompressor::new(Vec::new());
        vensure!(Composer::can_compress(&&mut c), "entry:mutref-compressor-cannot-compress", "&mut StaticCompressor reports can_compress() == false");
    }
    let r = with_target!(direct_on);
    let cname = ["static", "tree", "hash"][which];
    let (buf, lenpos) = match r {
        Ok(x) => x,
        Err(e) => vfail!(format!("compress:{tn}:compose-failed"), "{cname}: {e}"),
    };
    let adv = u16::from_be_bytes([buf[lenpos], buf[lenpos + 1]]) as usize;
    let written = buf.len() - lenpos - 2;
    vensure!(adv == written, format!("compose_len_rdata:{tn}:prefix-differs-on-compressor"), "{cname}compressor: length prefix {adv}, {written} octets written; value {v:?}", v = hex(plain));
    if let Some(n) = rdlen_c {
        vensure!(usize::from(n) == written, format!("rdlen:{tn}:compress-some-differs"), "rdlen(true) = Some({n}) but {written} octets written on {cname} compressor");
    }
    let (s, e) = (lenpos + 2, buf.len());
    match rr::normal_rdata(rtype, &buf, s, e, false) {
        Ok((norm, fl)) => {
            if fl.pointers > 0 {
                ctx.class("compressed-on-target");
                ctx.class(format!("compressed:{tn}"));
            }
            vensure!(norm.len() == plain.len() && norm.eq_ignore_ascii_case(plain), format!("compress:{tn}:decompressed-differs"), "{cname}: decompressed RDATA {} differs from plain composition {}", hex(&norm), hex(plain));
        }
        Err(err) => {
            // the walker is stricter than the library for a few forms; it
            // already rejects the plain composition then
            if rr::normal_rdata(rtype, plain, 0, plain.len(), false).is_ok() {
                vfail!(format!("compress:{tn}:walker-rejects-compressed"), "{cname}: independent walker rejects the composed RDATA ({err:?}) but accepts the plain form; buf {}", hex(&buf[s..e]));
            }
        }
    }
    let bb = Bytes::from(buf);
    match parse_region(&bb, s, e, rt) {
        Ok(v2) => vensure!(all_eq(v, &v2), format!("compress:{tn}:reparsed-differs"), "{cname}: value parsed from the compressing target differs; plain {}", hex(plain)),
        Err(err) => vfail!(format!("compress:{tn}:reparse-fails"), "{cname}: {err}; region {}", hex(&bb[s..e])),
    }
    // (2) through MessageBuilder (record header + back-patched RDLENGTH)
    let r = with_target!(builder_on);
    let msg = match r {
        Ok(m) => m,
        Err(e) => vfail!(format!("builder:{tn}:push-failed"), "{cname}: {e}"),
    };
    let w = wire::walk(&msg).ok_or_else(|| Violation::new(format!("builder:{tn}:not-a-message"), "short"))?;
    vensure!(w.error.is_none(), format!("builder:{tn}:walker-error"), "{cname}: message does not walk: {:?}; {}", w.error, hex(&msg));
    let n = w.records.len();
    vensure!(n >= 2, format!("builder:{tn}:record-count"), "records {n}");
    let (rec, sentinel) = (&w.records[n - 2], &w.records[n - 1]);
    vensure!(
        rec.rtype == rtype && sentinel.rtype == 1 && &msg[sentinel.rd_start..sentinel.rd_end] == &[192, 0, 2, 1] && sentinel.rd_end == msg.len(),
        format!("builder:{tn}:rdlength-wrong"),
        "{cname}: RDLENGTH of the pushed record does not lead to the following record; {}",
        hex(&msg)
    );
    if let Ok((norm, _)) = wire::rdata_normal(&msg, rec) {
        vensure!(norm.len() == plain.len() && norm.eq_ignore_ascii_case(plain), format!("builder:{tn}:decompressed-differs"), "{cname}: {} vs {}", hex(&norm), hex(plain));
    }
    let (s, e) = (rec.rd_start, rec.rd_end);
    let bb = Bytes::from(msg);
    match parse_region(&bb, s, e, rt) {
        Ok(v2) => vensure!(all_eq(v, &v2), format!("builder:{tn}:reparsed-differs"), "{cname}: value parsed from the built message differs; plain {}", hex(plain)),
        Err(err) => vfail!(format!("builder:{tn}:reparse-fails"), "{cname}: {err}"),
    }
    Ok(())
}

//------------ the value oracle --------------------------------------------------

/// Everything the statement says about one value. Returns the plain
/// (uncompressed) composition.
pub fn check_value<O, N>(
    rtype: u16,
    v: &AllRecordData<O, N>,
    pool: &[Labels],
    u: &mut Unstructured,
    ctx: &mut Ctx,
) -> Result<Vec<u8>, Violation>
where
    O: AsRef<[u8]>,
    N: ToName,
{
    let tn = tname(rtype);
    let rt = Rtype::from_int(rtype);
    vensure!(v.rtype() == rt, format!("rtype:{tn}:value-reports-other-type"), "value for type {rtype} reports rtype {}", v.rtype());
    let plain = compose_plain(v);
    vensure!(plain.len() <= 65535, format!("compose:{tn}:longer-than-65535"), "compose_rdata wrote {} octets", plain.len());
    // advertised lengths
    match v.rdlen(false) {
        Some(n) => vensure!(usize::from(n) == plain.len(), format!("rdlen:{tn}:differs-from-composed"), "rdlen(false) = {n}, compose_rdata wrote {} octets: {}", plain.len(), hex(&plain)),
        None => ctx.class(format!("rdlen-none:{tn}")),
    }
    {
        let mut t = vec![0xAAu8; 3];
        let _ = v.compose_len_rdata(&mut t);
        vensure!(t.len() >= 5, format!("compose_len_rdata:{tn}:no-prefix"), "nothing written");
        let adv = u16::from_be_bytes([t[3], t[4]]) as usize;
        vensure!(adv == t.len() - 5, format!("compose_len_rdata:{tn}:prefix-differs"), "length prefix {adv}, {} octets written", t.len() - 5);
        vensure!(t[5..] == plain[..] && t[..3] == [0xAA; 3], format!("compose_len_rdata:{tn}:octets-differ"), "compose_len_rdata wrote {} but compose_rdata {}", hex(&t[5..]), hex(&plain));
    }
    // canonical form
    let canon = compose_canon(v);
    {
        let mut t = Vec::new();
        let _ = v.compose_canonical_len_rdata(&mut t);
        vensure!(t.len() >= 2 && u16::from_be_bytes([t[0], t[1]]) as usize == t.len() - 2 && t[2..] == canon[..], format!("compose_canonical_len_rdata:{tn}:prefix-or-octets-differ"), "{} vs canonical {}", hex(&t), hex(&canon));
    }
    match rr::canonical_rdata(rtype, &plain) {
        Ok(want) => {
            vensure!(canon == want, format!("canonical:{tn}:differs-from-rfc4034"), "compose_canonical_rdata {} but RFC 4034 §6.2 / RFC 6840 §5.1 form of the wire form {} is {}", hex(&canon), hex(&plain), hex(&want));
            if want != plain {
                ctx.class("canonical-lowercased");
                ctx.class(format!("canonical-lowercased:{tn}"));
            } else if plain.iter().any(|b| b.is_ascii_uppercase()) && !rr::name_spans(rtype, &plain).is_empty() {
                ctx.class("canonical-identical-with-uppercase");
            }
        }
        Err(e) => {
            // library accepted a form the strict walker does not (e.g.
            // unordered type bitmap windows): fall back to the spans that can
            // be located
            ctx.class(format!("walker-rejects-composed:{tn}:{e:?}"));
            vensure!(canon.len() == plain.len() && canon.eq_ignore_ascii_case(&plain), format!("canonical:{tn}:differs-beyond-case"), "{} vs {}", hex(&canon), hex(&plain));
        }
    }
    // the same through the by-reference entry points (blanket impls for &T)
    entry::check_entry_points(&tn, rtype, v, &plain, &canon, pool, ctx)?;
    // compose -> parse -> equal, and identical re-composition
    let bb = Bytes::from(plain.clone());
    let v2 = match parse_region(&bb, 0, bb.len(), rt) {
        Ok(v2) => v2,
        Err(e) => vfail!(format!("roundtrip:{tn}:composed-does-not-parse"), "composition {} is rejected by the parser: {e}", hex(&plain)),
    };
    vensure!(all_eq(v, &v2), format!("roundtrip:{tn}:reparsed-differs"), "value differs after compose -> parse; composition {}; reparsed composes to {}", hex(&plain), hex(&compose_plain(&v2)));
    vensure!(all_eq(&v2, v), format!("roundtrip:{tn}:eq-not-symmetric"), "reparsed == value but not value == reparsed");
    let plain2 = compose_plain(&v2);
    vensure!(plain2 == plain, format!("roundtrip:{tn}:recomposition-differs"), "{} then {}", hex(&plain), hex(&plain2));
    vensure!(compose_canon(&v2) == canon, format!("roundtrip:{tn}:canonical-recomposition-differs"), "canonical form changes after a round trip");
    vensure!(v2.rtype() == rt, format!("rtype:{tn}:changed-by-roundtrip"), "{} -> {}", rt, v2.rtype());
    // the dedicated type's own parser and the zone enum agree with the enum
    // dispatch
    match parse_region_typed(&bb, 0, bb.len(), rt) {
        Some(Ok(v3)) => vensure!(all_eq(&v2, &v3) && compose_plain(&v3) == plain, format!("dispatch:{tn}:typed-parse-differs"), "T::parse_rdata and AllRecordData::parse_any_rdata give different values for {}", hex(&plain)),
        Some(Err(e)) => vfail!(format!("dispatch:{tn}:typed-parse-rejects"), "T::parse_rdata rejects what AllRecordData accepted: {e}; {}", hex(&plain)),
        None => {
            vensure!(matches!(v2, AllRecordData::Unknown(_)), format!("dispatch:{tn}:not-unknown"), "type without a dedicated type did not become Unknown");
        }
    }
    match parse_region_zone(&bb, 0, bb.len(), rt) {
        Ok(z) => {
            vensure!(z.rtype() == rt, format!("dispatch:{tn}:zone-rtype"), "zone enum reports {}", z.rtype());
            vensure!(compose_plain(&z) == plain && compose_canon(&z) == canon, format!("dispatch:{tn}:zone-parse-differs"), "ZoneRecordData composes {} for {}", hex(&compose_plain(&z)), hex(&plain));
            if let Some(n) = z.rdlen(false) {
                vensure!(usize::from(n) == plain.len(), format!("rdlen:{tn}:zone-differs"), "zone enum rdlen {n}");
            }
            let is_zone_type = rr::ZONE_TYPES.contains(&rtype);
            vensure!(matches!(z, ZoneRecordData::Unknown(_)) != is_zone_type, format!("dispatch:{tn}:zone-variant"), "zone type {is_zone_type} but Unknown variant {}", matches!(z, ZoneRecordData::Unknown(_)));
        }
        Err(e) => {
            // zone enum treats non-zone types (NULL, OPT, TSIG) as opaque; an
            // opaque carrier must accept everything
            vfail!(format!("dispatch:{tn}:zone-parse-rejects"), "ZoneRecordData rejects {}: {e}", hex(&plain));
        }
    }
    // conversions keep the value
    {
        let flat: Result<AllV, _> = v2.clone().try_flatten_into();
        match flat {
            Ok(f) => {
                vensure!(all_eq(&f, &v2) && compose_plain(&f) == plain, format!("convert:{tn}:flatten-differs"), "flatten_into changes the value");
                let conv: Result<AllRecordData<Bytes, Name<Bytes>>, _> = octseq::octets::OctetsFrom::try_octets_from(f);
                match conv {
                    Ok(c) => vensure!(all_eq(&c, &v2) && compose_plain(&c) == plain && c.rtype() == rt, format!("convert:{tn}:octets_from-differs"), "OctetsFrom changes the value"),
                    Err(_) => vfail!(format!("convert:{tn}:octets_from-fails"), "try_octets_from to Bytes failed"),
                }
            }
            Err(_) => vfail!(format!("convert:{tn}:flatten-fails"), "try_flatten_into to Vec failed"),
        }
    }
    // compressing targets (positions must stay below 0x4000: pointer range,
    // C02's business above that)
    if plain.len() < 12_000 {
        check_compressing(&tn, rtype, v, &plain, pool, u, ctx)?;
    }
    // sub-structures with their own codecs
    match v {
        AllRecordData::Opt(o) => typed::check_opt_options(o.for_slice_ref(), false, ctx)?,
        AllRecordData::Svcb(s) => typed::check_svc_params(s.params().as_slice(), ctx)?,
        AllRecordData::Https(s) => typed::check_svc_params(s.params().as_slice(), ctx)?,
        _ => {}
    }
    ctx.class(format!("ok:{tn}"));
    if is_nontrivial(rtype, &plain) {
        ctx.class(format!("nt:{tn}"));
    }
    Ok(plain)
}

//------------ wire: generator-made RDATA, embedded, optionally mutated ---------

const UNKNOWN_TYPES: [u16; 9] = [99, 258, 1234, 65280, 65534, 32768, 11, 18, 40];

pub fn pick_rtype(u: &mut Unstructured) -> u16 {
    let n = rr::ALL_TYPES.len();
    let i = pick(u, n + 3);
    if i < n {
        rr::ALL_TYPES[i]
    } else {
        UNKNOWN_TYPES[pick(u, UNKNOWN_TYPES.len())]
    }
}

struct Scratch {
    msg: Vec<u8>,
    start: usize,
    end: usize,
}

/// header + a few names (pointer targets) + RDATA + sentinel octets.
fn embed(u: &mut Unstructured, rtype: u16, rd: &[u8], pool: &[Labels], compress: bool, nonwk: bool) -> Scratch {
    let mut w = gm::Writer { buf: vec![0u8; 12], seen: vec![], layout: gm::Layout::default() };
    let k = 1 + pick(u, 3);
    for _ in 0..k {
        let n = pool[pick(u, pool.len())].clone();
        w.name(u, &n, compress);
        w.buf.extend_from_slice(&[0, 1, 0, 1]);
    }
    let lenpos = w.buf.len();
    w.rdata(u, rtype, rd, compress, nonwk);
    let start = lenpos + 2;
    let end = w.buf.len();
    // octets behind the RDATA: an over-read must not go unnoticed
    w.buf.extend_from_slice(b"\x03end\x00\x01\xff\x00");
    Scratch { msg: w.buf, start, end }
}

fn mutate(u: &mut Unstructured, s: &mut Scratch, tags: &mut Vec<&'static str>) {
    let n = 1 + pick(u, 2);
    for _ in 0..n {
        let len = s.end - s.start;
        match pick(u, 10) {
            0 if len > 0 => {
                let i = s.start + pick(u, len);
                s.msg[i] ^= 1 << pick(u, 8);
                tags.push("m:bitflip");
            }
            1 if len > 0 => {
                let i = s.start + pick(u, len);
                s.msg[i] = [0u8, 1, 63, 64, 0xC0, 0xFF, 255, 2][pick(u, 8)];
                tags.push("m:length-like");
            }
            2 if len > 0 => {
                let i = s.start + pick(u, len);
                s.msg[i] = if flag(u) { s.msg[i].wrapping_add(1) } else { s.msg[i].wrapping_sub(1) };
                tags.push("m:plus-minus-one");
            }
            3 if len > 0 => {
                let k = 1 + pick(u, len.min(6));
                s.end -= k;
                tags.push("m:truncated");
            }
            4 => {
                let k = 1 + pick(u, 6);
                s.end = (s.end + k).min(s.msg.len());
                tags.push("m:extended");
            }
            5 => {
                let i = s.start + pick(u, len + 1);
                let k = 1 + pick(u, 4);
                for _ in 0..k {
                    s.msg.insert(i, byte(u));
                }
                s.end += k;
                tags.push("m:inserted");
            }
            6 if len > 1 => {
                let i = s.start + pick(u, len);
                s.msg.remove(i);
                s.end -= 1;
                tags.push("m:deleted");
            }
            7 if len >= 2 => {
                let i = s.start + pick(u, len - 1);
                let t = pick(u, s.start.min(0x3FFF));
                s.msg[i..i + 2].copy_from_slice(&(0xC000u16 | t as u16).to_be_bytes());
                tags.push("m:pointer-planted");
            }
            8 if len > 0 => {
                // set to the number of octets that follow
                let i = s.start + pick(u, len);
                s.msg[i] = (s.end - i - 1).min(255) as u8;
                tags.push("m:length-to-end");
            }
            _ => {
                if len > 0 {
                    let i = s.start + pick(u, len);
                    s.msg[i] = byte(u);
                    tags.push("m:byte-set");
                }
            }
        }
    }
}

fn run_wire(data: &[u8], ctx: &mut Ctx) -> CaseResult {
    let mut u = Unstructured::new(data);
    let rtype = pick_rtype(&mut u);
    let plain_names = chance(&mut u, 64);
    let np = 2 + pick(&mut u, 4);
    let pool = gn::pool(&mut u, np, plain_names);
    let max_blob = match pick(&mut u, 8) {
        0 => 0,
        1..=5 => 40,
        6 => 300,
        _ => {
            if ctx.thorough {
                9000
            } else {
                1500
            }
        }
    };
    let rd = grd::rdata(&mut u, rtype, &pool, grd::Opts { plain_names, max_blob });
    let compress = flag(&mut u);
    let nonwk = compress && chance(&mut u, 80);
    let mut s = embed(&mut u, rtype, &rd, &pool, compress, nonwk);
    let mut tags: Vec<&'static str> = vec![];
    let mutated = chance(&mut u, 90);
    if mutated {
        mutate(&mut u, &mut s, &mut tags);
    }
    run_region(rtype, s, Some(&rd), mutated, &tags, &pool, &mut u, ctx)
}

#[allow(clippy::too_many_arguments)]
fn run_region(
    rtype: u16,
    s: Scratch,
    generated: Option<&[u8]>,
    mutated: bool,
    tags: &[&'static str],
    pool: &[Labels],
    u: &mut Unstructured,
    ctx: &mut Ctx,
) -> CaseResult {
    let tn = tname(rtype);
    let rt = Rtype::from_int(rtype);
    for t in tags {
        ctx.class(*t);
    }
    ctx.class(if generated.is_none() {
        "raw"
    } else if mutated {
        "mutated"
    } else {
        "valid"
    });
    if std::env::var_os("VERIF_DEBUG").is_some() {
        eprintln!("type {rtype} region {}..{} of {}", s.start, s.end, hex(&s.msg));
    }
    let region = s.msg[s.start..s.end].to_vec();
    let walker = rr::normal_rdata(rtype, &s.msg, s.start, s.end, false);
    if let (Some(rd), false) = (generated, mutated) {
        // self-check of generator + writer + walker
        match &walker {
            Ok((norm, _)) if &norm[..] == rd => {}
            other => vfail!("harness:generator-walker-disagree", "type {rtype}: generated {} embedded {} walker {:?}", hex(rd), hex(&region), other.as_ref().map(|x| hex(&x.0))),
        }
    }
    if let Ok((_, fl)) = &walker {
        if fl.pointers > 0 {
            ctx.class("input-compressed");
            ctx.class(format!("input-compressed:{tn}"));
        }
    }
    let bb = Bytes::from(s.msg.clone());
    let parsed = parse_region(&bb, s.start, s.end, rt);
    // the dedicated type's parser and the enum dispatch must agree on
    // acceptance for the very same octets
    if let Some(tp) = parse_region_typed(&bb, s.start, s.end, rt) {
        match (&parsed, &tp) {
            (Ok(a), Ok(b)) => vensure!(all_eq(a, b), format!("dispatch:{tn}:typed-parse-differs"), "region {}", hex(&region)),
            (Err(_), Err(e)) if !e.contains("DECLINE") && !e.contains("FOREIGN") => {}
            (a, b) => vfail!(format!("dispatch:{tn}:typed-parse-acceptance-differs"), "enum {:?} typed {:?} for {}", a.as_ref().map(|_| "ok"), b.as_ref().map(|_| "ok"), hex(&region)),
        }
    }
    // zone enum: same acceptance for zone types, opaque for all others
    {
        let z = parse_region_zone(&bb, s.start, s.end, rt);
        if rr::ZONE_TYPES.contains(&rtype) {
            vensure!(z.is_ok() == parsed.is_ok(), format!("dispatch:{tn}:zone-acceptance-differs"), "zone {:?} all {:?} for {}", z.as_ref().map(|_| "ok"), parsed.as_ref().map(|_| "ok"), hex(&region));
        } else {
            match z {
                Ok(ZoneRecordData::Unknown(d)) => {
                    vensure!(d.rtype() == rt && d.data().as_ref() == &region[..] && compose_plain(&d) == region, format!("opaque:{tn}:zone-unknown-changed"), "zone enum changed opaque data {}", hex(&region));
                    ctx.class("zone-opaque");
                }
                Ok(_) => vfail!(format!("dispatch:{tn}:zone-variant"), "non-zone type parsed into a typed zone variant"),
                Err(e) => vfail!(format!("opaque:{tn}:zone-unknown-rejects"), "ZoneRecordData rejects opaque data: {e}"),
            }
        }
    }
    // UnknownRecordData itself carries any region unchanged (RFC 3597)
    {
        let mut p = Parser::from_ref(&bb);
        let _ = p.advance(s.start);
        let mut sub = p.parse_parser(s.end - s.start).map_err(|_| Violation::new("harness:region", "region"))?;
        match UnknownRecordData::parse_any_rdata(rt, &mut sub) {
            Ok(d) => {
                vensure!(d.rtype() == rt && d.data().as_ref() == &region[..] && compose_plain(&d) == region && compose_canon(&d) == region && d.rdlen(true) == Some(region.len() as u16) && sub.remaining() == 0, format!("opaque:unknown-record-data-changed"), "UnknownRecordData changed {}", hex(&region));
            }
            Err(e) => vfail!("opaque:unknown-record-data-rejects", "{e}"),
        }
    }
    let v = match parsed {
        Ok(v) => v,
        Err(e) => {
            if generated.is_some() && !mutated {
                ctx.class(format!("lib-rejects-valid:{tn}"));
                ctx.sample(|| format!("lib-rejects-valid type {rtype}: {e}: {}", hex(&region)));
            } else if walker.is_ok() {
                ctx.class(format!("lib-rejects-walker-accepts:{tn}"));
            }
            ctx.class("rejected");
            return Ok(());
        }
    };
    ctx.class("accepted");
    if mutated {
        ctx.class("mutated-accepted");
    }
    if rr::schema(rtype).is_none() {
        // unknown type: opaque and unchanged
        match &v {
            AllRecordData::Unknown(d) => {
                vensure!(d.rtype() == rt && d.data().as_ref() == &region[..], "opaque:all-unknown-changed", "AllRecordData::Unknown changed type {rtype} data {}", hex(&region));
            }
            _ => vfail!("dispatch:unknown:typed-variant", "type {rtype} without dedicated type parsed into a typed variant"),
        }
    }
    let plain = check_value(rtype, &v, pool, u, ctx)?;
    match &walker {
        Ok((norm, _)) => {
            if &plain == norm {
                ctx.class("byte-exact");
            } else {
                ctx.class(format!("normalised:{tn}"));
                ctx.sample(|| format!("normalised type {rtype}: in {} out {}", hex(norm), hex(&plain)));
            }
        }
        Err(e) => {
            ctx.class(format!("lib-accepts-walker-rejects:{tn}:{}", match e {
                rr::WalkErr::Short => "short".to_string(),
                rr::WalkErr::BadName(w) => format!("name-{w}"),
                rr::WalkErr::Form(w) => (*w).to_string(),
                rr::WalkErr::Trailing => "trailing".to_string(),
            }));
        }
    }
    if rr::schema(rtype).is_none() {
        vensure!(plain == region, "opaque:unknown-recomposed-differs", "unknown type {rtype}: {} recomposed as {}", hex(&region), hex(&plain));
        ctx.class("unknown-type-roundtrip");
    }
    if is_nontrivial(rtype, &plain) {
        ctx.nontrivial(&(rtype, &plain, "parsed"));
        ctx.sample(|| format!("type {} {}: in {} -> composed {}", rtype, tags.join(","), hex(&region), hex(&plain)));
    }
    Ok(())
}

/// Raw entry: 2 octets type selector, 1 octet prefix selector, rest RDATA.
/// Also the coverage-guided target's entry point.
pub fn run_raw(data: &[u8], ctx: &mut Ctx) -> CaseResult {
    if data.len() < 3 {
        return Ok(());
    }
    let sel = u16::from_be_bytes([data[0], data[1]]);
    let n = rr::ALL_TYPES.len();
    let rtype = if (sel as usize % (n + 4)) < n { rr::ALL_TYPES[sel as usize % (n + 4)] } else { sel };
    // fixed prefix with names so that pointers have a target
    let mut msg = vec![0u8; 12];
    msg.extend_from_slice(b"\x07example\x03com\x00");
    msg.extend_from_slice(b"\x03WWW\xc0\x0c");
    msg.extend_from_slice(&[0; 1]);
    let start = msg.len();
    msg.extend_from_slice(&data[3..]);
    let end = msg.len();
    msg.extend_from_slice(b"\x03end\x00");
    let pool: Vec<Labels> = vec![vec![b"example".to_vec(), b"com".to_vec()], vec![]];
    let mut u = Unstructured::new(&data[2..3]);
    run_region(rtype, Scratch { msg, start, end }, None, false, &[], &pool, &mut u, ctx)
}

pub fn fuzz_one(data: &[u8]) {
    let known = std::sync::Arc::new(load_known());
    let props = vec![prop().unwrap()];
    fuzz_entry(&props, "C05", "raw", data, &known);
}

//------------ health -----------------------------------------------------------

fn health(c: &BTreeMap<String, u64>, _t: bool) -> Result<(), String> {
    let get = |k: &str| c.get(k).copied().unwrap_or(0);
    for t in rr::ALL_TYPES {
        let tn = rr::mnemonic(*t);
        for pre in ["nt:", "ok:", "typed:"] {
            if get(&format!("{pre}{tn}")) < 20 {
                return Err(format!("class {pre}{tn} starved ({})", get(&format!("{pre}{tn}"))));
            }
        }
    }
    for k in [
        "nt:unknown",
        "unknown-type-roundtrip",
        "valid",
        "mutated",
        "raw",
        "mutated-accepted",
        "rejected",
        "byte-exact",
        "input-compressed",
        "compressed-on-target",
        "canonical-lowercased",
        "canonical-identical-with-uppercase",
        "zone-opaque",
        "limit:at-65535",
        "limit:over-rejected",
        "opt-option-roundtrip",
        "svcparam-roundtrip",
        "txtbuilder",
        "bitmapbuilder",
        "svcparamsbuilder",
        "optbuilder",
        "entry-points",
        "entry:byref-canonical-lowercased",
        "entry:data-by-ref",
        "entry:data-by-refref",
        "entry:target-by-mutref",
    ] {
        if get(k) < 20 {
            return Err(format!("class {k} starved ({})", get(k)));
        }
    }
    // every type whose canonical form differs from the wire form must have
    // been seen lower-cased, and compression must have happened for the
    // RFC 1035 types
    for t in rr::ALL_TYPES {
        let Some(f) = rr::schema(*t) else { continue };
        let tn = rr::mnemonic(*t);
        if f.iter().any(|x| matches!(x, F::Name { lower: true, .. })) && get(&format!("canonical-lowercased:{tn}")) < 5 {
            return Err(format!("canonical-lowercased:{tn} starved"));
        }
        if f.iter().any(|x| matches!(x, F::Name { wk: true, .. })) && (get(&format!("compressed:{tn}")) < 5 || get(&format!("input-compressed:{tn}")) < 5) {
            return Err(format!("compressed:{tn} / input-compressed:{tn} starved"));
        }
    }
    Ok(())
}

pub fn prop() -> Option<Prop> {
    Some(Prop {
        id: "C05",
        rule: "case = (record type, value) where the value comes from parsing generator-made / mutated / raw RDATA (counted only when the parser accepted) or from a public constructor or builder; non-trivial = a variable-length field is non-empty (RDATA longer than the type's minimum) or an embedded name has an upper-case letter (types with only fixed fields: some octet non-zero); distinct by (origin: parsed / constructed / limit, type, composed RDATA)",
        assumptions: &[
            "equal value = the library's == (names compare case-insensitively), strengthened by identical re-composition; AllRecordData::Opt/Unknown compared through their inner values because AllRecordData's PartialEq has no arm for them (C04)",
            "independent field table refimpl::rdata for the generator, for decompression and for the RFC 4034 §6.2 / RFC 6840 §5.1 canonical form",
            "compressing targets are kept below 0x4000 octets (pointer range is C02's subject); buffers with compressed names are at most 65535 octets",
        ],
        subchecks: vec![
            SubCheck::new("wire", run_wire, 280_000, 2_400_000, 1200),
            SubCheck::new("raw", run_raw, 100_000, 1_500_000, 300),
            SubCheck::new("typed", typed::run_typed, 220_000, 2_000_000, 1200),
            SubCheck::new("limits", limits::run_limits, 5_000, 40_000, 64),
        ],
        health: Some(health),
        extra: None,
    })
}
