//! Values at the 65535-octet RDLENGTH limit. A constructor that would make
//! a value whose wire form exceeds the limit must reject it; if a value can
//! be made nevertheless, composing it must not panic and must not write a
//! length that differs from the octets written.
use super::*;
use domain::base::charstr::CharStr;
use domain::base::iana::{
    DigestAlgorithm, IpseckeyAlgorithm, OptionCode, SecurityAlgorithm, SshfpAlgorithm, SshfpType, SvcParamKey, TlsaCertificateUsage, TlsaMatchingType, TlsaSelector, TsigRcode,
    ZonemdAlgorithm, ZonemdScheme,
};
use domain::base::opt::{self, UnknownOptData};
use domain::base::Serial;
use domain::rdata::dnssec::Timestamp;
use domain::rdata::ipseckey::IpseckeyGateway;
use domain::rdata::rfc1035::TxtBuilder;
use domain::rdata::svcb::{SvcParams, UnknownSvcParam};
use domain::rdata::tsig::Time48;

const DELTAS: [i64; 8] = [0, 1, -1, 2, -2, 300, -300, 5000];

fn fill(n: usize, seed: u8) -> Vec<u8> {
    (0..n).map(|i| (i as u8).wrapping_mul(31).wrapping_add(seed)).collect()
}

enum Out {
    /// constructor returned its error
    Rejected,
    Value(AllV),
}

/// What a value that exists although its wire form is too long does when
/// it is composed.
fn overlong_behaviour(tn: &str, v: &AllV, total: usize) -> CaseResult {
    let r = guarded("overlong", || {
        let l = v.rdlen(false);
        let mut t = Vec::new();
        let r = v.compose_len_rdata(&mut t);
        (l, r.is_ok(), t)
    });
    match r {
        Err(p) => Err(Violation::new(format!("limits:{tn}:overlong-value-panics"), format!("a value whose wire form has {total} octets was constructed; composing it panics: {}", p.detail))),
        Ok((l, ok, t)) => {
            if ok && t.len() >= 2 {
                let adv = u16::from_be_bytes([t[0], t[1]]) as usize;
                vensure!(adv == t.len() - 2, format!("limits:{tn}:overlong-value-wrong-length"), "value of {total} octets composes with length prefix {adv} and {} octets (rdlen {l:?})", t.len() - 2);
            }
            Ok(())
        }
    }
}

pub fn run_limits(data: &[u8], ctx: &mut Ctx) -> CaseResult {
    let mut u = Unstructured::new(data);
    const KINDS: usize = 26;
    // plain modulo (not `pick`) so that replay files stay valid when kinds
    // are added
    let kind = byte(&mut u) as usize % KINDS;
    let delta = DELTAS[byte(&mut u) as usize % DELTAS.len()];
    let seed = byte(&mut u);
    let name_l: Labels = match pick(&mut u, 3) {
        0 => vec![],
        1 => vec![b"Example".to_vec(), b"COM".to_vec()],
        _ => gn::name_with_len(&mut u, 255, false),
    };
    let name = gn::to_name(&name_l);
    let nl = gn::wire_len(&name_l);
    // total wire length aimed at
    let total = (65535i64 + delta) as usize;
    let sa = SecurityAlgorithm::from_int(8);
    let (tn, rtype, out): (&str, u16, Out) = match kind {
        0 => ("NULL", rr::NULL, Null::from_octets(fill(total, seed)).map(|d| Out::Value(d.into())).unwrap_or(Out::Rejected)),
        1 => ("unknown", 65280, UnknownRecordData::from_octets(Rtype::from_int(65280), fill(total, seed)).map(|d| Out::Value(d.into())).unwrap_or(Out::Rejected)),
        2 => {
            // text of n octets encodes as n + ceil(n/255)
            let n = (65279i64 + delta) as usize;
            let t: Result<Txt<Vec<u8>>, _> = Txt::build_from_slice(&fill(n, seed));
            let enc = n + n.div_ceil(255);
            return finish("TXT", rr::TXT, t.map(|d| Out::Value(d.into())).unwrap_or(Out::Rejected), enc, &mut u, ctx);
        }
        3 => {
            let mut b = TxtBuilder::<Vec<u8>>::new();
            let full = CharStr::from_octets(fill(255, seed)).unwrap();
            let mut failed = false;
            for _ in 0..255 {
                if b.append_charstr(&full).is_err() {
                    failed = true;
                }
            }
            let r = (254i64 + delta).clamp(0, 255) as usize;
            let enc = 255 * 256 + 1 + r;
            let last = CharStr::from_octets(fill(r, seed)).unwrap();
            if b.append_charstr(&last).is_err() {
                failed = true;
            }
            let out = if failed { Out::Rejected } else { b.finish().map(|d| Out::Value(d.into())).unwrap_or(Out::Rejected) };
            return finish("TXT", rr::TXT, out, enc, &mut u, ctx);
        }
        4 => {
            // TxtBuilder::append_slice in pieces
            let n = (65279i64 + delta) as usize;
            let text = fill(n, seed);
            let mut b = TxtBuilder::<Vec<u8>>::new();
            let mut failed = false;
            for c in text.chunks(1000 + seed as usize) {
                if b.append_slice(c).is_err() {
                    failed = true;
                    break;
                }
            }
            let enc = n + n.div_ceil(255);
            let out = if failed { Out::Rejected } else { b.finish().map(|d| Out::Value(d.into())).unwrap_or(Out::Rejected) };
            return finish("TXT", rr::TXT, out, enc, &mut u, ctx);
        }
        5 => {
            let mut enc = vec![];
            for _ in 0..255 {
                enc.push(255);
                enc.extend(fill(255, seed));
            }
            let r = (254i64 + delta).clamp(0, 255) as usize;
            enc.push(r as u8);
            enc.extend(fill(r, seed));
            let n = enc.len();
            return finish("TXT", rr::TXT, Txt::from_octets(enc).map(|d| Out::Value(d.into())).unwrap_or(Out::Rejected), n, &mut u, ctx);
        }
        6 => ("DNSKEY", rr::DNSKEY, Dnskey::new(257, 3, sa, fill(total - 4, seed)).map(|d| Out::Value(d.into())).unwrap_or(Out::Rejected)),
        7 => ("CDNSKEY", rr::CDNSKEY, Cdnskey::new(257, 3, sa, fill(total - 4, seed)).map(|d| Out::Value(d.into())).unwrap_or(Out::Rejected)),
        8 => ("DS", rr::DS, Ds::new(1, sa, DigestAlgorithm::from_int(2), fill(total - 4, seed)).map(|d| Out::Value(d.into())).unwrap_or(Out::Rejected)),
        9 => ("CDS", rr::CDS, Cds::new(1, sa, DigestAlgorithm::from_int(2), fill(total - 4, seed)).map(|d| Out::Value(d.into())).unwrap_or(Out::Rejected)),
        10 => (
            "RRSIG",
            rr::RRSIG,
            Rrsig::new(Rtype::A, sa, 2, Ttl::from_secs(1), Timestamp::from(2), Timestamp::from(1), 7, name.clone(), fill(total - 18 - nl, seed)).map(|d| Out::Value(d.into())).unwrap_or(Out::Rejected),
        ),
        11 => {
            let other = fill(10, seed);
            let mac_len = total - 16 - nl - 10;
            (
                "TSIG",
                rr::TSIG,
                Tsig::new(name.clone(), Time48::from_u64(1), 300, fill(mac_len, seed), 1, TsigRcode::from_int(0), other).map(|d| Out::Value(d.into())).unwrap_or(Out::Rejected),
            )
        }
        12 | 13 => {
            let vlen = total - 2 - nl - 4;
            let mut p = vec![0xff, 0x00];
            p.extend_from_slice(&(vlen.min(65535) as u16).to_be_bytes());
            p.extend(fill(vlen.min(65535), seed));
            let enc = 2 + nl + p.len();
            let params = match SvcParams::from_octets(p) {
                Ok(p) => p,
                Err(_) => return finish("SVCB", rr::SVCB, Out::Rejected, enc, &mut u, ctx),
            };
            if kind == 12 {
                return finish("SVCB", rr::SVCB, Svcb::new(1, name.clone(), params).map(|d| Out::Value(d.into())).unwrap_or(Out::Rejected), enc, &mut u, ctx);
            }
            return finish("HTTPS", rr::HTTPS, Https::new(1, name.clone(), params).map(|d| Out::Value(d.into())).unwrap_or(Out::Rejected), enc, &mut u, ctx);
        }
        14 => {
            // one option filling the data exactly
            let mut d = vec![0xfd, 0xe9];
            let vlen = (total - 4).min(65535);
            d.extend_from_slice(&(vlen as u16).to_be_bytes());
            d.extend(fill(vlen, seed));
            let n = d.len();
            return finish("OPT", rr::OPT, Opt::from_octets(d).map(|d| Out::Value(d.into())).unwrap_or(Out::Rejected), n, &mut u, ctx);
        }
        15 => {
            // Opt::push twice: (4 + a) + (4 + b) = total
            let a = 30000usize;
            let b = total - 8 - a;
            let mut o = Opt::<Vec<u8>>::empty();
            let first = UnknownOptData::new(OptionCode::from_int(65001), fill(a, seed)).unwrap();
            let second = UnknownOptData::new(OptionCode::from_int(65002), fill(b, seed)).unwrap();
            let ok = o.push(&first).is_ok() && o.push(&second).is_ok();
            return finish("OPT", rr::OPT, if ok { Out::Value(o.into()) } else { Out::Rejected }, total, &mut u, ctx);
        }
        16 => {
            // Opt::push of typed options up to the limit
            let mut o = Opt::<Vec<u8>>::empty();
            let a = 65000usize;
            let first = opt::Padding::from_octets(fill(a, seed)).unwrap();
            let b = total - 8 - a;
            let second = opt::Nsid::from_octets(fill(b, seed)).unwrap();
            let ok = o.push(&first).is_ok() && o.push(&second).is_ok();
            return finish("OPT", rr::OPT, if ok { Out::Value(o.into()) } else { Out::Rejected }, total, &mut u, ctx);
        }
        17 => ("OPENPGPKEY", rr::OPENPGPKEY, Out::Value(Openpgpkey::new(fill(total, seed)).into())),
        18 => ("SSHFP", rr::SSHFP, Out::Value(Sshfp::new(SshfpAlgorithm::from_int(1), SshfpType::from_int(2), fill(total - 2, seed)).into())),
        19 => ("TLSA", rr::TLSA, Out::Value(Tlsa::new(TlsaCertificateUsage::from_int(3), TlsaSelector::from_int(1), TlsaMatchingType::from_int(1), fill(total - 3, seed)).into())),
        20 => ("ZONEMD", rr::ZONEMD, Out::Value(Zonemd::new(Serial(1), ZonemdScheme::from_int(1), ZonemdAlgorithm::from_int(1), fill(total - 6, seed)).into())),
        21 => ("IPSECKEY", rr::IPSECKEY, Out::Value(Ipseckey::new(10, IpseckeyAlgorithm::from_int(2), IpseckeyGateway::Name(name.clone()), fill(total - 3 - nl, seed)).into())),
        22 => {
            let tag = caa::CaaTag::from_octets(b"issue".to_vec()).unwrap();
            ("CAA", rr::CAA, Out::Value(Caa::new(caa::CaaFlags::new(0), tag, fill(total - 7, seed)).into()))
        }
        23 => {
            // CAA tag: a character string, at most 255 octets
            let n = (255 + delta.clamp(-2, 2)) as usize;
            let val = fill(3, seed);
            match caa::CaaTag::from_octets(vec![b'a' + (seed % 26); n]) {
                Err(_) => {
                    vensure!(n > 255, "limits:CAA:tag-constructor-rejects-fitting-value", "tag of {n} octets rejected");
                    ctx.class("limit:over-rejected");
                    ctx.class("limit:over-rejected:CAA-tag");
                    return Ok(());
                }
                Ok(tag) => {
                    let v: AllV = Caa::new(caa::CaaFlags::new(128), tag, val).into();
                    if n > 255 {
                        ctx.class("limit:over-constructed:CAA-tag");
                        return overlong_behaviour("CAA-tag", &v, 2 + n + 3);
                    }
                    return finish("CAA", rr::CAA, Out::Value(v), 2 + n + 3, &mut u, ctx);
                }
            }
        }
        24 => {
            // a type bitmap longer than any RDATA: only possible with
            // repeated windows, which from_octets does not refuse
            let windows = if delta > 0 { 1928 } else { 1927 };
            let mut b = Vec::with_capacity(windows * 34);
            for _ in 0..windows {
                b.push(1);
                b.push(32);
                b.extend_from_slice(&[0x40; 32]);
            }
            let n = b.len();
            match domain::rdata::dnssec::RtypeBitmap::from_octets(b) {
                Err(_) => {
                    ctx.class("limit:over-rejected");
                    ctx.class("limit:over-rejected:bitmap");
                    return Ok(());
                }
                Ok(bm) => {
                    let v: AllV = Nsec::new(NV::root(), bm).into();
                    if n + 1 > 65535 {
                        ctx.class("limit:over-constructed:NSEC");
                        return overlong_behaviour("NSEC", &v, n + 1);
                    }
                    // repeated windows are not valid RDATA; only the lengths
                    // are looked at
                    let r = guarded("bitmap", || (v.rdlen(false), compose_plain(&v).len()));
                    match r {
                        Ok((Some(l), c)) => vensure!(usize::from(l) == c && c == n + 1, "limits:NSEC:length-differs", "rdlen {l} composed {c} expected {}", n + 1),
                        Ok((None, _)) => {}
                        Err(p) => return Err(Violation::new("limits:NSEC:fitting-value-panics", p.detail)),
                    }
                    ctx.class("limit:below");
                    return Ok(());
                }
            }
        }
        _ => {
            // a single SVCB parameter value / option value at its own limit
            let n = (65535i64 + delta.clamp(-2, 2)) as usize;
            let r1 = UnknownSvcParam::new(SvcParamKey::from_int(65280), fill(n, seed)).is_ok();
            let r2 = UnknownOptData::new(OptionCode::from_int(65001), fill(n, seed)).is_ok();
            let r3 = opt::Nsid::from_octets(fill(n, seed)).is_ok();
            let r4 = opt::Padding::from_octets(fill(n, seed)).is_ok();
            let want = n <= 65535;
            vensure!(r1 == want, "limits:UnknownSvcParam:value-limit", "value of {n} octets accepted={r1}");
            vensure!(r2 == want && r3 == want && r4 == want, "limits:optdata:value-limit", "option data of {n} octets accepted unknown={r2} nsid={r3} padding={r4}");
            // 255-octet components
            let m = (255 + delta.clamp(-1, 1)) as usize;
            let c1 = CharStr::from_octets(fill(m, seed)).is_ok();
            let c2 = domain::rdata::nsec3::Nsec3Salt::from_octets(fill(m, seed)).is_ok();
            let c3 = domain::rdata::nsec3::OwnerHash::from_octets(fill(m, seed)).is_ok();
            vensure!(c1 == (m <= 255) && c2 == (m <= 255) && c3 == (m <= 255), "limits:charstr-like:value-limit", "{m} octets accepted charstr={c1} salt={c2} ownerhash={c3}");
            ctx.class("limit:component");
            return Ok(());
        }
    };
    finish(tn, rtype, out, total, &mut u, ctx)
}

fn finish(tn: &str, rtype: u16, out: Out, total: usize, u: &mut Unstructured, ctx: &mut Ctx) -> CaseResult {
    let over = total > 65535;
    match out {
        Out::Rejected => {
            vensure!(over, format!("limits:{tn}:constructor-rejects-fitting-value"), "a value whose wire form has {total} octets was rejected");
            ctx.class("limit:over-rejected");
            ctx.class(format!("limit:over-rejected:{tn}"));
            Ok(())
        }
        Out::Value(v) => {
            if over {
                ctx.class(format!("limit:over-constructed:{tn}"));
                return overlong_behaviour(tn, &v, total);
            }
            let plain = check_value(rtype, &v, &[], u, ctx)?;
            vensure!(plain.len() == total, format!("limits:{tn}:length-differs"), "expected {total} octets, composed {}", plain.len());
            if total == 65535 {
                ctx.class("limit:at-65535");
                ctx.class(format!("limit:at-65535:{tn}"));
            } else {
                ctx.class("limit:below");
            }
            ctx.nontrivial(&(rtype, total, "limits", &plain[..64.min(plain.len())]));
            ctx.sample(|| format!("{tn}: value of {total} octets"));
            Ok(())
        }
    }
}
