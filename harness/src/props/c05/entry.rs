//! Entry points as a dimension of the compose oracles: the same value is
//! composed through generic code instantiated with `R = &T` and `R = &&T`
//! (the blanket `impl ComposeRecordData for &T`, `RecordData for &T`),
//! through `Record<&N, &D>` / `Record<N, &&D>` (`Record::compose`,
//! `Record::compose_canonical`), through `ComposeRecord for &T`, and onto
//! targets handed over as `&mut T` (`Composer for &mut T`). Method syntax on
//! a value or on `&T` auto-derefs to `T`'s own impl and never reaches the
//! blanket impls, so these paths need generic helpers.
use super::*;
use domain::base::record::{ComposeRecord, Record};
use domain::base::wire::Compose;

pub struct Ep {
    pub rtype: Rtype,
    pub rdlen_f: Option<u16>,
    pub rdlen_t: Option<u16>,
    pub plain: Vec<u8>,
    pub canon: Vec<u8>,
    pub len_plain: Vec<u8>,
    pub len_canon: Vec<u8>,
}

/// All compose-side entry points of `R` — resolved on `R` itself.
pub fn entry_points<R: ComposeRecordData>(r: R) -> Ep {
    let mut plain = Vec::new();
    let _ = r.compose_rdata(&mut plain);
    let mut canon = Vec::new();
    let _ = r.compose_canonical_rdata(&mut canon);
    let mut len_plain = Vec::new();
    let _ = r.compose_len_rdata(&mut len_plain);
    let mut len_canon = Vec::new();
    let _ = r.compose_canonical_len_rdata(&mut len_canon);
    Ep { rtype: r.rtype(), rdlen_f: r.rdlen(false), rdlen_t: r.rdlen(true), plain, canon, len_plain, len_canon }
}

fn record_forms<N: ToName, D: RecordData + ComposeRecordData>(rec: &Record<N, D>) -> (Vec<u8>, Vec<u8>) {
    let mut a = Vec::new();
    let _ = rec.compose(&mut a);
    let mut b = Vec::new();
    let _ = rec.compose_canonical(&mut b);
    (a, b)
}

fn compose_record_via<C: ComposeRecord>(c: C) -> Vec<u8> {
    let mut a = Vec::new();
    let _ = c.compose_record(&mut a);
    a
}

fn compose_via<C: Compose>(c: C) -> (u16, Vec<u8>) {
    let mut a = Vec::new();
    let _ = c.compose(&mut a);
    (C::COMPOSE_LEN, a)
}

/// Composes onto a target handed over as `T` (instantiated with `&mut X`).
pub fn len_rdata_onto<T: Composer, D: ComposeRecordData>(mut t: T, d: D) -> (bool, Vec<u8>) {
    let c = t.can_compress();
    let _ = d.compose_len_rdata(&mut t);
    (c, t.as_ref().to_vec())
}

#[allow(clippy::too_many_arguments)]
pub fn check_entry_points<O, N>(tn: &str, rtype: u16, v: &AllRecordData<O, N>, plain: &[u8], canon: &[u8], pool: &[Labels], ctx: &mut Ctx) -> CaseResult
where
    O: AsRef<[u8]>,
    N: ToName,
{
    let rt = Rtype::from_int(rtype);
    let with_len = |b: &[u8]| {
        let mut x = (b.len() as u16).to_be_bytes().to_vec();
        x.extend_from_slice(b);
        x
    };
    let (lp, lc) = (with_len(plain), with_len(canon));
    let (rf, rtc) = (v.rdlen(false), v.rdlen(true));
    // R = &T and R = &&T
    for (label, ep) in [("ref", entry_points(v)), ("refref", entry_points(&v))] {
        vensure!(ep.rtype == rt, format!("entry:{tn}:{label}-rtype-differs"), "rtype through a {label} type parameter is {}", ep.rtype);
        vensure!(ep.rdlen_f == rf && ep.rdlen_t == rtc, format!("entry:{tn}:{label}-rdlen-differs"), "rdlen through {label}: {:?}/{:?}, on the value {rf:?}/{rtc:?}", ep.rdlen_f, ep.rdlen_t);
        vensure!(ep.plain == plain, format!("entry:{tn}:{label}-compose_rdata-differs"), "compose_rdata through {label}: {} vs {}", hex(&ep.plain), hex(plain));
        vensure!(ep.canon == canon, format!("entry:{tn}:{label}-compose_canonical_rdata-differs"), "compose_canonical_rdata through {label}: {} vs {}", hex(&ep.canon), hex(canon));
        vensure!(ep.len_plain == lp, format!("entry:{tn}:{label}-compose_len_rdata-differs"), "compose_len_rdata through {label}: {} vs {}", hex(&ep.len_plain), hex(&lp));
        vensure!(ep.len_canon == lc, format!("entry:{tn}:{label}-compose_canonical_len_rdata-differs"), "compose_canonical_len_rdata through a {label} type parameter gives {} but length + canonical form is {}", hex(&ep.len_canon), hex(&lc));
    }
    if canon != plain {
        ctx.class("entry:byref-canonical-lowercased");
    }
    // Record<&N, &D>, Record<N, &&D>: owner with upper-case letters
    let mut owner: Labels = pool.first().cloned().unwrap_or_default();
    if gn::wire_len(&owner) + 6 <= 255 {
        owner.insert(0, b"OwNeR".to_vec());
    } else {
        owner = vec![b"OwNeR".to_vec(), b"EXAMPLE".to_vec()];
    }
    let ow = gn::to_wire(&owner);
    let on = gn::to_name(&owner);
    let (class, ttl) = (Class::from_int(0x00fe), Ttl::from_secs(0x8000_0e10));
    let head = |name: &[u8]| {
        let mut x = name.to_vec();
        x.extend_from_slice(&rtype.to_be_bytes());
        x.extend_from_slice(&[0x00, 0xfe, 0x80, 0x00, 0x0e, 0x10]);
        x
    };
    let mut want = head(&ow);
    want.extend_from_slice(&lp);
    let mut want_c = head(&ow.to_ascii_lowercase());
    want_c.extend_from_slice(&lc);
    let r1 = Record::new(&on, class, ttl, v);
    let r2 = Record::new(on.clone(), class, ttl, &v);
    for (label, (a, b)) in [("record-ref", record_forms(&r1)), ("record-refref", record_forms(&r2))] {
        vensure!(a == want, format!("entry:{tn}:{label}-compose-differs"), "Record::compose with by-reference owner/data gives {} want {}", hex(&a), hex(&want));
        vensure!(b == want_c, format!("entry:{tn}:{label}-compose_canonical-differs"), "Record::compose_canonical with by-reference owner/data gives {} but the canonical record is {}", hex(&b), hex(&want_c));
    }
    // ComposeRecord for &T, for tuples holding references
    for (label, a) in [
        ("composerecord-ref", compose_record_via(&r1)),
        ("composerecord-refref", compose_record_via(&&r2)),
        ("composerecord-tuple", compose_record_via((&on, class, ttl, v))),
        ("composerecord-tuple-ref", compose_record_via(&(&on, class, 0x8000_0e10u32, &v))),
    ] {
        vensure!(a == want, format!("entry:{tn}:{label}-differs"), "ComposeRecord::compose_record through {label} gives {} want {}", hex(&a), hex(&want));
    }
    // Composer for &mut T: a plain target stays plain
    {
        let mut t = vec![0xAAu8; 2];
        let (c, out) = len_rdata_onto(&mut t, v);
        vensure!(!c, format!("entry:{tn}:mutref-vec-can-compress"), "&mut Vec reports can_compress");
        vensure!(out[2..] == lp[..] && t == out, format!("entry:{tn}:mutref-vec-compose_len_rdata-differs"), "compose_len_rdata onto &mut Vec gives {} want {}", hex(&out[2..]), hex(&lp));
        let mut t = Vec::new();
        let (_, out) = len_rdata_onto(&mut &mut t, &v);
        vensure!(out == lp, format!("entry:{tn}:mutref-vec-compose_len_rdata-differs"), "compose_len_rdata onto &mut &mut Vec gives {} want {}", hex(&out), hex(&lp));
    }
    // Compose for &T (fixed-size items of the record header)
    {
        let x = ttl.as_secs();
        vensure!(compose_via(&rtype) == (2, rtype.to_be_bytes().to_vec()) && compose_via(&&x) == (4, x.to_be_bytes().to_vec()) && compose_via(&std::net::Ipv4Addr::new(192, 0, 2, 7)) == (4, vec![192, 0, 2, 7]), "entry:compose-for-ref-differs", "Compose through a reference differs for u16/u32/Ipv4Addr");
    }
    ctx.class("entry-points");
    Ok(())
}
