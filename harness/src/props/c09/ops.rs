//! C09 — operation alphabet and decoder (bytes -> valid op sequence).
//!
//! The decoder tracks the same coarse state as the executor (is a writer
//! alive, which kind, which reader slots are taken, is a second `write()`
//! future parked) and only offers operations that are valid in that state,
//! so every byte vector decodes to a schedule the API contract allows.
use super::model::*;
use crate::gen::*;
use arbitrary::Unstructured;

pub const SLOTS: usize = 6;

#[derive(Clone, Debug, Hash, PartialEq, Eq)]
pub enum Op {
    Acquire(u8),
    DropReader(u8),
    Query { slot: u8, name: RelName, qt: u8 },
    Walk(u8),
    OpenWriter { diff: bool },
    Update { name: RelName, rr: RrSpec },
    Remove { name: RelName, rt: u8 },
    RemoveAll { name: RelName },
    MakeCut { name: RelName, cut: CutSpec },
    MakeCname { name: RelName, target: u8, ttl: u8 },
    MakeRegular { name: RelName },
    GetRrset { name: RelName, rt: u8 },
    Reopen,
    Commit { bump: bool, keep: bool },
    Abort,
    TryOpenSecond,
    DropPending,
    OpenUpdater,
    UAdd { name: RelName, rt: u8, ttl: u8, val: u8 },
    UDel { name: RelName, rt: u8, ttl: u8, val: u8 },
    UDelAll,
    UBatchDelete,
    UBatchAdd { serial: u8 },
    UFinish { serial: u8 },
}

impl Op {
    pub fn show(&self) -> String {
        use Op::*;
        match self {
            Acquire(s) => format!("acq r{s}"),
            DropReader(s) => format!("drop r{s}"),
            Query { slot, name, qt } => format!("q r{slot} {} {}", rel_str(name), QTYPES[*qt as usize % QTYPES.len()]),
            Walk(s) => format!("walk r{s}"),
            OpenWriter { diff } => format!("open-writer{}", if *diff { "+diff" } else { "" }),
            Update { name, rr } => format!("update {} {}", rel_str(name), rr.show()),
            Remove { name, rt } => format!("remove {} {}", rel_str(name), RTYPES[*rt as usize % RTYPES.len()]),
            RemoveAll { name } => format!("remove_all {}", rel_str(name)),
            MakeCut { name, cut } => format!("make_cut {} ns{:?} ds{:?} glue{:?}", rel_str(name), cut.ns, cut.ds, cut.glue),
            MakeCname { name, target, .. } => format!("make_cname {} ->t{target}", rel_str(name)),
            MakeRegular { name } => format!("make_regular {}", rel_str(name)),
            GetRrset { name, rt } => format!("get_rrset {} {}", rel_str(name), RTYPES[*rt as usize % RTYPES.len()]),
            Reopen => "reopen".into(),
            Commit { bump, keep } => format!("commit{}{}", if *bump { "+bump" } else { "" }, if *keep { "+keep" } else { "" }),
            Abort => "abort".into(),
            TryOpenSecond => "try-second".into(),
            DropPending => "drop-pending".into(),
            OpenUpdater => "open-updater".into(),
            UAdd { name, rt, ttl, val } => format!("u-add {} {}/{}[{val}]", rel_str(name), RTYPES[*rt as usize % RTYPES.len()], TTLS[*ttl as usize % TTLS.len()]),
            UDel { name, rt, ttl, val } => format!("u-del {} {}/{}[{val}]", rel_str(name), RTYPES[*rt as usize % RTYPES.len()], TTLS[*ttl as usize % TTLS.len()]),
            UDelAll => "u-delete-all".into(),
            UBatchDelete => "u-batch-delete(commit)".into(),
            UBatchAdd { serial } => format!("u-batch-add soa{serial}"),
            UFinish { serial } => format!("u-finish soa{serial}"),
        }
    }
}

#[derive(Clone, Debug, Hash, PartialEq, Eq)]
pub enum InitItem {
    Rrset { name: RelName, rr: RrSpec },
    Cut { name: RelName, cut: CutSpec },
    Cname { name: RelName, target: u8, ttl: u8 },
}

#[derive(Clone, Debug, Hash, PartialEq, Eq)]
pub struct Case {
    pub init: Vec<InitItem>,
    pub ops: Vec<Op>,
}

impl Case {
    pub fn show(&self) -> String {
        let mut s = String::from("init[");
        for (i, it) in self.init.iter().enumerate() {
            if i > 0 {
                s.push_str("; ");
            }
            match it {
                InitItem::Rrset { name, rr } => s.push_str(&format!("{} {}", rel_str(name), rr.show())),
                InitItem::Cut { name, .. } => s.push_str(&format!("{} CUT", rel_str(name))),
                InitItem::Cname { name, target, .. } => s.push_str(&format!("{} CNAME t{target}", rel_str(name))),
            }
        }
        s.push_str("] ops[");
        for (i, o) in self.ops.iter().enumerate() {
            if i > 0 {
                s.push_str("; ");
            }
            s.push_str(&o.show());
        }
        s.push(']');
        s
    }
}

#[derive(Clone, Copy, PartialEq, Eq)]
enum W {
    None,
    Node,
    Upd,
}

struct St {
    w: W,
    readers: [bool; SLOTS],
    versions: usize,
    pending: bool,
    max_versions: usize,
    ops: Vec<Op>,
}

impl St {
    fn writer_gone(&mut self) {
        self.w = W::None;
        if self.pending {
            // the parked second writer obtains the lock
            self.pending = false;
            self.w = W::Node;
        }
    }
    fn push(&mut self, op: Op) {
        match &op {
            Op::Acquire(s) => self.readers[*s as usize] = true,
            Op::DropReader(s) => self.readers[*s as usize] = false,
            Op::OpenWriter { .. } => self.w = W::Node,
            Op::OpenUpdater => self.w = W::Upd,
            Op::Commit { keep, .. } => {
                self.versions += 1;
                if !*keep {
                    self.writer_gone();
                }
            }
            Op::UBatchDelete => self.versions += 1,
            Op::UFinish { .. } => {
                self.versions += 1;
                self.writer_gone();
            }
            Op::Abort => self.writer_gone(),
            Op::TryOpenSecond => {
                if self.w != W::None {
                    self.pending = true;
                }
            }
            Op::DropPending => self.pending = false,
            _ => {}
        }
        self.ops.push(op);
    }
    fn can_commit(&self) -> bool {
        self.versions < self.max_versions
    }
}

pub fn name(u: &mut Unstructured) -> RelName {
    const DEPTH: [u8; 10] = [1, 1, 1, 1, 2, 2, 2, 3, 0, 0];
    const LAB: [u8; 7] = [0, 0, 1, 2, 0, 3, 4];
    let d = DEPTH[pick(u, DEPTH.len())];
    (0..d).map(|_| LAB[pick(u, LAB.len())]).collect()
}

fn below_apex(u: &mut Unstructured) -> RelName {
    let mut n = name(u);
    if n.is_empty() {
        n.push(0);
    }
    n
}

fn rrspec(u: &mut Unstructured, at: &[u8]) -> RrSpec {
    let mut rt = pick(u, RTYPES.len()) as u8;
    if RTYPES[rt as usize] == domain::base::iana::Rtype::SOA && !at.is_empty() {
        rt = 0;
    }
    let ttl = pick(u, TTLS.len()) as u8;
    const N: [u8; 6] = [1, 1, 2, 1, 3, 0];
    let mut n = N[pick(u, N.len())];
    if RTYPES[rt as usize] == domain::base::iana::Rtype::SOA && n > 1 {
        n = 1;
    }
    let vals = (0..n).map(|_| pick(u, 6) as u8).collect();
    RrSpec { rt, ttl, vals }
}

fn cutspec(u: &mut Unstructured) -> CutSpec {
    let nn = 1 + pick(u, 2);
    let ns = (0..nn).map(|_| pick(u, 4) as u8).collect();
    let ds = if chance(u, 100) { Some(pick(u, 4) as u8) } else { None };
    let ng = pick(u, 3);
    let glue = (0..ng).map(|_| pick(u, 6) as u8).collect();
    CutSpec { ns, ds, glue, ttl: pick(u, TTLS.len()) as u8 }
}

/// Plain-RRset types offered on the updater path (no SOA: the updater sets
/// the SOA through its batch/finish records).
fn upd_rt(u: &mut Unstructured) -> u8 {
    pick(u, 5) as u8
}

fn free_or_any_slot(u: &mut Unstructured, st: &St) -> u8 {
    // prefer the first free slot, sometimes re-acquire a used one
    if !chance(u, 40) {
        if let Some(i) = st.readers.iter().position(|r| !*r) {
            return i as u8;
        }
    }
    pick(u, SLOTS) as u8
}

fn live_slot(u: &mut Unstructured, st: &St) -> Option<u8> {
    let live: Vec<u8> = (0..SLOTS as u8).filter(|i| st.readers[*i as usize]).collect();
    if live.is_empty() {
        None
    } else {
        Some(live[pick(u, live.len())])
    }
}

fn scenario(u: &mut Unstructured, st: &mut St) {
    let which = pick(u, 6);
    let n = name(u);
    let rr = {
        let mut r = rrspec(u, &n);
        if r.vals.is_empty() {
            r.vals.push(1);
        }
        r
    };
    let slot = free_or_any_slot(u, st);
    let can = st.can_commit();
    let end = |st: &mut St| {
        if can {
            st.push(Op::Commit { bump: false, keep: false })
        } else {
            st.push(Op::Abort)
        }
    };
    st.push(Op::OpenWriter { diff: which == 3 });
    match which {
        0 => {
            // update -> abort -> same update -> commit
            st.push(Op::Update { name: n.clone(), rr: rr.clone() });
            st.push(Op::Acquire(slot));
            st.push(Op::Abort);
            if st.w == W::None {
                st.push(Op::OpenWriter { diff: false });
            }
            st.push(Op::Update { name: n, rr });
            end(st);
        }
        1 => {
            // remove_all, reader acquired meanwhile, abort
            let at = if chance(u, 128) { vec![] } else { n };
            st.push(Op::RemoveAll { name: at });
            st.push(Op::Acquire(slot));
            st.push(Op::Abort);
        }
        2 => {
            // update after remove within one version
            st.push(Op::Remove { name: n.clone(), rt: rr.rt });
            st.push(Op::Update { name: n, rr });
            end(st);
        }
        3 => {
            // item created and removed within one version
            st.push(Op::Update { name: n.clone(), rr: rr.clone() });
            st.push(Op::Remove { name: n, rt: rr.rt });
            end(st);
        }
        4 => {
            // reader acquired between open and commit
            st.push(Op::Update { name: n, rr });
            st.push(Op::Acquire(slot));
            end(st);
        }
        _ => {
            // remove_all then rebuild, then abort; the same again, commit
            st.push(Op::RemoveAll { name: vec![] });
            st.push(Op::Update { name: n.clone(), rr: rr.clone() });
            st.push(Op::Abort);
            if st.w == W::None {
                st.push(Op::OpenWriter { diff: false });
            }
            st.push(Op::RemoveAll { name: vec![] });
            st.push(Op::Update { name: n, rr });
            end(st);
        }
    }
}

pub fn decode(u: &mut Unstructured) -> Case {
    // size class from the data (not from the tier), so that a replay file
    // means the same case in every tier
    let thorough = byte(u) >= 224;
    // initial content through ZoneBuilder
    let mut init = vec![];
    if !chance(u, 64) {
        init.push(InitItem::Rrset { name: vec![], rr: RrSpec { rt: 5, ttl: 0, vals: vec![pick(u, 4) as u8] } });
    }
    let ni = pick(u, 6);
    for _ in 0..ni {
        match pick(u, 6) {
            0..=3 => {
                let n = name(u);
                let mut rr = rrspec(u, &n);
                if rr.vals.is_empty() {
                    rr.vals.push(0);
                }
                init.push(InitItem::Rrset { name: n, rr });
            }
            4 => init.push(InitItem::Cut { name: below_apex(u), cut: cutspec(u) }),
            _ => init.push(InitItem::Cname { name: below_apex(u), target: pick(u, 4) as u8, ttl: pick(u, 3) as u8 }),
        }
    }
    let max_ops = if thorough { 200 } else { 60 };
    let mut st = St { w: W::None, readers: [false; SLOTS], versions: 1, pending: false, max_versions: if thorough { 16 } else { 8 }, ops: vec![] };
    while !u.is_empty() && st.ops.len() < max_ops {
        // (weight, tag) alternatives valid in the current state
        let mut alts: Vec<(u32, u8)> = vec![];
        let any_reader = st.readers.iter().any(|r| *r);
        alts.push((10, 0)); // acquire
        if any_reader {
            alts.push((8, 1)); // query
            alts.push((3, 2)); // walk
            alts.push((3, 3)); // drop reader
        }
        alts.push((3, 4)); // try-open-second
        if st.pending {
            alts.push((1, 5));
        }
        match st.w {
            W::None => {
                alts.push((14, 10)); // open writer
                alts.push((6, 11)); // open updater
                alts.push((5, 12)); // scenario
            }
            W::Node => {
                alts.push((22, 20));
                alts.push((10, 21));
                alts.push((4, 22));
                alts.push((4, 23));
                alts.push((4, 24));
                alts.push((3, 25));
                alts.push((1, 26));
                alts.push((1, 27));
                if st.can_commit() {
                    alts.push((10, 28));
                }
                alts.push((6, 29));
            }
            W::Upd => {
                alts.push((22, 30));
                alts.push((10, 31));
                alts.push((3, 32));
                alts.push((2, 34));
                if st.can_commit() {
                    alts.push((4, 33));
                    alts.push((8, 35));
                }
                alts.push((6, 29));
            }
        }
        let total: u32 = alts.iter().map(|a| a.0).sum();
        let mut x = pick(u, total as usize) as u32;
        let mut tag = alts[0].1;
        for (w, t) in &alts {
            if x < *w {
                tag = *t;
                break;
            }
            x -= *w;
        }
        match tag {
            0 => {
                let s = free_or_any_slot(u, &st);
                st.push(Op::Acquire(s));
            }
            1 => {
                let slot = live_slot(u, &st).unwrap();
                st.push(Op::Query { slot, name: name(u), qt: pick(u, QTYPES.len()) as u8 });
            }
            2 => {
                let slot = live_slot(u, &st).unwrap();
                st.push(Op::Walk(slot));
            }
            3 => {
                let slot = live_slot(u, &st).unwrap();
                st.push(Op::DropReader(slot));
            }
            4 => st.push(Op::TryOpenSecond),
            5 => st.push(Op::DropPending),
            10 => st.push(Op::OpenWriter { diff: chance(u, 80) }),
            11 => {
                // the updater awaits the write lock itself: only when no
                // second writer is parked (st.w == None implies that)
                st.push(Op::OpenUpdater)
            }
            12 => scenario(u, &mut st),
            20 => {
                let n = name(u);
                let rr = rrspec(u, &n);
                st.push(Op::Update { name: n, rr });
            }
            21 => {
                let n = name(u);
                let mut rt = pick(u, RTYPES.len()) as u8;
                if rt == 5 && !n.is_empty() {
                    rt = 0;
                }
                st.push(Op::Remove { name: n, rt });
            }
            22 => st.push(Op::RemoveAll { name: name(u) }),
            23 => st.push(Op::MakeCut { name: below_apex(u), cut: cutspec(u) }),
            24 => st.push(Op::MakeCname { name: below_apex(u), target: pick(u, 4) as u8, ttl: pick(u, 3) as u8 }),
            25 => st.push(Op::MakeRegular { name: below_apex(u) }),
            26 => st.push(Op::GetRrset { name: name(u), rt: pick(u, 5) as u8 }),
            27 => st.push(Op::Reopen),
            28 => st.push(Op::Commit { bump: chance(u, 80), keep: chance(u, 64) }),
            29 => st.push(Op::Abort),
            30 => st.push(Op::UAdd { name: name(u), rt: upd_rt(u), ttl: pick(u, 3) as u8, val: pick(u, 6) as u8 }),
            31 => st.push(Op::UDel { name: name(u), rt: upd_rt(u), ttl: pick(u, 3) as u8, val: pick(u, 6) as u8 }),
            32 => st.push(Op::UDelAll),
            33 => st.push(Op::UBatchDelete),
            34 => st.push(Op::UBatchAdd { serial: pick(u, 8) as u8 }),
            _ => st.push(Op::UFinish { serial: pick(u, 8) as u8 }),
        }
    }
    Case { init, ops: st.ops }
}
