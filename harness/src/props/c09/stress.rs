//! C09 — real-thread stress half.
//!
//! Several reader threads and two writer threads share one zone. Every
//! committed version `s` carries SOA serial `s` and exactly the records
//! `content(s)` (a pure function), so a reader identifies its snapshot by
//! the serial it sees and checks everything else it observes against
//! `content(serial)`. Only schedule-independent facts are asserted:
//!   * a walk enumerates exactly content(serial) (no torn read, nothing of an
//!     uncommitted or abandoned writer — those write poison records —,
//!     nothing of a later version), also when repeated on a held reader
//!     after many more commits;
//!   * positive queries return the RRsets of content(serial);
//!   * serials seen by successive `read()` calls of one thread never go back;
//!   * two writers never hold the zone at the same time.
//! The run is bounded by the readers' iteration count.
use super::exec::walk_keys;
use super::model::*;
use crate::engine::*;
use domain::base::iana::{Class, Rtype};
use domain::base::name::Label;
use domain::base::{Record, Serial, Ttl};
use domain::rdata::{Ns, Soa, Txt, ZoneRecordData, A};
use domain::zonetree::types::ZoneUpdate;
use domain::zonetree::update::ZoneUpdater;
use domain::zonetree::{AnswerContent, ReadableZone, Rrset, SharedRrset, StoredName, WritableZone, WritableZoneNode, Zone, ZoneBuilder};
use std::net::Ipv4Addr;
use std::str::FromStr;
use std::sync::atomic::{AtomicBool, AtomicU64, AtomicUsize, Ordering};
use std::sync::{Arc, Mutex};

const UNIVERSE: [&[u8]; 10] = [&[0], &[1], &[3], &[0, 0], &[0, 1], &[3, 2], &[1, 0, 0], &[4], &[3, 0], &[1, 1]];
const POISON_SERIAL: u32 = 0xDEAD_0000;

fn mix(a: u64, b: u64) -> u64 {
    let mut z = a.wrapping_mul(0x9E3779B97F4A7C15) ^ b.wrapping_add(0xD1B54A32D192ED03);
    z = (z ^ (z >> 30)).wrapping_mul(0xBF58476D1CE4E5B9);
    z = (z ^ (z >> 27)).wrapping_mul(0x94D049BB133111EB);
    z ^ (z >> 31)
}

fn present(seed: u64, s: u32, i: usize) -> bool {
    mix(seed ^ s as u64, i as u64) % 4 != 0
}

fn soa(s: u32) -> Soa<StoredName> {
    Soa::new(
        StoredName::from_str("ns.c9.test.").unwrap(),
        StoredName::from_str("h.c9.test.").unwrap(),
        Serial(s),
        Ttl::from_secs(7200),
        Ttl::from_secs(900),
        Ttl::from_secs(86400),
        Ttl::from_secs(300),
    )
}

fn ttl_of(s: u32) -> Ttl {
    Ttl::from_secs(60 + s % 100)
}

fn a_set(s: u32, i: usize) -> SharedRrset {
    let mut r = Rrset::new(Rtype::A, ttl_of(s));
    r.push_data(ZoneRecordData::A(A::new(Ipv4Addr::from(s))));
    r.push_data(ZoneRecordData::A(A::new(Ipv4Addr::from((s ^ 0x8000_0000).wrapping_add(i as u32 * 0x0100_0000)))));
    SharedRrset::new(r)
}

fn txt_set(s: u32, i: usize) -> SharedRrset {
    let mut r = Rrset::new(Rtype::TXT, ttl_of(s));
    r.push_data(ZoneRecordData::Txt(Txt::build_from_slice(format!("s={s};n={i}").as_bytes()).unwrap()));
    SharedRrset::new(r)
}

fn soa_set(s: u32) -> SharedRrset {
    let mut r = Rrset::new(Rtype::SOA, Ttl::from_secs(3600));
    r.push_data(ZoneRecordData::Soa(soa(s)));
    SharedRrset::new(r)
}

fn ns_set() -> SharedRrset {
    let mut r = Rrset::new(Rtype::NS, Ttl::from_secs(3600));
    r.push_data(ZoneRecordData::Ns(Ns::new(StoredName::from_str("ns.c9.test.").unwrap())));
    SharedRrset::new(r)
}

/// The content of the version with serial `s` (pure).
pub fn content(seed: u64, s: u32) -> Content {
    let mut c = Content::new();
    let apex = c.entry(vec![]).or_default();
    apex.rrsets.insert(Rtype::SOA.to_int(), soa_set(s));
    apex.rrsets.insert(Rtype::NS.to_int(), ns_set());
    apex.rrsets.insert(Rtype::TXT.to_int(), txt_set(s, 999));
    for (i, n) in UNIVERSE.iter().enumerate() {
        if present(seed, s, i) {
            let node = c.entry(n.to_vec()).or_default();
            node.rrsets.insert(Rtype::A.to_int(), a_set(s, i));
            node.rrsets.insert(Rtype::TXT.to_int(), txt_set(s, i));
        }
    }
    c
}

struct Exp {
    s: u32,
    content: Content,
    walk: Vec<WalkKey>,
}

struct Shared {
    seed: u64,
    zone: Zone,
    writer_active: AtomicBool,
    readers_done: AtomicUsize,
    stop: AtomicBool,
    fail: Mutex<Option<Violation>>,
    cache: Vec<Mutex<Option<Arc<Exp>>>>,
    commits: AtomicU64,
    aborts: AtomicU64,
    serial_changes_seen: AtomicU64,
    held_rechecks: AtomicU64,
}

impl Shared {
    fn exp(&self, s: u32) -> Arc<Exp> {
        let slot = &self.cache[s as usize % self.cache.len()];
        let mut g = slot.lock().unwrap();
        if let Some(e) = g.as_ref() {
            if e.s == s {
                return e.clone();
            }
        }
        let c = content(self.seed, s);
        let e = Arc::new(Exp { s, walk: expected_walk(&c), content: c });
        *g = Some(e.clone());
        e
    }
    fn fail(&self, sig: &str, detail: String) {
        let mut g = self.fail.lock().unwrap();
        if g.is_none() {
            *g = Some(Violation::new(sig, detail));
        }
        self.stop.store(true, Ordering::SeqCst);
    }
}

fn serial_of(r: &dyn ReadableZone) -> Result<u32, String> {
    let a = r.query(apex_name(), Rtype::SOA).map_err(|_| "apex out of zone".to_string())?;
    match a.content() {
        AnswerContent::Data(rr) => match rr.data().first() {
            Some(ZoneRecordData::Soa(s)) if rr.data().len() == 1 => Ok(s.serial().into_int()),
            _ => Err(format!("SOA answer is not a single SOA: {:?}", rr.data())),
        },
        _ => Err(format!("no SOA data at the apex (rcode {})", a.rcode())),
    }
}

fn label(i: u8) -> &'static Label {
    Label::from_slice(LABELS[i as usize % LABELS.len()].as_bytes()).unwrap()
}

fn check_reader(sh: &Shared, r: &dyn ReadableZone, s: u32, iter: u64, what: &str) -> bool {
    let exp = sh.exp(s);
    let got = walk_keys(r);
    if got != exp.walk {
        let missing: Vec<_> = exp.walk.iter().filter(|k| !got.contains(k)).collect();
        let extra: Vec<_> = got.iter().filter(|k| !exp.walk.contains(k)).collect();
        sh.fail(&format!("stress:{what}:walk-is-not-content-of-its-serial"), format!("reader sees SOA serial {s} but its walk is not content({s}) (seed {:#x})\n missing {missing:?}\n extra {extra:?}", sh.seed));
        return false;
    }
    // positive queries on three names of content(s)
    // (only names whose ancestors all own records: how a name below an
    // empty non-terminal is answered is C08's subject, not a snapshot fact)
    let names: Vec<&RelName> = exp.content.keys().filter(|n| (1..n.len()).all(|l| exp.content.contains_key(&n[..l]))).collect();
    for j in 0..3usize {
        let n = names[(mix(iter, j as u64) % names.len() as u64) as usize];
        for t in [Rtype::A, Rtype::TXT] {
            let want = exp.content[n].rrsets.get(&t.to_int());
            let owner = abs_name(n);
            let got = match r.query(owner.clone(), t) {
                Ok(a) => match a.content() {
                    AnswerContent::Data(rr) => Some(key_of(&owner, rr.as_rrset(), false)),
                    _ => None,
                },
                Err(_) => None,
            };
            let want = want.map(|w| key_of(&owner, w, false));
            if got != want {
                sh.fail(&format!("stress:{what}:query-is-not-content-of-its-serial"), format!("reader at serial {s}: query {owner} {t} gives {got:?}, content({s}) has {want:?} (seed {:#x})", sh.seed));
                return false;
            }
        }
    }
    true
}

struct DoneGuard(Arc<Shared>);
impl Drop for DoneGuard {
    fn drop(&mut self) {
        if std::thread::panicking() {
            self.0.stop.store(true, Ordering::SeqCst);
        }
        self.0.readers_done.fetch_add(1, Ordering::SeqCst);
    }
}

fn reader_thread(sh: Arc<Shared>, id: u64, iters: u64) {
    let _done = DoneGuard(sh.clone());
    let mut last = 0u32;
    let mut held: Vec<(Box<dyn ReadableZone>, u32)> = vec![];
    for it in 0..iters {
        if sh.stop.load(Ordering::Relaxed) {
            break;
        }
        let r = sh.zone.read();
        let s = match serial_of(r.as_ref()) {
            Ok(s) => s,
            Err(e) => {
                sh.fail("stress:no-single-soa", format!("{e} (seed {:#x})", sh.seed));
                break;
            }
        };
        if s >= POISON_SERIAL {
            sh.fail("stress:abandoned-version-visible", format!("a reader saw the SOA serial {s:#x} that only abandoned writers write (seed {:#x})", sh.seed));
            break;
        }
        if s < last {
            sh.fail("stress:serial-went-backwards", format!("read() gave serial {s} after serial {last} on the same thread (seed {:#x})", sh.seed));
            break;
        }
        if s != last {
            sh.serial_changes_seen.fetch_add(1, Ordering::Relaxed);
        }
        last = s;
        if !check_reader(&sh, r.as_ref(), s, it ^ (id << 32), "fresh-reader") {
            break;
        }
        if it % 4 == 0 {
            for _ in 0..(it % 7) {
                std::thread::yield_now();
            }
            if !check_reader(&sh, r.as_ref(), s, it, "held-reader") {
                break;
            }
        }
        if it % 16 == 0 {
            held.push((r, s));
            if held.len() > 4 {
                let (old, os) = held.remove(0);
                sh.held_rechecks.fetch_add(1, Ordering::Relaxed);
                if !check_reader(&sh, old.as_ref(), os, it, "long-held-reader") {
                    break;
                }
                match serial_of(old.as_ref()) {
                    Ok(x) if x == os => {}
                    other => {
                        sh.fail("stress:long-held-reader:serial-changed", format!("held reader pinned at serial {os} now reports {other:?} (seed {:#x})", sh.seed));
                        break;
                    }
                }
            }
        }
    }
}

fn child(root: &dyn WritableZoneNode, rt: &tokio::runtime::Runtime, name: &[u8]) -> std::io::Result<Option<Box<dyn WritableZoneNode>>> {
    if name.is_empty() {
        return Ok(None);
    }
    let mut cur = rt.block_on(root.update_child(label(name[0])))?;
    for l in &name[1..] {
        cur = rt.block_on(cur.update_child(label(*l)))?;
    }
    Ok(Some(cur))
}

fn write_node_api(sh: &Shared, rt: &tokio::runtime::Runtime, root: &dyn WritableZoneNode, p: u32, s: u32, full: bool) -> std::io::Result<()> {
    let new = content(sh.seed, s);
    if full {
        rt.block_on(root.remove_all())?;
        rt.block_on(root.update_rrset(ns_set()))?;
    }
    rt.block_on(root.update_rrset(soa_set(s)))?;
    rt.block_on(root.update_rrset(txt_set(s, 999)))?;
    for (i, n) in UNIVERSE.iter().enumerate() {
        if present(sh.seed, s, i) {
            let node = child(root, rt, n)?.unwrap();
            for r in new[&n.to_vec()].rrsets.values() {
                rt.block_on(node.update_rrset(r.clone()))?;
            }
        } else if !full && present(sh.seed, p, i) {
            let node = child(root, rt, n)?.unwrap();
            if mix(s as u64, i as u64) & 1 == 0 {
                rt.block_on(node.remove_rrset(Rtype::A))?;
                rt.block_on(node.remove_rrset(Rtype::TXT))?;
            } else {
                rt.block_on(node.remove_all())?;
            }
        }
    }
    Ok(())
}

fn write_poison(rt: &tokio::runtime::Runtime, root: &dyn WritableZoneNode, k: u64) -> std::io::Result<()> {
    rt.block_on(root.update_rrset(soa_set(POISON_SERIAL + (k as u32 & 0xFFFF))))?;
    if k % 3 == 0 {
        rt.block_on(root.remove_all())?;
    }
    for (i, n) in UNIVERSE.iter().enumerate() {
        if mix(k, i as u64) % 2 == 0 {
            let node = child(root, rt, n)?.unwrap();
            let mut r = Rrset::new(Rtype::TXT, Ttl::from_secs(1));
            r.push_data(ZoneRecordData::Txt(Txt::build_from_slice(b"POISON").unwrap()));
            rt.block_on(node.update_rrset(SharedRrset::new(r)))?;
            if mix(k, i as u64) % 3 == 0 {
                rt.block_on(node.remove_rrset(Rtype::A))?;
            }
        }
    }
    Ok(())
}

fn records_of(c: &Content) -> Vec<Record<StoredName, ZoneRecordData<bytes::Bytes, StoredName>>> {
    let mut out = vec![];
    for (n, node) in c {
        for r in node.rrsets.values() {
            if r.rtype() == Rtype::SOA {
                continue;
            }
            for d in r.data() {
                out.push(Record::new(abs_name(n), Class::IN, r.ttl(), d.clone()));
            }
        }
    }
    out
}

fn writer_thread(sh: Arc<Shared>, id: u64, n_readers: usize, max_versions: u32) {
    let rt = tokio::runtime::Builder::new_current_thread().build().expect("rt");
    let mut iter = 0u64;
    loop {
        if sh.stop.load(Ordering::Relaxed) || sh.readers_done.load(Ordering::SeqCst) >= n_readers {
            break;
        }
        iter += 1;
        let k = mix(sh.seed ^ id, iter);
        let use_updater = k % 4 == 3;
        let abort = (k >> 8) % 4 == 0;
        let res: std::io::Result<()> = (|| {
            if use_updater {
                let mut up = match rt.block_on(ZoneUpdater::<StoredName>::new(sh.zone.clone())) {
                    Ok(u) => u,
                    Err(e) => return Err(std::io::Error::other(format!("{e}"))),
                };
                if sh.writer_active.swap(true, Ordering::SeqCst) {
                    sh.fail("stress:two-writers-at-once", format!("ZoneUpdater::new returned while another writer holds the zone (seed {:#x})", sh.seed));
                }
                let p = serial_of(sh.zone.read().as_ref()).map_err(std::io::Error::other)?;
                let s = p + 1;
                let apply = |up: &mut ZoneUpdater<StoredName>, u| rt.block_on(up.apply(u)).map(|_| ()).map_err(|e| std::io::Error::other(format!("{e}")));
                if abort || s > max_versions {
                    if s <= max_versions {
                        apply(&mut up, ZoneUpdate::DeleteAllRecords)?;
                        apply(&mut up, ZoneUpdate::AddRecord(Record::new(apex_name(), Class::IN, Ttl::from_secs(1), ZoneRecordData::Soa(soa(POISON_SERIAL + 1)))))?;
                        sh.aborts.fetch_add(1, Ordering::Relaxed);
                    }
                    sh.writer_active.store(false, Ordering::SeqCst);
                    drop(up);
                    return Ok(());
                }
                for r in records_of(&content(sh.seed, p)) {
                    apply(&mut up, ZoneUpdate::DeleteRecord(r))?;
                }
                for r in records_of(&content(sh.seed, s)) {
                    apply(&mut up, ZoneUpdate::AddRecord(r))?;
                }
                sh.writer_active.store(false, Ordering::SeqCst);
                apply(&mut up, ZoneUpdate::Finished(Record::new(apex_name(), Class::IN, Ttl::from_secs(3600), ZoneRecordData::Soa(soa(s)))))?;
                sh.commits.fetch_add(1, Ordering::Relaxed);
            } else {
                let mut wz: Box<dyn WritableZone> = rt.block_on(sh.zone.write());
                if sh.writer_active.swap(true, Ordering::SeqCst) {
                    sh.fail("stress:two-writers-at-once", format!("write() returned while another writer holds the zone (seed {:#x})", sh.seed));
                }
                let p = serial_of(sh.zone.read().as_ref()).map_err(std::io::Error::other)?;
                let s = p + 1;
                if s > max_versions {
                    sh.writer_active.store(false, Ordering::SeqCst);
                    return Ok(());
                }
                let root = rt.block_on(wz.open((k >> 16) % 4 == 0))?;
                if abort {
                    write_poison(&rt, root.as_ref(), k)?;
                    sh.aborts.fetch_add(1, Ordering::Relaxed);
                    drop(root);
                    sh.writer_active.store(false, Ordering::SeqCst);
                    drop(wz);
                    return Ok(());
                }
                write_node_api(&sh, &rt, root.as_ref(), p, s, (k >> 24) % 3 == 0)?;
                drop(root);
                rt.block_on(wz.commit(false))?;
                sh.commits.fetch_add(1, Ordering::Relaxed);
                sh.writer_active.store(false, Ordering::SeqCst);
                drop(wz);
            }
            Ok(())
        })();
        if let Err(e) = res {
            sh.writer_active.store(false, Ordering::SeqCst);
            sh.fail("stress:write-api-error", format!("{e} (seed {:#x})", sh.seed));
            break;
        }
        if iter % 8 == 0 {
            std::thread::yield_now();
        }
    }
}

pub struct Stats {
    pub reader_iterations: u64,
    pub commits: u64,
    pub aborts: u64,
    pub serial_changes_seen: u64,
    pub held_rechecks: u64,
}

/// One zone, `n_readers` reader threads with `iters` iterations each, two
/// writer threads.
pub fn run_group(seed: u64, n_readers: usize, iters: u64) -> Result<Stats, Violation> {
    let c0 = content(seed, 0);
    let mut b = ZoneBuilder::new(apex_name(), Class::IN);
    for (n, node) in &c0 {
        for r in node.rrsets.values() {
            b.insert_rrset(&abs_name(n), r.clone()).unwrap();
        }
    }
    let sh = Arc::new(Shared {
        seed,
        zone: b.build(),
        writer_active: AtomicBool::new(false),
        readers_done: AtomicUsize::new(0),
        stop: AtomicBool::new(false),
        fail: Mutex::new(None),
        cache: (0..64).map(|_| Mutex::new(None)).collect(),
        commits: AtomicU64::new(0),
        aborts: AtomicU64::new(0),
        serial_changes_seen: AtomicU64::new(0),
        held_rechecks: AtomicU64::new(0),
    });
    let mut hs = vec![];
    for w in 0..2u64 {
        let sh = sh.clone();
        hs.push(std::thread::spawn(move || writer_thread(sh, w, n_readers, 1 << 24)));
    }
    for r in 0..n_readers as u64 {
        let sh = sh.clone();
        hs.push(std::thread::spawn(move || reader_thread(sh, r, iters)));
    }
    let mut panicked = false;
    for h in hs {
        if h.join().is_err() {
            panicked = true;
        }
    }
    if let Some(v) = sh.fail.lock().unwrap().take() {
        return Err(v);
    }
    if panicked {
        return Err(Violation::new("stress:thread-panicked", format!("a stress thread panicked (seed {seed:#x})")));
    }
    Ok(Stats {
        reader_iterations: n_readers as u64 * iters,
        commits: sh.commits.load(Ordering::Relaxed),
        aborts: sh.aborts.load(Ordering::Relaxed),
        serial_changes_seen: sh.serial_changes_seen.load(Ordering::Relaxed),
        held_rechecks: sh.held_rechecks.load(Ordering::Relaxed),
    })
}
