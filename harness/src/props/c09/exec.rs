//! C09 — executor: runs an op sequence against the zone under test and
//! against the snapshot model; after every op checks every held reader.
//!
//! Oracles
//! * walk: the multiset a held reader enumerates == `expected_walk` of the
//!   content the model pinned for that reader (model derived from the write
//!   ops only).
//! * query: the answer of a held reader == the answer of a *twin* zone that
//!   received exactly the committed batches up to the reader's version,
//!   sequentially (write, commit, read; nothing uncommitted, nothing
//!   aborted, nothing later) and is never written again. Both sides run the
//!   same resolver code on the same committed history, so the comparison is
//!   independent of what the right DNS answer is (C08) and sees only
//!   leakage between versions.
//! * writers serialised: a second `write()` future polled once stays
//!   Pending while a writer is alive and is Ready once it is gone.
use super::model::*;
use super::ops::*;
use crate::engine::*;
use crate::{vensure, vfail};
use bytes::Bytes;
use domain::base::iana::{Class, Rtype};
use domain::base::name::Label;
use domain::base::{Message, MessageBuilder, ParsedName, Record, Ttl};
use domain::rdata::ZoneRecordData;
use domain::zonetree::error::OutOfZone;
use domain::zonetree::types::ZoneUpdate;
use domain::zonetree::update::ZoneUpdater;
use domain::zonetree::{Answer, ReadableZone, Rrset, SharedRr, SharedRrset, StoredName, WritableZone, WritableZoneNode, Zone, ZoneBuilder};
use futures_util::task::noop_waker;
use futures_util::FutureExt;
use std::collections::{BTreeSet, HashMap};
use std::future::Future;
use std::pin::Pin;
use std::sync::{Arc, Mutex};
use std::task::{Context, Poll};

pub const SIG_PHANTOM: &str = "query:cause=unversioned-node-creation";
pub const SIG_ABANDONED: &str = "query:cause=node-left-by-abandoned-writer";

type WriteFut = Pin<Box<dyn Future<Output = Box<dyn WritableZone>> + Send + Sync>>;
type Upd = ZoneUpdater<StoredName>;

fn now<F: Future>(what: &str, f: F) -> Result<F::Output, Violation> {
    match f.now_or_never() {
        Some(x) => Ok(x),
        None => Err(Violation::new(format!("api:future-not-ready:{what}"), format!("{what}: future was Pending though nothing can block it"))),
    }
}

fn io<T>(what: &str, r: std::io::Result<T>) -> Result<T, Violation> {
    r.map_err(|e| Violation::new(format!("api:io-error:{what}"), format!("{what}: {e}")))
}

fn label(i: u8) -> &'static Label {
    Label::from_slice(LABELS[i as usize % LABELS.len()].as_bytes()).unwrap()
}

//------------ building and writing zones ------------------------------------

pub fn build_init(init: &[InitItem]) -> Zone {
    let mut b = ZoneBuilder::new(apex_name(), Class::IN);
    for it in init {
        match it {
            InitItem::Rrset { name, rr } => b.insert_rrset(&abs_name(name), rr.build()).unwrap(),
            InitItem::Cut { name, cut } => {
                let c = cut.build(name);
                b.insert_zone_cut(&abs_name(name), c.ns, c.ds, c.glue).unwrap()
            }
            InitItem::Cname { name, target, ttl } => b.insert_cname(&abs_name(name), cname_rr(*target, *ttl)).unwrap(),
        }
    }
    b.build()
}

fn cname_rr(target: u8, ttl: u8) -> SharedRr {
    SharedRr::new(Ttl::from_secs(TTLS[ttl as usize % TTLS.len()]), mk_data(Rtype::CNAME, target))
}

pub fn init_content(init: &[InitItem], nodes: &mut BTreeSet<RelName>) -> Content {
    let mut c = Content::new();
    for it in init {
        match it {
            InitItem::Rrset { name, rr } => {
                touch(name, &mut [nodes]);
                c.entry(name.clone()).or_default().rrsets.insert(rr.rtype().to_int(), rr.build());
            }
            InitItem::Cut { name, cut } => {
                touch(name, &mut [nodes]);
                c.entry(name.clone()).or_default().special = SpecialC::Cut(cut.build(name));
            }
            InitItem::Cname { name, target, ttl } => {
                touch(name, &mut [nodes]);
                c.entry(name.clone()).or_default().special = SpecialC::Cname(cname_rr(*target, *ttl));
            }
        }
    }
    c
}

/// Descends from the root write node to `name` (creating nodes, as the API
/// does) and runs `f` there.
fn at_node<R>(root: &dyn WritableZoneNode, name: &[u8], f: impl FnOnce(&dyn WritableZoneNode) -> Result<R, Violation>) -> Result<R, Violation> {
    if name.is_empty() {
        return f(root);
    }
    let mut cur: Box<dyn WritableZoneNode> = io("update_child", now("update_child", root.update_child(label(name[0])))?)?;
    for l in &name[1..] {
        cur = io("update_child", now("update_child", cur.update_child(label(*l)))?)?;
    }
    f(cur.as_ref())
}

/// Applies one node-API write op to the zone. Returns the RRset read for
/// `GetRrset`.
fn apply_node_op(root: &dyn WritableZoneNode, op: &Op) -> Result<Option<Option<SharedRrset>>, Violation> {
    match op {
        Op::Update { name, rr } => at_node(root, name, |n| io("update_rrset", now("update_rrset", n.update_rrset(rr.build()))?))?,
        Op::Remove { name, rt } => at_node(root, name, |n| io("remove_rrset", now("remove_rrset", n.remove_rrset(RTYPES[*rt as usize % RTYPES.len()]))?))?,
        Op::RemoveAll { name } => at_node(root, name, |n| io("remove_all", now("remove_all", n.remove_all())?))?,
        Op::MakeCut { name, cut } => at_node(root, name, |n| io("make_zone_cut", now("make_zone_cut", n.make_zone_cut(cut.build(name)))?))?,
        Op::MakeCname { name, target, ttl } => at_node(root, name, |n| io("make_cname", now("make_cname", n.make_cname(cname_rr(*target, *ttl)))?))?,
        Op::MakeRegular { name } => at_node(root, name, |n| io("make_regular", now("make_regular", n.make_regular())?))?,
        Op::GetRrset { name, rt } => {
            let r = at_node(root, name, |n| io("get_rrset", now("get_rrset", n.get_rrset(RTYPES[*rt as usize % RTYPES.len()]))?))?;
            return Ok(Some(r));
        }
        _ => unreachable!("not a node op"),
    }
    Ok(None)
}

fn rec(name: &[u8], rt: Rtype, ttl: u8, val: u8) -> Record<StoredName, ZoneRecordData<Bytes, StoredName>> {
    Record::new(abs_name(name), Class::IN, Ttl::from_secs(TTLS[ttl as usize % TTLS.len()]), mk_data(rt, val))
}

fn soa_rec(serial: u8) -> Record<StoredName, ZoneRecordData<Bytes, StoredName>> {
    Record::new(apex_name(), Class::IN, Ttl::from_secs(3600), ZoneRecordData::Soa(mk_soa(2000 + serial as u32)))
}

fn apply_upd_op(up: &mut Upd, op: &Op) -> Result<(), Violation> {
    let upd = match op {
        Op::UAdd { name, rt, ttl, val } => ZoneUpdate::AddRecord(rec(name, RTYPES[*rt as usize % 5], *ttl, *val)),
        Op::UDel { name, rt, ttl, val } => ZoneUpdate::DeleteRecord(rec(name, RTYPES[*rt as usize % 5], *ttl, *val)),
        Op::UDelAll => ZoneUpdate::DeleteAllRecords,
        Op::UBatchDelete => ZoneUpdate::BeginBatchDelete(soa_rec(0)),
        Op::UBatchAdd { serial } => ZoneUpdate::BeginBatchAdd(soa_rec(*serial)),
        Op::UFinish { serial } => ZoneUpdate::Finished(soa_rec(*serial)),
        _ => unreachable!("not an updater op"),
    };
    match now("updater.apply", up.apply(upd))? {
        Ok(_) => Ok(()),
        Err(e) => Err(Violation::new("api:updater-error", format!("ZoneUpdater::apply failed: {e}"))),
    }
}

#[derive(Clone, Debug)]
pub enum End {
    Commit { bump: bool },
    UFinish { serial: u8 },
    UBatchDelete,
}

#[derive(Clone, Debug)]
pub struct Batch {
    pub upd: bool,
    pub diff: bool,
    pub ops: Vec<Op>,
    pub end: End,
}

/// Replays the committed batches, one writer per batch, on a fresh zone.
pub fn build_twin(init: &[InitItem], history: &[Batch]) -> Result<Zone, Violation> {
    let zone = build_init(init);
    for b in history {
        if b.upd {
            let mut up = match now("ZoneUpdater::new", Upd::new(zone.clone()))? {
                Ok(u) => u,
                Err(e) => vfail!("api:updater-error", "ZoneUpdater::new: {e}"),
            };
            for op in &b.ops {
                apply_upd_op(&mut up, op)?;
            }
            match b.end {
                End::UFinish { serial } => apply_upd_op(&mut up, &Op::UFinish { serial })?,
                _ => apply_upd_op(&mut up, &Op::UBatchDelete)?,
            }
            drop(up);
        } else {
            let mut wz = now("write", zone.write())?;
            let root = io("open", now("open", wz.open(b.diff))?)?;
            for op in &b.ops {
                apply_node_op(root.as_ref(), op)?;
            }
            drop(root);
            let bump = matches!(b.end, End::Commit { bump: true });
            io("commit", now("commit", wz.commit(bump))?)?;
            drop(wz);
        }
    }
    Ok(zone)
}

//------------ observing a reader ---------------------------------------------

pub fn walk_keys(r: &dyn ReadableZone) -> Vec<WalkKey> {
    let out: Arc<Mutex<Vec<WalkKey>>> = Arc::new(Mutex::new(vec![]));
    let o2 = out.clone();
    r.walk(Box::new(move |owner: StoredName, rrset: &SharedRrset, at_cut: bool| {
        o2.lock().unwrap().push(key_of(&owner, rrset.as_rrset(), at_cut));
    }));
    let v = std::mem::take(&mut *out.lock().unwrap());
    per_record(v)
}

/// An answer as the message `Answer::to_message` produces for a fixed
/// request (ID 0): rcode, AA, the three sections.
pub fn render(ans: &Result<Answer, OutOfZone>, qname: &StoredName, qtype: Rtype) -> Vec<u8> {
    match ans {
        Err(_) => b"out-of-zone".to_vec(),
        Ok(a) => {
            let mut q = MessageBuilder::new_vec().question();
            q.push((qname, qtype)).unwrap();
            let req = q.into_message();
            a.to_message(&req, MessageBuilder::new_vec()).finish()
        }
    }
}

pub fn describe(m: &[u8]) -> String {
    if m == b"out-of-zone" {
        return "OutOfZone".into();
    }
    let Ok(msg) = Message::from_octets(m) else { return format!("{m:02x?}") };
    let mut s = format!("{}{}", msg.header().rcode(), if msg.header().aa() { " AA" } else { "" });
    let secs = [("AN", msg.answer()), ("AU", msg.authority()), ("AD", msg.additional())];
    for (n, sec) in secs {
        let Ok(sec) = sec else { continue };
        let mut recs = vec![];
        for r in sec.flatten() {
            match r.to_record::<ZoneRecordData<_, ParsedName<_>>>() {
                Ok(Some(r)) => recs.push(format!("{} {} {} {}", r.owner(), r.ttl().as_secs(), r.rtype(), r.data())),
                _ => recs.push("?".into()),
            }
        }
        if !recs.is_empty() {
            s.push_str(&format!(" {n}[{}]", recs.join(" | ")));
        }
    }
    s
}

fn is_data(m: &[u8]) -> bool {
    Message::from_octets(m).map(|m| m.header_counts().ancount() > 0).unwrap_or(false)
}

//------------ executor ---------------------------------------------------------

struct Ver {
    content: Content,
    walk: Vec<WalkKey>,
    nodes: BTreeSet<RelName>,
    twin: Box<dyn ReadableZone>,
    _twin_zone: Zone,
    cache: HashMap<(RelName, u8), Vec<u8>>,
}

struct Reader {
    r: Box<dyn ReadableZone>,
    k: usize,
    commits: u32,
    aborts: u32,
    between: bool,
}

enum Writer {
    Node { wz: Box<dyn WritableZone>, root: Option<Box<dyn WritableZoneNode>>, diff: bool },
    Upd(Upd),
}

pub struct Exec<'a> {
    ctx: &'a mut Ctx,
    case: &'a Case,
    zone: Zone,
    readers: Vec<Option<Reader>>,
    writer: Option<Writer>,
    pending: Option<WriteFut>,
    vers: Vec<Ver>,
    working: Option<Content>,
    working_nodes: BTreeSet<RelName>,
    live_nodes: BTreeSet<RelName>,
    fresh_in_batch: BTreeSet<RelName>,
    abandoned_nodes: BTreeSet<RelName>,
    history: Vec<Batch>,
    batch: Vec<Op>,
    removed_in_batch: BTreeSet<(RelName, u16)>,
    cleared_in_batch: bool,
    aborted_updates: BTreeSet<(RelName, RrSpec)>,
    touched: Vec<RelName>,
    step: usize,
    pub nontrivial: bool,
}

impl<'a> Exec<'a> {
    pub fn new(case: &'a Case, ctx: &'a mut Ctx) -> Result<Self, Violation> {
        let zone = build_init(&case.init);
        let mut nodes = BTreeSet::new();
        let content = init_content(&case.init, &mut nodes);
        let twin_zone = build_twin(&case.init, &[])?;
        let mut touched: Vec<RelName> = vec![vec![]];
        for n in content.keys() {
            if !touched.contains(n) {
                touched.push(n.clone());
            }
        }
        let v0 = Ver { walk: expected_walk(&content), content, nodes: nodes.clone(), twin: twin_zone.read(), _twin_zone: twin_zone, cache: HashMap::new() };
        Ok(Exec {
            ctx,
            case,
            zone,
            readers: (0..SLOTS).map(|_| None).collect(),
            writer: None,
            pending: None,
            vers: vec![v0],
            working: None,
            working_nodes: BTreeSet::new(),
            live_nodes: nodes,
            fresh_in_batch: BTreeSet::new(),
            abandoned_nodes: BTreeSet::new(),
            history: vec![],
            batch: vec![],
            removed_in_batch: BTreeSet::new(),
            cleared_in_batch: false,
            aborted_updates: BTreeSet::new(),
            touched,
            step: 0,
            nontrivial: false,
        })
    }

    fn ctxline(&self, slot: usize) -> String {
        let r = self.readers[slot].as_ref().unwrap();
        format!(
            "after op #{} ({}), reader r{slot} pinned at version {} of {}, writer {}",
            self.step,
            self.case.ops.get(self.step).map(|o| o.show()).unwrap_or_else(|| "end".into()),
            r.k,
            self.vers.len() - 1,
            match &self.writer {
                None => "none".to_string(),
                Some(_) => format!("alive with {} uncommitted op(s)", self.batch.len()),
            }
        )
    }

    fn note_name(&mut self, n: &RelName) {
        if let Some(p) = self.touched.iter().position(|x| x == n) {
            let x = self.touched.remove(p);
            self.touched.push(x);
        } else {
            self.touched.push(n.clone());
        }
    }

    //--- model transitions for write ops

    fn model_touch(&mut self, name: &[u8]) {
        for p in prefixes(name) {
            if !self.live_nodes.contains(p) {
                self.fresh_in_batch.insert(p.to_vec());
            }
        }
        touch(name, &mut [&mut self.live_nodes, &mut self.working_nodes]);
    }

    /// Is there, on the lookup path of `name`, a node first created by a
    /// writer that was abandoned?
    fn abandoned_on_path(&self, name: &RelName) -> Option<RelName> {
        if name.first() == Some(&OUT_OF_ZONE) {
            return None;
        }
        for p in prefixes(name) {
            if self.abandoned_nodes.contains(p) {
                return Some(p.to_vec());
            }
            let mut wc = p[..p.len() - 1].to_vec();
            wc.push(2);
            if self.abandoned_nodes.contains(&wc) {
                return Some(wc);
            }
        }
        None
    }

    fn model_node_op(&mut self, op: &Op) {
        match op {
            Op::Update { name, rr } => {
                self.model_touch(name);
                let key = (name.clone(), rr.rtype().to_int());
                let w = self.working.as_mut().unwrap();
                if rr.vals.is_empty() {
                    if let Some(n) = w.get_mut(name) {
                        if n.rrsets.remove(&key.1).is_some() {
                            self.removed_in_batch.insert(key);
                        }
                    }
                } else {
                    if self.removed_in_batch.contains(&key) {
                        self.ctx.class("update-after-remove-in-one-version");
                    }
                    w.entry(name.clone()).or_default().rrsets.insert(key.1, rr.build());
                }
            }
            Op::Remove { name, rt } => {
                self.model_touch(name);
                let key = (name.clone(), RTYPES[*rt as usize % RTYPES.len()].to_int());
                if self.vers.len() == 1 {
                    self.ctx.class("remove-in-first-new-version");
                }
                let last = &self.vers.last().unwrap().content;
                let w = self.working.as_mut().unwrap();
                if let Some(n) = w.get_mut(name) {
                    if n.rrsets.remove(&key.1).is_some() {
                        let in_last = last.get(name).map(|n| n.rrsets.contains_key(&key.1)).unwrap_or(false);
                        if !in_last {
                            self.ctx.class("remove-of-item-created-in-same-version");
                        }
                        self.removed_in_batch.insert(key);
                    }
                } else {
                    self.ctx.class("remove-of-absent-item");
                }
            }
            Op::RemoveAll { name } => {
                self.model_touch(name);
                if self.vers.len() == 1 {
                    self.ctx.class("remove-in-first-new-version");
                }
                let w = self.working.as_mut().unwrap();
                for (n, node) in w.iter_mut() {
                    if n.starts_with(name) {
                        for t in node.rrsets.keys() {
                            self.removed_in_batch.insert((n.clone(), *t));
                            self.cleared_in_batch = true;
                        }
                        if !matches!(node.special, SpecialC::None) {
                            self.cleared_in_batch = true;
                        }
                        node.rrsets.clear();
                        node.special = SpecialC::None;
                    }
                }
            }
            Op::MakeCut { name, cut } => {
                self.model_touch(name);
                self.working.as_mut().unwrap().entry(name.clone()).or_default().special = SpecialC::Cut(cut.build(name));
            }
            Op::MakeCname { name, target, ttl } => {
                self.model_touch(name);
                self.working.as_mut().unwrap().entry(name.clone()).or_default().special = SpecialC::Cname(cname_rr(*target, *ttl));
            }
            Op::MakeRegular { name } => {
                self.model_touch(name);
                self.working.as_mut().unwrap().entry(name.clone()).or_default().special = SpecialC::None;
            }
            Op::GetRrset { name, .. } => self.model_touch(name),
            _ => unreachable!(),
        }
    }

    fn model_upd_op(&mut self, op: &Op) {
        match op {
            Op::UAdd { name, rt, ttl, val } | Op::UDel { name, rt, ttl, val } => {
                self.model_touch(name);
                let rtype = RTYPES[*rt as usize % 5];
                let key = (name.clone(), rtype.to_int());
                let data = mk_data(rtype, *val);
                let add = matches!(op, Op::UAdd { .. });
                if !add && self.vers.len() == 1 {
                    self.ctx.class("remove-in-first-new-version");
                }
                let w = self.working.as_mut().unwrap();
                let existing: Vec<_> = w.get(name).and_then(|n| n.rrsets.get(&key.1)).map(|r| r.data().to_vec()).unwrap_or_default();
                let mut r = Rrset::new(rtype, Ttl::from_secs(TTLS[*ttl as usize % TTLS.len()]));
                if add && existing.contains(&data) {
                    // RFC 5936 §2.2 / RFC 2181 §5: a record that is already in the
                    // RRset is ignored (library behaviour since the repair
                    // "ZoneUpdater ignores a record that is already present")
                    self.ctx.class("updater-add-duplicate-ignored");
                    return;
                }
                if add {
                    if self.removed_in_batch.contains(&key) {
                        self.ctx.class("update-after-remove-in-one-version");
                    }
                    r.push_data(data);
                    for d in existing {
                        r.push_data(d);
                    }
                } else {
                    for d in existing {
                        if d != data {
                            r.push_data(d);
                        }
                    }
                }
                if r.is_empty() {
                    if let Some(n) = w.get_mut(name) {
                        if n.rrsets.remove(&key.1).is_some() {
                            self.removed_in_batch.insert(key);
                        }
                    }
                } else {
                    w.entry(name.clone()).or_default().rrsets.insert(key.1, SharedRrset::new(r));
                }
            }
            Op::UDelAll => {
                if self.vers.len() == 1 {
                    self.ctx.class("remove-in-first-new-version");
                }
                let w = self.working.as_mut().unwrap();
                for (n, node) in w.iter_mut() {
                    for t in node.rrsets.keys() {
                        self.removed_in_batch.insert((n.clone(), *t));
                        self.cleared_in_batch = true;
                    }
                    node.rrsets.clear();
                    node.special = SpecialC::None;
                }
            }
            Op::UBatchAdd { serial } | Op::UFinish { serial } => {
                let mut r = Rrset::new(Rtype::SOA, Ttl::from_secs(3600));
                r.push_data(ZoneRecordData::Soa(mk_soa(2000 + *serial as u32)));
                self.working.as_mut().unwrap().entry(vec![]).or_default().rrsets.insert(Rtype::SOA.to_int(), SharedRrset::new(r));
            }
            _ => {}
        }
    }

    //--- writer life cycle

    fn begin_working(&mut self) {
        self.working = Some(self.vers.last().unwrap().content.clone());
        self.working_nodes.clear();
        self.fresh_in_batch.clear();
        self.batch.clear();
        self.removed_in_batch.clear();
        self.cleared_in_batch = false;
    }

    fn model_commit(&mut self, end: End, upd: bool, diff: bool) -> CaseResult {
        let mut content = self.working.take().unwrap();
        if let End::Commit { bump: true } = end {
            let before = soa_of(&content);
            apply_bump(&self.vers.last().unwrap().content, &mut content);
            if soa_of(&content) != before {
                self.ctx.class("commit:bump-applied");
            }
        }
        // empty nodes are not content
        content.retain(|_, n| !n.rrsets.is_empty() || !matches!(n.special, SpecialC::None));
        for op in &self.batch {
            if let Op::Update { name, rr } = op {
                if self.aborted_updates.contains(&(name.clone(), rr.clone())) {
                    self.ctx.class("update-abort-same-update-commit");
                }
            }
        }
        self.history.push(Batch { upd, diff, ops: std::mem::take(&mut self.batch), end });
        let mut nodes = self.vers.last().unwrap().nodes.clone();
        nodes.extend(std::mem::take(&mut self.working_nodes));
        let twin_zone = build_twin(&self.case.init, &self.history)?;
        {
            let tw = walk_keys(twin_zone.read().as_ref());
            let want = expected_walk(&content);
            vensure!(tw == want, "twin:walk-differs-from-model", "version {} (sequential replay of the committed batches on a fresh zone): walk {tw:?}\n != model {want:?}\ncase: {}", self.vers.len(), self.case.show());
        }
        self.vers.push(Ver { walk: expected_walk(&content), content, nodes, twin: twin_zone.read(), _twin_zone: twin_zone, cache: HashMap::new() });
        for r in self.readers.iter_mut().flatten() {
            r.commits += 1;
            if r.between {
                self.ctx.class("reader-acquired-between-open-and-commit");
                r.between = false;
            }
        }
        self.ctx.class("commit");
        if self.vers.len() >= 5 {
            self.ctx.class("versions>=4");
        }
        Ok(())
    }

    fn model_abort(&mut self) {
        let real = self.batch.iter().any(|o| !matches!(o, Op::GetRrset { .. }));
        if real {
            self.ctx.class("abort-with-changes");
            if self.cleared_in_batch {
                self.ctx.class("abort-after-remove-all");
            }
            for op in &self.batch {
                if let Op::Update { name, rr } = op {
                    self.aborted_updates.insert((name.clone(), rr.clone()));
                }
            }
            for r in self.readers.iter_mut().flatten() {
                r.aborts += 1;
                r.between = false;
            }
        } else {
            self.ctx.class("abort-without-changes");
        }
        self.abandoned_nodes.extend(std::mem::take(&mut self.fresh_in_batch));
        self.working = None;
        self.working_nodes.clear();
        self.batch.clear();
    }

    fn poll_once(f: &mut WriteFut) -> Poll<Box<dyn WritableZone>> {
        let w = noop_waker();
        let mut cx = Context::from_waker(&w);
        f.as_mut().poll(&mut cx)
    }

    fn writer_gone(&mut self) -> CaseResult {
        self.writer = None;
        self.working = None;
        if let Some(mut p) = self.pending.take() {
            match Self::poll_once(&mut p) {
                Poll::Ready(wz) => {
                    self.ctx.class("second-writer-ready-after-first-dropped");
                    self.writer = Some(Writer::Node { wz, root: None, diff: false });
                    self.begin_working();
                }
                Poll::Pending => vfail!("write:second-writer-still-pending-after-first-dropped", "the parked write() future is still Pending although the first writer was dropped (op #{})", self.step),
            }
        }
        Ok(())
    }

    fn ensure_open(&mut self) -> CaseResult {
        if let Some(Writer::Node { wz, root, diff }) = &mut self.writer {
            if root.is_none() {
                *root = Some(io("open", now("open", wz.open(*diff))?)?);
            }
        }
        Ok(())
    }

    //--- one op

    pub fn run(&mut self) -> CaseResult {
        for i in 0..self.case.ops.len() {
            self.step = i;
            let op = self.case.ops[i].clone();
            let hot = self.exec_op(&op)?;
            self.check_all(&hot)?;
        }
        self.step = self.case.ops.len();
        // final complete sweep of every held reader
        for slot in 0..SLOTS {
            if self.readers[slot].is_some() {
                self.sweep(slot)?;
            }
        }
        Ok(())
    }

    fn exec_op(&mut self, op: &Op) -> Result<Vec<RelName>, Violation> {
        let mut hot: Vec<RelName> = vec![];
        match op {
            Op::Acquire(s) => {
                let r = self.zone.read();
                let between = self.writer.is_some() && !self.batch.is_empty();
                self.readers[*s as usize] = Some(Reader { r, k: self.vers.len() - 1, commits: 0, aborts: 0, between });
                if self.writer.is_some() {
                    self.ctx.class("reader-acquired-while-writer-alive");
                }
            }
            Op::DropReader(s) => self.readers[*s as usize] = None,
            Op::Query { slot, name, qt } => {
                if self.readers[*slot as usize].is_some() {
                    self.check_query(*slot as usize, name, *qt)?;
                    self.note_name(name);
                }
            }
            Op::Walk(s) => {
                if self.readers[*s as usize].is_some() {
                    self.sweep(*s as usize)?;
                }
            }
            Op::OpenWriter { diff } => {
                let wz = now("write", self.zone.write())?;
                self.writer = Some(Writer::Node { wz, root: None, diff: *diff });
                self.begin_working();
                self.ensure_open()?;
                self.ctx.class(if *diff { "writer:node-api+diff" } else { "writer:node-api" });
            }
            Op::Update { name, .. }
            | Op::Remove { name, .. }
            | Op::RemoveAll { name }
            | Op::MakeCut { name, .. }
            | Op::MakeCname { name, .. }
            | Op::MakeRegular { name }
            | Op::GetRrset { name, .. } => {
                self.ensure_open()?;
                self.model_node_op(op);
                let Some(Writer::Node { root: Some(root), .. }) = &self.writer else { vfail!("harness:no-writer", "decoder/executor state mismatch at op #{}", self.step) };
                let got = apply_node_op(root.as_ref(), op)?;
                if let Some(got) = got {
                    let Op::GetRrset { rt, .. } = op else { unreachable!() };
                    let want = self.working.as_ref().unwrap().get(name).and_then(|n| n.rrsets.get(&RTYPES[*rt as usize % RTYPES.len()].to_int())).cloned();
                    let g = got.as_ref().map(|r| key_of(&abs_name(name), r, false));
                    let w = want.as_ref().map(|r| key_of(&abs_name(name), r, false));
                    vensure!(g == w, "get_rrset:writer-does-not-see-own-working-version", "op #{}: get_rrset({}) returned {g:?}, the writer's working version has {w:?}\ncase: {}", self.step, rel_str(name), self.case.show());
                }
                // get_rrset descends with update_child and may create nodes:
                // it is part of the batch the twin replays
                self.batch.push(op.clone());
                self.note_name(name);
                hot.push(name.clone());
            }
            Op::Reopen => {
                if let Some(Writer::Node { root, .. }) = &mut self.writer {
                    *root = None;
                }
                self.ensure_open()?;
                self.ctx.class("reopen-without-commit");
            }
            Op::Commit { bump, keep } => {
                let Some(Writer::Node { wz, root, diff }) = &mut self.writer else { vfail!("harness:no-writer", "commit without writer at op #{}", self.step) };
                *root = None; // no dangling nodes at commit (documented need of the diff builder)
                let diff = *diff;
                io("commit", now("commit", wz.commit(*bump))?)?;
                if diff {
                    self.ctx.class("commit:with-diff");
                }
                self.model_commit(End::Commit { bump: *bump }, false, diff)?;
                if *keep {
                    self.ctx.class("commit:writer-kept");
                    self.begin_working();
                } else {
                    self.writer_gone()?;
                }
            }
            Op::Abort => {
                match self.writer.take() {
                    Some(Writer::Node { wz, root, .. }) => {
                        drop(root);
                        drop(wz);
                    }
                    Some(Writer::Upd(u)) => {
                        drop(u);
                        self.ctx.class("updater-dropped-midway");
                    }
                    None => {}
                }
                self.model_abort();
                self.writer_gone()?;
            }
            Op::TryOpenSecond => {
                if let Some(p) = &mut self.pending {
                    match Self::poll_once(p) {
                        Poll::Pending => self.ctx.class("second-writer-pending-repolled"),
                        Poll::Ready(_) => vfail!("write:second-writer-ready-while-first-alive", "a parked write() future became Ready at op #{} while the first writer is alive\ncase: {}", self.step, self.case.show()),
                    }
                } else {
                    let mut f: WriteFut = self.zone.write();
                    match Self::poll_once(&mut f) {
                        Poll::Ready(wz) => {
                            vensure!(self.writer.is_none(), "write:second-writer-ready-while-first-alive", "write() polled once was Ready at op #{} while a writer is alive\ncase: {}", self.step, self.case.show());
                            drop(wz);
                            self.ctx.class("second-writer-ready-when-free");
                        }
                        Poll::Pending => {
                            vensure!(self.writer.is_some(), "write:pending-though-no-writer", "write() polled once was Pending at op #{} though no writer is alive\ncase: {}", self.step, self.case.show());
                            self.pending = Some(f);
                            self.ctx.class("second-writer-pending-while-first-alive");
                        }
                    }
                }
            }
            Op::DropPending => self.pending = None,
            Op::OpenUpdater => {
                let up = match now("ZoneUpdater::new", Upd::new(self.zone.clone()))? {
                    Ok(u) => u,
                    Err(e) => vfail!("api:updater-error", "ZoneUpdater::new: {e}"),
                };
                self.writer = Some(Writer::Upd(up));
                self.begin_working();
                self.ctx.class("writer:updater");
            }
            Op::UAdd { .. } | Op::UDel { .. } | Op::UDelAll | Op::UBatchAdd { .. } => {
                self.model_upd_op(op);
                let Some(Writer::Upd(up)) = &mut self.writer else { vfail!("harness:no-writer", "updater op without updater at op #{}", self.step) };
                apply_upd_op(up, op)?;
                self.batch.push(op.clone());
                if let Op::UAdd { name, .. } | Op::UDel { name, .. } = op {
                    self.note_name(name);
                    hot.push(name.clone());
                }
            }
            Op::UBatchDelete => {
                let Some(Writer::Upd(up)) = &mut self.writer else { vfail!("harness:no-writer", "updater op without updater at op #{}", self.step) };
                apply_upd_op(up, op)?;
                self.model_commit(End::UBatchDelete, true, true)?;
                self.begin_working();
                self.ctx.class("updater:batch-commit");
            }
            Op::UFinish { serial } => {
                self.model_upd_op(op);
                let Some(Writer::Upd(up)) = &mut self.writer else { vfail!("harness:no-writer", "updater op without updater at op #{}", self.step) };
                apply_upd_op(up, op)?;
                self.model_commit(End::UFinish { serial: *serial }, true, true)?;
                self.writer_gone()?;
                self.ctx.class("updater:finished");
            }
        }
        Ok(hot)
    }

    //--- checks

    fn check_walk(&mut self, slot: usize) -> CaseResult {
        let r = self.readers[slot].as_ref().unwrap();
        let got = walk_keys(r.r.as_ref());
        let ver = &self.vers[r.k];
        if got != ver.walk {
            let missing: Vec<_> = ver.walk.iter().filter(|k| !got.contains(k)).collect();
            let extra: Vec<_> = got.iter().filter(|k| !ver.walk.contains(k)).collect();
            // attribute: does the walk equal another version or the working set?
            let mut what = "other";
            if let Some(w) = &self.working {
                if got == expected_walk(w) {
                    what = "equals-uncommitted-working-set";
                }
            }
            if what == "other" {
                if let Some(j) = self.vers.iter().position(|v| v.walk == got) {
                    what = if j > r.k { "equals-later-version" } else { "equals-earlier-version" };
                }
            }
            vfail!(
                format!("walk:differs-from-pinned-version:{what}"),
                "{}\nwalk is not the pinned version's content\n missing: {missing:?}\n extra:   {extra:?}\ncase: {}",
                self.ctxline(slot),
                self.case.show()
            );
        }
        Ok(())
    }

    fn twin_answer(&mut self, k: usize, name: &RelName, qt: u8) -> Vec<u8> {
        let ver = &mut self.vers[k];
        if let Some(v) = ver.cache.get(&(name.clone(), qt)) {
            return v.clone();
        }
        let qn = qname_of(name);
        let qtype = QTYPES[qt as usize % QTYPES.len()];
        let v = render(&ver.twin.query(qn.clone(), qtype), &qn, qtype);
        ver.cache.insert((name.clone(), qt), v.clone());
        v
    }

    /// Is there, on the path to `name`, a node that exists in the zone under
    /// test but was created after (or outside) the reader's version?
    fn phantom_on_path(&self, k: usize, name: &RelName) -> Option<RelName> {
        if name.first() == Some(&OUT_OF_ZONE) {
            return None;
        }
        for p in prefixes(name) {
            if !self.vers[k].nodes.contains(p) {
                if self.live_nodes.contains(p) {
                    return Some(p.to_vec());
                }
                // no node for this label: the lookup turns to the wildcard
                // sibling, which may itself be such a node
                let mut wc = p[..p.len() - 1].to_vec();
                wc.push(2);
                return if self.live_nodes.contains(&wc) && !self.vers[k].nodes.contains(&wc) { Some(wc) } else { None };
            }
        }
        None
    }

    fn check_query(&mut self, slot: usize, name: &RelName, qt: u8) -> CaseResult {
        let k = self.readers[slot].as_ref().unwrap().k;
        let qn = qname_of(name);
        let qtype = QTYPES[qt as usize % QTYPES.len()];
        let live_ans = self.readers[slot].as_ref().unwrap().r.query(qn.clone(), qtype);
        let mut mismatch: Option<(String, Vec<u8>, Vec<u8>)> = None;
        if qtype == Rtype::ANY {
            // RFC 8482 latitude: any one RRset of the name may be returned.
            let live_any = render(&live_ans, &qn, qtype);
            let want_any = self.twin_answer(k, name, qt);
            let live_data_type = match &live_ans {
                Ok(a) => match a.content() {
                    domain::zonetree::AnswerContent::Data(rr) => Some(rr.rtype()),
                    _ => None,
                },
                Err(_) => None,
            };
            if live_any == want_any {
                // identical
            } else if let Some(t) = live_data_type {
                match QTYPES.iter().position(|q| *q == t) {
                    Some(ti) => {
                        let live_t = render(&live_ans, &qn, t);
                        let want = self.twin_answer(k, name, ti as u8);
                        if live_t != want {
                            mismatch = Some(("any-returned-rrset-not-of-pinned-version".into(), live_t, want));
                        }
                    }
                    None => mismatch = Some(("answer-differs-from-twin".into(), live_any, want_any)),
                }
            } else {
                let mut found = None;
                for ti in 0..QTYPES.len() - 1 {
                    let tw = self.twin_answer(k, name, ti as u8);
                    // data at the name for a concrete type, not via CNAME
                    if is_data(&tw) && answer_type_matches(&tw, QTYPES[ti]) {
                        found = Some(tw);
                        break;
                    }
                }
                match found {
                    Some(tw) => mismatch = Some(("any-nodata-though-records-exist".into(), live_any, tw)),
                    None => mismatch = Some(("answer-differs-from-twin".into(), live_any, want_any)),
                }
            }
        } else {
            let live = render(&live_ans, &qn, qtype);
            let want = self.twin_answer(k, name, qt);
            if live != want {
                mismatch = Some(("answer-differs-from-twin".into(), live, want));
            }
        }
        if let Some((kind, live, want)) = mismatch {
            let detail = |me: &Self, extra: &str| {
                format!(
                    "{}\nquery {} {} {extra}\n reader answers: {}\n twin (committed batches 1..{k} only) answers: {}\ncase: {}",
                    me.ctxline(slot),
                    qn,
                    qtype,
                    describe(&live),
                    describe(&want),
                    me.case.show()
                )
            };
            if let Some(p) = self.phantom_on_path(k, name) {
                let d = detail(self, &format!("[node {} exists in the tree but was created outside the reader's version]", rel_str(&p)));
                self.ctx.class("known:old-reader-sees-node-created-later");
                self.ctx.report(Violation::new(SIG_PHANTOM, d))?;
            } else if let Some(p) = self.abandoned_on_path(name) {
                let d = detail(self, &format!("[node {} was first created by a writer that was abandoned]", rel_str(&p)));
                self.ctx.class("known:node-left-by-abandoned-writer");
                self.ctx.report(Violation::new(SIG_ABANDONED, d))?;
            } else {
                let d = detail(self, "");
                // (report: if this signature is listed as known the case goes on)
                self.ctx.report(Violation::new(format!("query:{kind}"), d))?;
            }
        }
        Ok(())
    }

    /// Complete check of one reader: walk + all known names x all types.
    fn sweep(&mut self, slot: usize) -> CaseResult {
        self.check_walk(slot)?;
        let mut names = self.touched.clone();
        let extra: Vec<RelName> = names.iter().filter(|n| n.len() < 3).map(|n| { let mut c = n.clone(); c.push(4); c }).collect();
        names.extend(extra);
        names.push(vec![OUT_OF_ZONE]);
        for n in names {
            for qt in 0..QTYPES.len() {
                self.check_query(slot, &n, qt as u8)?;
            }
        }
        self.ctx.class("full-sweep");
        Ok(())
    }

    fn check_all(&mut self, hot: &[RelName]) -> CaseResult {
        // names: the op's name, its parent, a child, the sibling wildcard,
        // plus the two most recently touched names
        let mut names: Vec<RelName> = vec![];
        let mut add = |n: RelName| {
            if !names.contains(&n) {
                names.push(n);
            }
        };
        for h in hot {
            add(h.clone());
            if !h.is_empty() {
                add(h[..h.len() - 1].to_vec());
                let mut sib = h[..h.len() - 1].to_vec();
                sib.push(4);
                add(sib);
            }
            if h.len() < 3 {
                let mut c = h.clone();
                c.push(0);
                add(c);
            }
        }
        for n in self.touched.iter().rev().take(2) {
            add(n.clone());
        }
        let rot = (self.step % (QTYPES.len() - 1)) as u8;
        let qts: Vec<u8> = vec![0, 8, rot];
        let mut distinct = BTreeSet::new();
        for slot in 0..SLOTS {
            let Some(r) = &self.readers[slot] else { continue };
            distinct.insert(r.k);
            if r.commits >= 1 {
                self.ctx.class("reader-held-across-commit");
            }
            if r.aborts >= 1 {
                self.ctx.class("reader-held-across-abort");
            }
            if r.commits >= 1 && r.aborts >= 1 {
                self.ctx.class("reader-held-across-commit-and-abort");
                self.nontrivial = true;
            }
            if r.commits >= 3 {
                self.ctx.class("reader-held-across>=3-commits");
            }
            self.check_walk(slot)?;
            for n in &names {
                for qt in &qts {
                    self.check_query(slot, n, *qt)?;
                }
            }
        }
        if distinct.len() >= 3 {
            self.ctx.class("readers-on>=3-distinct-versions");
        }
        Ok(())
    }
}

/// Label index used for a query name outside the zone.
pub const OUT_OF_ZONE: u8 = 200;

fn qname_of(name: &RelName) -> StoredName {
    use std::str::FromStr;
    if name.first() == Some(&OUT_OF_ZONE) {
        StoredName::from_str("www.elsewhere.invalid.").unwrap()
    } else {
        abs_name(name)
    }
}

/// Does the answer section hold records of type `t` (i.e. it is data of the
/// queried type, not a CNAME for another type)?
fn answer_type_matches(m: &[u8], t: Rtype) -> bool {
    let Ok(msg) = Message::from_octets(m) else { return false };
    let Ok(an) = msg.answer() else { return false };
    an.flatten().any(|r| r.rtype() == t)
}
