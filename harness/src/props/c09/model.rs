//! C09 — small zone model: names, record constructors, per-version content,
//! the expected result of a walk.
//!
//! The model stores library *value* types (`SharedRrset`, `ZoneCut`,
//! `SharedRr`) only as opaque payloads; everything it computes (what a walk
//! must enumerate) is derived from its own bookkeeping of the write
//! operations, never from reading the zone under test.
use bytes::Bytes;
use domain::base::iana::{DigestAlgorithm, Rtype, SecurityAlgorithm};
use domain::base::name::Name;
use domain::base::{Record, Serial, Ttl};
use domain::rdata::dnssec::Ds;
use domain::rdata::{Aaaa, Cname, Mx, Ns, Soa, Txt, ZoneRecordData, A};
use domain::zonetree::types::{StoredRecordData, ZoneCut};
use domain::zonetree::{Rrset, SharedRr, SharedRrset, StoredName, StoredRecord};
use std::collections::{BTreeMap, BTreeSet};
use std::net::{Ipv4Addr, Ipv6Addr};
use std::str::FromStr;

/// A name relative to the apex: label indices, the label closest to the
/// apex first. The apex itself is the empty vector.
pub type RelName = Vec<u8>;

pub const APEX: &str = "c9.test.";
pub const LABELS: [&str; 5] = ["a", "b", "*", "w", "x"];
/// Record types that can be stored as plain RRsets by the generated ops.
pub const RTYPES: [Rtype; 6] = [Rtype::A, Rtype::TXT, Rtype::AAAA, Rtype::MX, Rtype::NS, Rtype::SOA];
/// Query types.
pub const QTYPES: [Rtype; 9] = [Rtype::A, Rtype::TXT, Rtype::AAAA, Rtype::MX, Rtype::NS, Rtype::SOA, Rtype::CNAME, Rtype::DS, Rtype::ANY];
pub const TTLS: [u32; 3] = [3600, 60, 86400];
const TARGETS: [&str; 4] = ["t0.c9.test.", "a.c9.test.", "b.a.c9.test.", "host.other.invalid."];

pub fn apex_name() -> StoredName {
    Name::from_str(APEX).unwrap()
}

pub fn abs_name(rel: &[u8]) -> StoredName {
    let mut s = String::new();
    for l in rel.iter().rev() {
        s.push_str(LABELS[*l as usize % LABELS.len()]);
        s.push('.');
    }
    s.push_str(APEX);
    Name::from_str(&s).unwrap()
}

pub fn rel_str(rel: &[u8]) -> String {
    if rel.is_empty() {
        return "@".into();
    }
    let mut s = String::new();
    for (i, l) in rel.iter().rev().enumerate() {
        if i > 0 {
            s.push('.');
        }
        s.push_str(LABELS[*l as usize % LABELS.len()]);
    }
    s
}

fn target(v: u8) -> StoredName {
    Name::from_str(TARGETS[v as usize % TARGETS.len()]).unwrap()
}

/// Record data of type `RTYPES[rt]` with value id `v` (pure function).
pub fn mk_data(rt: Rtype, v: u8) -> StoredRecordData {
    match rt {
        Rtype::A => ZoneRecordData::A(A::new(Ipv4Addr::new(192, 0, 2, v))),
        Rtype::AAAA => ZoneRecordData::Aaaa(Aaaa::new(Ipv6Addr::new(0x2001, 0xdb8, 0, 0, 0, 0, 0, v as u16))),
        Rtype::TXT => ZoneRecordData::Txt(Txt::build_from_slice(format!("v{v}").as_bytes()).unwrap()),
        Rtype::MX => ZoneRecordData::Mx(Mx::new(10 + v as u16, target(v))),
        Rtype::NS => ZoneRecordData::Ns(Ns::new(target(v))),
        Rtype::CNAME => ZoneRecordData::Cname(Cname::new(target(v))),
        Rtype::SOA => ZoneRecordData::Soa(mk_soa(1000 + v as u32)),
        Rtype::DS => ZoneRecordData::Ds(
            Ds::new(v as u16, SecurityAlgorithm::ECDSAP256SHA256, DigestAlgorithm::SHA256, Bytes::from(vec![v; 32])).unwrap(),
        ),
        _ => unreachable!("model type"),
    }
}

pub fn mk_soa(serial: u32) -> Soa<StoredName> {
    Soa::new(
        Name::from_str("ns.c9.test.").unwrap(),
        Name::from_str("h.c9.test.").unwrap(),
        Serial(serial),
        Ttl::from_secs(7200),
        Ttl::from_secs(900),
        Ttl::from_secs(86400),
        Ttl::from_secs(300),
    )
}

/// Index-only description of an RRset (hashable, printable).
#[derive(Clone, Debug, Hash, PartialEq, Eq, PartialOrd, Ord)]
pub struct RrSpec {
    pub rt: u8,
    pub ttl: u8,
    pub vals: Vec<u8>,
}

impl RrSpec {
    pub fn rtype(&self) -> Rtype {
        RTYPES[self.rt as usize % RTYPES.len()]
    }
    pub fn build(&self) -> SharedRrset {
        let mut r = Rrset::new(self.rtype(), Ttl::from_secs(TTLS[self.ttl as usize % TTLS.len()]));
        for v in &self.vals {
            r.push_data(mk_data(self.rtype(), *v));
        }
        SharedRrset::new(r)
    }
    pub fn show(&self) -> String {
        format!("{}/{}{:?}", self.rtype(), TTLS[self.ttl as usize % TTLS.len()], self.vals)
    }
}

#[derive(Clone, Debug, Hash, PartialEq, Eq)]
pub struct CutSpec {
    pub ns: Vec<u8>,
    pub ds: Option<u8>,
    pub glue: Vec<u8>,
    pub ttl: u8,
}

impl CutSpec {
    pub fn build(&self, at: &[u8]) -> ZoneCut {
        let ttl = Ttl::from_secs(TTLS[self.ttl as usize % TTLS.len()]);
        let mut ns = Rrset::new(Rtype::NS, ttl);
        for v in &self.ns {
            ns.push_data(mk_data(Rtype::NS, *v));
        }
        let ds = self.ds.map(|v| {
            let mut r = Rrset::new(Rtype::DS, ttl);
            r.push_data(mk_data(Rtype::DS, v));
            SharedRrset::new(r)
        });
        let name = abs_name(at);
        let glue: Vec<StoredRecord> = self
            .glue
            .iter()
            .map(|v| {
                let owner = Name::from_str(&format!("g{}.{}", v % 3, name)).unwrap();
                Record::new(owner, domain::base::iana::Class::IN, ttl, mk_data(Rtype::A, 100 + *v))
            })
            .collect();
        ZoneCut { name, ns: SharedRrset::new(ns), ds, glue }
    }
}

#[derive(Clone, Default)]
pub enum SpecialC {
    #[default]
    None,
    Cut(ZoneCut),
    Cname(SharedRr),
}

#[derive(Clone, Default)]
pub struct NodeC {
    pub rrsets: BTreeMap<u16, SharedRrset>,
    pub special: SpecialC,
}

/// The content of one zone version as far as a walk can observe it.
pub type Content = BTreeMap<RelName, NodeC>;

/// One enumerated RRset: owner, type, TTL, sorted RDATA (presentation
/// format), at-zone-cut flag.
pub type WalkKey = (String, u16, u32, Vec<String>, bool);

pub fn key_of(owner: &StoredName, rrset: &Rrset, at_cut: bool) -> WalkKey {
    let mut data: Vec<String> = rrset.data().iter().map(|d| d.to_string()).collect();
    data.sort();
    (owner.to_string(), rrset.rtype().to_int(), rrset.ttl().as_secs(), data, at_cut)
}

/// What `walk()` has to enumerate for `content` (sorted multiset).
///
/// Mirrors the documented shape of a walk: every RRset stored at a node; for
/// a zone cut the NS set, the DS set and each glue record (flagged
/// at_zone_cut) and nothing below the cut; for a CNAME node the CNAME.
pub fn expected_walk(content: &Content) -> Vec<WalkKey> {
    let mut out = vec![];
    for (name, node) in content {
        let occluded = (1..name.len()).any(|n| matches!(content.get(&name[..n]).map(|c| &c.special), Some(SpecialC::Cut(_))));
        if occluded {
            continue;
        }
        let owner = abs_name(name);
        for r in node.rrsets.values() {
            out.push(key_of(&owner, r, false));
        }
        match &node.special {
            SpecialC::None => {}
            SpecialC::Cut(cut) => {
                out.push(key_of(&owner, &cut.ns, true));
                if let Some(ds) = &cut.ds {
                    out.push(key_of(&owner, ds, true));
                }
                for g in &cut.glue {
                    let rr: Rrset = g.clone().into();
                    out.push(key_of(g.owner(), &rr, true));
                }
            }
            SpecialC::Cname(c) => {
                let mut r = Rrset::new(Rtype::CNAME, c.ttl());
                r.push_data(c.data().clone());
                out.push(key_of(&owner, &r, false));
            }
        }
    }
    per_record(out)
}

/// The statement is about the *records* a walk enumerates; how they are
/// grouped into callback invocations (one RRset per call, one glue record per
/// call, glue grouped into RRsets, ...) is incidental. Both the observed and
/// the expected walk are therefore compared record by record.
pub fn per_record(keys: Vec<WalkKey>) -> Vec<WalkKey> {
    let mut out = vec![];
    for (owner, rtype, ttl, data, at_cut) in keys {
        for d in data {
            out.push((owner.clone(), rtype, ttl, vec![d], at_cut));
        }
    }
    out.sort();
    out
}

/// All proper and improper non-apex prefixes of a name.
pub fn prefixes(name: &[u8]) -> impl Iterator<Item = &[u8]> {
    (1..=name.len()).map(move |n| &name[..n])
}

pub fn touch(name: &[u8], sets: &mut [&mut BTreeSet<RelName>]) {
    for p in prefixes(name) {
        for s in sets.iter_mut() {
            s.insert(p.to_vec());
        }
    }
}

/// SOA at the apex of a content as `get_soa` defines it: TTL of the set and
/// its first record.
pub fn soa_of(c: &Content) -> Option<SharedRr> {
    c.get(&vec![]).and_then(|n| n.rrsets.get(&Rtype::SOA.to_int())).and_then(|r| r.first())
}

/// The documented effect of `commit(bump_soa_serial = true)`.
pub fn apply_bump(old: &Content, new: &mut Content) {
    let Some(old_soa) = soa_of(old) else { return };
    let new_soa = soa_of(new);
    if new_soa.is_none() || new_soa.as_ref() == Some(&old_soa) {
        let ZoneRecordData::Soa(s) = old_soa.data() else { return };
        let mut r = Rrset::new(Rtype::SOA, old_soa.ttl());
        r.push_data(ZoneRecordData::Soa(Soa::new(
            s.mname().clone(),
            s.rname().clone(),
            s.serial().add(1),
            s.refresh(),
            s.retry(),
            s.expire(),
            s.minimum(),
        )));
        new.entry(vec![]).or_default().rrsets.insert(Rtype::SOA.to_int(), SharedRrset::new(r));
    }
}
