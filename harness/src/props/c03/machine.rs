//! C03 stateful NameBuilder check: generated operation sequences against an
//! abstract model (completed labels + open label), generic over the octets
//! builder (Vec<u8>, BytesMut, octseq Array<N>).
use super::refs::*;
use super::reps::{self, WithName, WithRelName};
use crate::engine::*;
use crate::gen::name as gn;
use crate::gen::*;
use crate::{vensure, vfail};
use arbitrary::Unstructured;
use domain::base::name::{Name, NameBuilder, PushError, PushNameError, ToName, ToRelativeName};
use domain::base::scan::Symbol;
use octseq::builder::{EmptyBuilder, FreezeBuilder, IntoBuilder, OctetsBuilder};

/// Abstract state of a builder.
#[derive(Clone, Debug, PartialEq, Eq)]
pub struct Model {
    /// wire form of the completed labels
    pub done: Vec<u8>,
    /// content of the label under construction
    pub open: Option<Vec<u8>>,
}

impl Model {
    pub fn new() -> Self {
        Model { done: vec![], open: None }
    }
    pub fn len(&self) -> usize {
        self.done.len() + self.open.as_ref().map(|o| 1 + o.len()).unwrap_or(0)
    }
    /// what `finish()` has to return
    pub fn wire(&self) -> Vec<u8> {
        let mut w = self.done.clone();
        if let Some(o) = &self.open {
            w.push(o.len() as u8);
            w.extend_from_slice(o);
        }
        w
    }
    pub fn end_label(&mut self) {
        if let Some(o) = self.open.take() {
            self.done.push(o.len() as u8);
            self.done.extend_from_slice(&o);
        }
    }
    pub fn open_len(&self) -> usize {
        self.open.as_ref().map(|o| o.len()).unwrap_or(0)
    }
    /// Rebuild the model from what the builder shows (used after multi-step
    /// operations that failed half way, where the statement only demands a
    /// usable builder).
    pub fn from_observed(w: &[u8], in_label: bool) -> Result<Model, String> {
        let labels = validate(Kind::Rel, w)?;
        let mut m = Model::new();
        let n = labels.len();
        for (i, l) in labels.into_iter().enumerate() {
            if in_label && i + 1 == n {
                m.open = Some(l);
            } else {
                m.done.push(l.len() as u8);
                m.done.extend_from_slice(&l);
            }
        }
        if in_label && m.open.is_none() {
            return Err("builder says in_label but shows no label".into());
        }
        Ok(m)
    }
}

/// Prediction for one step by the RFC 1035 limits.
#[derive(Clone, Copy, Debug, PartialEq, Eq)]
pub enum Fit {
    Fits,
    LongLabel,
    LongName,
}

impl Model {
    /// Adding `n` octets to the open label or as a new label.
    pub fn fit_content(&self, n: usize) -> Fit {
        if n == 0 {
            return Fit::Fits;
        }
        match &self.open {
            Some(o) => {
                if o.len() + n > 63 {
                    Fit::LongLabel
                } else if self.len() + n > 254 {
                    Fit::LongName
                } else {
                    Fit::Fits
                }
            }
            None => {
                if n > 63 {
                    Fit::LongLabel
                } else if self.len() + 1 + n > 254 {
                    Fit::LongName
                } else {
                    Fit::Fits
                }
            }
        }
    }
    pub fn apply_content(&mut self, s: &[u8]) {
        if s.is_empty() {
            return;
        }
        match &mut self.open {
            Some(o) => o.extend_from_slice(s),
            None => self.open = Some(s.to_vec()),
        }
    }
    /// A complete new label of n octets after ending the open one.
    pub fn fit_label(&self, n: usize) -> Fit {
        if n == 0 {
            Fit::Fits
        } else if n > 63 {
            Fit::LongLabel
        } else if self.len() + 1 + n > 254 {
            Fit::LongName
        } else {
            Fit::Fits
        }
    }
}

/// Signature of an unsound acceptance. The one shape that is a known finding
/// (pinned test builder::test::name_limit asserts it) gets its own
/// signature: a NEW label of 1..=63 octets started at `len` with
/// `len + 1 + n == 255`, i.e. the result is exactly one octet over the limit
/// because the length octet was not counted.
pub fn unsound_sig(op: &str, m: &Model, n: usize) -> String {
    let new_label = m.open.is_none() || op == "append_label" || op == "append_dec_u8_label" || op == "append_hex_digit_label";
    let by_one = new_label && (1..=63).contains(&n) && m.len() + 1 + n == 255;
    if by_one {
        format!("{op}:name-too-long-by-one:new-label")
    } else if new_label {
        format!("{op}:accepted-over-limit:new-label")
    } else {
        format!("{op}:accepted-over-limit:in-label")
    }
}

/// Transcript rendering: runs of identical steps are collapsed.
pub fn render(t: &[String]) -> String {
    let mut out = String::new();
    let mut i = 0;
    while i < t.len() {
        let mut j = i;
        while j + 1 < t.len() && t[j + 1] == t[i] {
            j += 1;
        }
        if !out.is_empty() {
            out.push(' ');
        }
        out.push_str(&t[i]);
        if j > i {
            out.push_str(&format!(" x{}", j - i + 1));
        }
        i = j + 1;
    }
    out
}

pub enum Flow {
    Continue,
    /// a known finding was tolerated; the state is outside the model
    Stop,
}

pub trait TB: OctetsBuilder + EmptyBuilder + FreezeBuilder + AsRef<[u8]> + AsMut<[u8]> + Clone {}
impl<T: OctetsBuilder + EmptyBuilder + FreezeBuilder + AsRef<[u8]> + AsMut<[u8]> + Clone> TB for T {}

pub fn observe<B: TB>(b: &NameBuilder<B>) -> (Vec<u8>, bool)
where
    B::Octets: AsRef<[u8]>,
{
    let w = b.clone().finish();
    (w.as_slice().to_vec(), b.in_label())
}

fn hexs(w: &[u8]) -> String {
    if w.len() > 48 {
        format!("[{} octets: {} … {}]", w.len(), hexs(&w[..16]), hexs(&w[w.len() - 8..]))
    } else {
        gn::show(&validate(Kind::Rel, w).unwrap_or_default()) + &format!(" ({} octets)", w.len())
    }
}

/// Compare the builder with the model after a step.
pub fn same_state<B: TB>(op: &str, b: &NameBuilder<B>, m: &Model, after: &str) -> CaseResult
where
    B::Octets: AsRef<[u8]>,
{
    let (w, il) = observe(b);
    vensure!(
        w == m.wire() && il == m.open.is_some(),
        format!("{op}:{after}"),
        "after {op}: builder shows {} in_label={il}, model has {} in_label={}",
        hexs(&w),
        hexs(&m.wire()),
        m.open.is_some()
    );
    vensure!(b.len() == m.len() && b.is_empty() == (m.len() == 0), format!("{op}:len-differs-from-model"), "len() {} vs model {}", b.len(), m.len());
    Ok(())
}

/// A length relative to the remaining budget `room`.
pub fn rel_len(u: &mut Unstructured, room: usize, hard_max: usize) -> usize {
    let n = match pick(u, 12) {
        0 | 1 => room,
        2 => room + 1,
        3 => room.saturating_sub(1),
        4 => room + 2,
        5 => room + 10 + pick(u, 60),
        6 => 63,
        7 => 64,
        8 => 1,
        9 => 62,
        _ => 1 + pick(u, 12),
    };
    n.min(hard_max)
}

pub fn fill(u: &mut Unstructured, n: usize) -> Vec<u8> {
    if n <= 6 {
        (0..n).map(|_| gn::label_byte(u, false)).collect()
    } else {
        let c = gn::label_byte(u, true);
        let mut v = vec![c; n];
        v[0] = gn::label_byte(u, false);
        let k = v.len() - 1;
        v[k] = gn::label_byte(u, false);
        v
    }
}

/// A valid relative name in wire form of exactly `len` octets (len != 1).
pub fn rel_of_len(u: &mut Unstructured, len: usize) -> Vec<u8> {
    let mut w = vec![];
    let mut r = len;
    while r >= 2 {
        let mut n = (r - 1).min(63);
        if r - 1 - n == 1 {
            n -= 1;
        }
        if r > 70 && chance(u, 60) {
            n = 1 + pick(u, n);
            if r - 1 - n == 1 {
                n = if n > 1 { n - 1 } else { n + 1 };
            }
        }
        w.push(n as u8);
        w.extend_from_slice(&fill(u, n));
        r -= n + 1;
    }
    w
}

pub struct Cfg {
    pub tag: &'static str,
    /// capacity of a fixed array builder
    pub cap: Option<usize>,
    /// avoid issuing the known shape (search behind the known finding)
    pub restricted: bool,
    pub max_ops: usize,
}

fn is_short<E: Copy + Into<PushErr>>(e: E) -> bool {
    matches!(e.into(), PushErr::Short)
}
#[derive(Clone, Copy)]
pub enum PushErr {
    Short,
    Other,
}
impl From<PushError> for PushErr {
    fn from(e: PushError) -> Self {
        if e == PushError::ShortBuf { PushErr::Short } else { PushErr::Other }
    }
}
impl From<PushNameError> for PushErr {
    fn from(e: PushNameError) -> Self {
        if e == PushNameError::ShortBuf { PushErr::Short } else { PushErr::Other }
    }
}

/// `append_origin` / `append_name` with the argument in whatever
/// representation `reps::with_abs` / `with_rel` hands over.
pub struct AppendOrigin<B>(pub NameBuilder<B>);
impl<B: TB> WithName for AppendOrigin<B> {
    type Out = Result<Name<B::Octets>, PushNameError>;
    fn call<N: ToName>(self, n: &N) -> Self::Out {
        self.0.append_origin(n)
    }
}
pub struct AppendName<'a, B>(pub &'a mut NameBuilder<B>);
impl<B: TB> WithRelName for AppendName<'_, B> {
    type Out = Result<(), PushNameError>;
    fn call<N: ToRelativeName>(self, n: &N) -> Self::Out {
        self.0.append_name(n)
    }
}

/// Settles one single-step operation whose content effect is "add `s` to the
/// open label or start a new label with it" (`label` = complete label).
#[allow(clippy::too_many_arguments)]
pub fn settle<B: TB, E: Copy + Into<PushErr> + std::fmt::Debug>(
    ctx: &mut Ctx,
    cfg: &Cfg,
    op: &str,
    b: &NameBuilder<B>,
    m: &mut Model,
    before: &Model,
    res: Result<(), E>,
    fit: Fit,
    n: usize,
    apply: impl FnOnce(&mut Model),
    failed_before: &mut bool,
    t: &mut Vec<String>,
) -> Result<Flow, Violation>
where
    B::Octets: AsRef<[u8]>,
{
    match (res, fit) {
        (Ok(()), Fit::Fits) => {
            apply(m);
            same_state(op, b, m, "state-differs-from-model")?;
            if let Some(c) = cfg.cap {
                vensure!(m.len() <= c, format!("{op}:array-overrun"), "{} octets in an array of {c}", m.len());
            }
            ctx.class(format!("{}:{op}:ok", cfg.tag));
            if *failed_before {
                ctx.class(format!("{}:ok-after-failed-op", cfg.tag));
            }
            t.push(format!("{op}({n})=ok"));
            Ok(Flow::Continue)
        }
        (Ok(()), over) => {
            let sig = unsound_sig(op, before, n);
            let (w, _) = observe(b);
            let v = Violation::new(
                sig,
                format!(
                    "{op} with {n} octets returned Ok at len {} (open label: {:?} octets); limits say {over:?}; builder now holds {} octets\nops: {}",
                    before.len(),
                    before.open.as_ref().map(|o| o.len()),
                    w.len(),
                    render(&t)
                ),
            );
            ctx.report(v)?;
            ctx.class(format!("{}:known-shape-tolerated", cfg.tag));
            Ok(Flow::Stop)
        }
        (Err(e), fit) => {
            let short = is_short(e);
            if short {
                vensure!(cfg.cap.is_some(), format!("{op}:shortbuf-on-growable-buffer"), "ShortBuf from a growable builder");
                ctx.class(format!("{}:{op}:shortbuf", cfg.tag));
            } else if fit == Fit::Fits {
                ctx.class(format!("{}:{op}:overstrict", cfg.tag));
            } else {
                ctx.class(format!("{}:{op}:rejected-{}", cfg.tag, if fit == Fit::LongLabel { "label" } else { "name" }));
            }
            // "leaves the builder usable": nothing may have changed
            same_state(op, b, m, "failed-op-changed-state")?;
            *failed_before = true;
            t.push(format!("{op}({n})={e:?}"));
            Ok(Flow::Continue)
        }
    }
}

/// After a multi-step operation failed half way: the builder must still be
/// in a valid state; the model follows it.
fn resync<B: TB>(op: &str, b: &NameBuilder<B>, m: &mut Model) -> CaseResult
where
    B::Octets: AsRef<[u8]>,
{
    let (w, il) = observe(b);
    match Model::from_observed(&w, il) {
        Ok(n) => {
            *m = n;
            Ok(())
        }
        Err(e) => vfail!(format!("{op}:builder-invalid-after-error"), "after failed {op} the builder holds {w:?} in_label={il}: {e}"),
    }
}

/// After a multi-step operation failed half way the builder may hold a
/// PREFIX of the operation's effect (the steps that went in before the
/// failing one) but nothing else: what was built before must be intact.
/// `allowed` lists the states after 0, 1, 2, ... steps.
pub fn resync_among<B: TB>(op: &str, b: &NameBuilder<B>, m: &mut Model, allowed: &[Model], t: &[String]) -> CaseResult
where
    B::Octets: AsRef<[u8]>,
{
    let (w, il) = observe(b);
    if let Err(e) = Model::from_observed(&w, il) {
        vfail!(format!("{op}:builder-invalid-after-error"), "after failed {op} the builder holds {} in_label={il}: {e}\nops: {}", hexs_raw(&w), render(t));
    }
    for a in allowed {
        if a.wire() == w && a.open.is_some() == il && a.len() == b.len() {
            *m = a.clone();
            return Ok(());
        }
    }
    vfail!(
        format!("{op}:failed-op-corrupted-state"),
        "after failed {op} the builder shows {} in_label={il}, which is none of the {} states the operation passes through (before: {} in_label={})\nops: {}",
        hexs_raw(&w),
        allowed.len(),
        hexs_raw(&allowed[0].wire()),
        allowed[0].open.is_some(),
        render(t)
    );
}

pub fn sym_octet(s: Symbol) -> Option<u8> {
    match s {
        Symbol::Char(c) => {
            if (' '..='~').contains(&c) { Some(c as u8) } else { None }
        }
        Symbol::SimpleEscape(b) | Symbol::DecimalEscape(b) => Some(b),
    }
}

fn gen_symbol(u: &mut Unstructured) -> Symbol {
    match pick(u, 10) {
        0 | 1 => Symbol::Char('.'),
        2 => Symbol::SimpleEscape(pickb(u, b".[\\ a\"")),
        3 => Symbol::DecimalEscape(byte(u)),
        4 => Symbol::Char(['\u{e9}', '\n', '\u{7f}', '\0', '\u{4e2d}'][pick(u, 5)]),
        5 => Symbol::SimpleEscape(b'['),
        _ => Symbol::Char(pickb(u, b"abcxyz019-_ *") as char),
    }
}

/// Checks a name value that reached the harness.
pub fn check_value(what: &str, kind: Kind, w: &[u8]) -> CaseResult {
    if let Err(e) = validate(kind, w) {
        let over = match kind {
            Kind::Abs => w.len() as isize - 255,
            Kind::Rel => w.len() as isize - 254,
        };
        let shape = if over == 1 && validate_loose(kind, w) { "too-long-by-one" } else if over > 1 && validate_loose(kind, w) { "too-long" } else { "malformed" };
        vfail!(format!("{what}:invalid-name-value:{shape}"), "{what} produced an invalid {kind:?} name: {e}; octets {}", hexs_raw(w));
    }
    Ok(())
}

/// Structure valid apart from the total length.
fn validate_loose(kind: Kind, w: &[u8]) -> bool {
    let mut i = 0;
    while i < w.len() {
        let n = w[i] as usize;
        if n == 0 {
            return kind == Kind::Abs && i + 1 == w.len();
        }
        if n > 63 || i + 1 + n > w.len() {
            return false;
        }
        i += 1 + n;
    }
    kind == Kind::Rel
}

pub fn hexs_raw(w: &[u8]) -> String {
    let mut s = String::new();
    for (i, b) in w.iter().enumerate() {
        if i >= 80 {
            s.push_str(&format!("… ({} octets)", w.len()));
            break;
        }
        s.push_str(&format!("{b:02x}"));
    }
    s
}

/// The machine. Returns Ok(()) also when a known finding ended the case.
pub fn run_machine<B>(u: &mut Unstructured, ctx: &mut Ctx, cfg: &Cfg) -> CaseResult
where
    B: TB,
    B::Octets: AsRef<[u8]> + IntoBuilder<Builder = B> + Clone,
{
    let mut b = NameBuilder::<B>::new();
    let mut m = Model::new();
    let mut t: Vec<String> = vec![];
    let mut failed_before = false;
    let mut nontrivial = false;
    let mut key: Vec<u64> = vec![];
    // optional start: a prefix close to the limit so that few ops reach it
    if chance(u, 150) {
        let target = match pick(u, 8) {
            0 => 254,
            1 => 253,
            2 => 252,
            3 => 250,
            4 => 248,
            5 => 190 + pick(u, 60),
            _ => 2 + pick(u, 250),
        };
        let target = match cfg.cap {
            Some(c) => target.min(c.saturating_sub(pick(u, 4))),
            None => target,
        };
        let target = if target == 1 { 0 } else { target };
        let w = rel_of_len(u, target);
        let mut raw = B::empty();
        if raw.append_slice(&w).is_ok() {
            match NameBuilder::from_builder(raw) {
                Ok(nb) => {
                    b = nb;
                    m.done = w.clone();
                    t.push(format!("from_builder({})", w.len()));
                    same_state("from_builder", &b, &m, "state-differs-from-model")?;
                }
                Err(e) => vfail!("from_builder:rejected-valid-relative-name", "from_builder refused a valid relative name of {} octets: {e}", w.len()),
            }
        }
    }
    let nops = 1 + pick(u, cfg.max_ops);
    for _ in 0..nops {
        let before = m.clone();
        let room_new = 254usize.saturating_sub(m.len() + 1).min(63);
        let room_in = (63 - m.open_len().min(63)).min(254usize.saturating_sub(m.len()));
        let near = |n: usize, lim: usize| n + 2 >= lim && n <= lim + 2;
        let opk = pick(u, 20);
        key.push(opk as u64);
        let flow = match opk {
            0 | 1 => {
                // push
                let ch = gn::label_byte(u, false);
                let fit = m.fit_content(1);
                let r = b.push(ch);
                settle(ctx, cfg, "push", &b, &mut m, &before, r, fit, 1, |m| m.apply_content(&[ch]), &mut failed_before, &mut t)?
            }
            2 | 3 => {
                // push loop: k pushes relative to the room of the open/new label
                let room = if m.open.is_some() { room_in } else { room_new };
                let k = rel_len(u, room, 70);
                let ch = gn::label_byte(u, true);
                key.push(k as u64);
                let mut fl = Flow::Continue;
                for _ in 0..k {
                    let before = m.clone();
                    let fit = m.fit_content(1);
                    let r = b.push(ch);
                    let failed = r.is_err();
                    fl = settle(ctx, cfg, "push", &b, &mut m, &before, r, fit, 1, |m| m.apply_content(&[ch]), &mut failed_before, &mut t)?;
                    if failed || matches!(fl, Flow::Stop) {
                        break;
                    }
                }
                fl
            }
            4 | 5 | 6 => {
                // append_slice
                let room = if m.open.is_some() { room_in } else { room_new };
                let mut n = if chance(u, 16) { 0 } else { rel_len(u, room, 300) };
                if cfg.restricted && m.open.is_none() && (1..=63).contains(&n) && m.len() + 1 + n == 255 {
                    n -= 1;
                    ctx.class(format!("{}:avoided-known-shape", cfg.tag));
                }
                key.push(n as u64);
                let s = fill(u, n);
                let fit = m.fit_content(n);
                if near(m.open_len() + n, 63) || near(m.len() + n + usize::from(m.open.is_none()), 254) {
                    nontrivial = true;
                }
                let r = b.append_slice(&s);
                settle(ctx, cfg, "append_slice", &b, &mut m, &before, r, fit, n, |m| m.apply_content(&s), &mut failed_before, &mut t)?
            }
            7 => {
                b.end_label();
                m.end_label();
                same_state("end_label", &b, &m, "state-differs-from-model")?;
                t.push("end_label".into());
                Flow::Continue
            }
            8 | 9 | 10 => {
                // append_label
                let room = 254usize.saturating_sub(m.len() + 1).min(63);
                let mut n = if chance(u, 10) { 0 } else { rel_len(u, room, 200) };
                if cfg.restricted && (1..=63).contains(&n) && m.len() + 1 + n == 255 {
                    n -= 1;
                    ctx.class(format!("{}:avoided-known-shape", cfg.tag));
                }
                key.push(n as u64);
                let s = fill(u, n);
                let fit = m.fit_label(n);
                if near(n, 63) || near(m.len() + 1 + n, 254) {
                    nontrivial = true;
                }
                let r = b.append_label(&s);
                if n == 0 {
                    // appending an empty label is a no-op by implementation
                    // (cannot be a label); only the state validity matters
                    vensure!(r.is_ok() || cfg.cap.is_some(), "append_label:empty-slice-error", "{r:?}");
                    resync("append_label", &b, &mut m)?;
                    t.push("append_label(0)".into());
                    Flow::Continue
                } else {
                    settle(ctx, cfg, "append_label", &b, &mut m, &before, r, fit, n, |m| { m.end_label(); m.apply_content(&s); m.end_label(); }, &mut failed_before, &mut t)?
                }
            }
            11 => {
                // decimal / hex digit labels (multi-step inside the library)
                let dec = flag(u);
                let v: u8 = match pick(u, 4) { 0 => 0, 1 => 9, 2 => 10 + pick(u, 90) as u8, _ => byte(u) };
                let (op, digits): (&str, Vec<u8>) = if dec {
                    ("append_dec_u8_label", v.to_string().into_bytes())
                } else {
                    ("append_hex_digit_label", vec![b"0123456789ABCDEF"[(v & 15) as usize]])
                };
                let nib = v;
                let fit = m.fit_label(digits.len());
                let r = if op == "append_dec_u8_label" { b.append_dec_u8_label(v) } else { b.append_hex_digit_label(nib) };
                match r {
                    Ok(()) if fit == Fit::Fits => {
                        m.end_label();
                        m.apply_content(&digits);
                        m.end_label();
                        same_state(op, &b, &m, "state-differs-from-model")?;
                        ctx.class(format!("{}:{op}:ok", cfg.tag));
                        t.push(format!("{op}={}", String::from_utf8_lossy(&digits)));
                        Flow::Continue
                    }
                    Ok(()) => {
                        let sig = unsound_sig(op, &before, digits.len());
                        ctx.report(Violation::new(sig, format!("{op} ({} digits) returned Ok at len {}; limits say {fit:?}\nops: {}", digits.len(), before.len(), render(&t))))?;
                        Flow::Stop
                    }
                    Err(e) => {
                        // may have pushed some digits: usable, not unchanged
                        ctx.class(format!("{}:{op}:err", cfg.tag));
                        if fit == Fit::Fits && e != PushError::ShortBuf {
                            ctx.class(format!("{}:{op}:overstrict", cfg.tag));
                        }
                        let mut allowed = vec![before.clone()];
                        let mut ended = before.clone();
                        ended.end_label();
                        for k in 0..=digits.len() {
                            let mut a = ended.clone();
                            a.apply_content(&digits[..k]);
                            allowed.push(a);
                        }
                        resync_among(op, &b, &mut m, &allowed, &t)?;
                        failed_before = true;
                        t.push(format!("{op}={e:?}"));
                        Flow::Continue
                    }
                }
            }
            12 | 13 => {
                // append_name: a relative name sized against the room
                let room = 254usize.saturating_sub(m.len());
                let mut n = match pick(u, 8) { 0 => 0, 1 | 2 => room, 3 => room + 1, 4 => room.saturating_sub(1), 5 => room + 2, _ => 2 + pick(u, 20) };
                n = n.min(254);
                if n == 1 { n = 2 }
                key.push(n as u64);
                let mut w = rel_of_len(u, n);
                if chance(u, if cfg.cap.is_some() { 150 } else { 60 }) {
                    // several short labels, so that a bounded buffer can run
                    // out in the middle of the name
                    w.clear();
                    let cnt = 2 + pick(u, 5);
                    let rem = cfg.cap.map(|c| c.saturating_sub(m.len())).unwrap_or(40);
                    for i in 0..cnt {
                        let l = if i == 0 && rem >= 3 && flag(u) { 1 + pick(u, (rem - 2).min(20)) } else { 1 + pick(u, 7) };
                        if w.len() + 1 + l > 254 { break; }
                        w.push(l as u8);
                        w.extend_from_slice(&fill(u, l));
                    }
                    n = w.len();
                    key.push(n as u64);
                }
                // the representation of the argument: flat, behind the `&N`
                // blanket impl, or a chain split at label boundaries (drawn
                // last, 0 = owned flat name)
                let rep = pick(u, reps::REL_REPS.len());
                let (s1, s2) = if rep >= 3 { reps::splits(&w, false, pick(u, 8), pick(u, 8)) } else { (0, 0) };
                key.push(rep as u64);
                let fits = m.len() + n <= 254;
                if near(m.len() + n, 254) { nontrivial = true; }
                let r = reps::with_rel(&w, rep, s1, s2, AppendName(&mut b))?;
                let flat = if reps::rel_rep_is_flat(rep) { "flat" } else { "nonflat" };
                if near(m.len() + n, 254) {
                    ctx.class(format!("{}:append_name:{flat}:near-limit:{}", cfg.tag, if r.is_ok() { "ok" } else { "err" }));
                }
                match r {
                    Ok(()) if fits => {
                        m.end_label();
                        m.done.extend_from_slice(&w);
                        same_state("append_name", &b, &m, "state-differs-from-model")?;
                        ctx.class(format!("{}:append_name:ok", cfg.tag));
                        if failed_before { ctx.class(format!("{}:ok-after-failed-op", cfg.tag)); }
                        t.push(format!("append_name({n},{})=ok", reps::REL_REPS[rep]));
                        Flow::Continue
                    }
                    Ok(()) => {
                        let by_one = m.len() + n == 255;
                        ctx.report(Violation::new(
                            if by_one { "append_name:name-too-long-by-one" } else { "append_name:accepted-over-limit" },
                            format!("append_name of {n} octets ({}) returned Ok at len {}\nops: {}", reps::REL_REPS[rep], before.len(), render(&t)),
                        ))?;
                        Flow::Stop
                    }
                    Err(PushNameError::ShortBuf) => {
                        vensure!(cfg.cap.is_some(), "append_name:shortbuf-on-growable-buffer", "ShortBuf");
                        ctx.class(format!("{}:append_name:shortbuf", cfg.tag));
                        // whole labels may have been appended: the state is
                        // the ended label plus the first k labels of the name
                        let mut allowed = vec![before.clone()];
                        let mut a = before.clone();
                        a.end_label();
                        allowed.push(a.clone());
                        for st in label_starts(&w).into_iter().skip(1).chain(std::iter::once(w.len())) {
                            let mut x = a.clone();
                            x.done.extend_from_slice(&w[..st]);
                            allowed.push(x);
                        }
                        resync_among("append_name", &b, &mut m, &allowed, &t)?;
                        if m.len() > before.len() {
                            ctx.class(format!("{}:append_name:shortbuf-midway", cfg.tag));
                            if before.open.is_some() {
                                ctx.class(format!("{}:append_name:shortbuf-midway-with-open-label", cfg.tag));
                            }
                        }
                        failed_before = true;
                        t.push(format!("append_name({n},{})=ShortBuf", reps::REL_REPS[rep]));
                        Flow::Continue
                    }
                    Err(e) => {
                        ctx.class(format!("{}:append_name:{}", cfg.tag, if fits { "overstrict" } else { "rejected-name" }));
                        same_state("append_name", &b, &m, "failed-op-changed-state")?;
                        failed_before = true;
                        t.push(format!("append_name({n},{})={e:?}", reps::REL_REPS[rep]));
                        Flow::Continue
                    }
                }
            }
            14 => {
                // push_symbol
                let s = gen_symbol(u);
                let r = b.push_symbol(s);
                let grammar_ok = match s {
                    Symbol::Char('.') => m.open.is_some(),
                    Symbol::SimpleEscape(b'[') => m.open.is_some(),
                    _ => sym_octet(s).is_some(),
                };
                let is_dot = matches!(s, Symbol::Char('.'));
                let fit = if is_dot || !grammar_ok { Fit::Fits } else { m.fit_content(1) };
                match (r, grammar_ok) {
                    (Ok(()), true) if fit == Fit::Fits => {
                        if is_dot { m.end_label() } else { m.apply_content(&[sym_octet(s).unwrap()]) }
                        same_state("push_symbol", &b, &m, "state-differs-from-model")?;
                        ctx.class(format!("{}:push_symbol:ok", cfg.tag));
                        Flow::Continue
                    }
                    (Ok(()), true) => {
                        ctx.report(Violation::new(unsound_sig("push_symbol", &before, 1), format!("push_symbol({s:?}) returned Ok at len {}; limits say {fit:?}\nops: {}", before.len(), render(&t))))?;
                        Flow::Stop
                    }
                    (Ok(()), false) => {
                        // lenient reading of a symbol is not a limit question;
                        // the state must still be valid
                        ctx.class(format!("{}:push_symbol:lenient", cfg.tag));
                        resync("push_symbol", &b, &mut m)?;
                        Flow::Continue
                    }
                    (Err(_), _) => {
                        ctx.class(format!("{}:push_symbol:err", cfg.tag));
                        same_state("push_symbol", &b, &m, "failed-op-changed-state")?;
                        failed_before = true;
                        Flow::Continue
                    }
                }
            }
            15 => {
                // append_chars / append_symbols with a short grammar text
                let mut txt = String::new();
                let nl = 1 + pick(u, 3);
                for i in 0..nl {
                    if i > 0 { txt.push('.'); }
                    let room = if i == 0 && m.open.is_some() { room_in } else { 63 };
                    let n = rel_len(u, room, 66).max(1);
                    let c = pickb(u, b"abcxyz") as char;
                    for j in 0..n {
                        if j == 0 && chance(u, 60) { txt.push_str("\\065") } else { txt.push(c) }
                    }
                }
                if flag(u) { txt.push('.'); }
                // model: symbol by symbol, stops at the first failure
                let mut mm = m.clone();
                let mut all_fit = true;
                let mut bad_step: Option<(Model, Fit)> = None;
                let mut passes_through: Vec<Model> = vec![m.clone()];
                if let Ok(rn) = ref_parse_symbols(&txt) {
                    for s in rn {
                        match s {
                            None => {
                                if mm.open.is_none() { all_fit = false; break; }
                                mm.end_label();
                            }
                            Some(o) => {
                                let f = mm.fit_content(1);
                                if f != Fit::Fits { all_fit = false; bad_step = Some((mm.clone(), f)); break; }
                                mm.apply_content(&[o]);
                            }
                        }
                        passes_through.push(mm.clone());
                    }
                } else {
                    all_fit = false;
                }
                let via_symbols = flag(u);
                let r = if via_symbols {
                    b.append_symbols(domain::base::scan::Symbols::new(txt.chars()))
                } else {
                    b.append_chars(txt.chars())
                };
                let op = if via_symbols { "append_symbols" } else { "append_chars" };
                match r {
                    Ok(()) if all_fit => {
                        m = mm;
                        same_state(op, &b, &m, "state-differs-from-model")?;
                        ctx.class(format!("{}:{op}:ok", cfg.tag));
                        t.push(format!("{op}({txt:?})=ok"));
                        Flow::Continue
                    }
                    Ok(()) => {
                        let sig = match &bad_step { Some((bm, _)) => unsound_sig(op, bm, 1), None => format!("{op}:accepted-malformed-text") };
                        ctx.report(Violation::new(sig, format!("{op}({txt:?}) returned Ok at len {}; model stops at {bad_step:?}\nops: {}", before.len(), render(&t))))?;
                        Flow::Stop
                    }
                    Err(e) => {
                        ctx.class(format!("{}:{op}:err", cfg.tag));
                        if all_fit && cfg.cap.is_none() { ctx.class(format!("{}:{op}:overstrict", cfg.tag)); }
                        resync_among(op, &b, &mut m, &passes_through, &t)?;
                        failed_before = true;
                        t.push(format!("{op}({txt:?})={e:?}"));
                        Flow::Continue
                    }
                }
            }
            16 => {
                // finish (on a clone) and go on from into_builder
                let rel = b.clone().finish();
                check_value("finish", Kind::Rel, rel.as_slice())?;
                vensure!(rel.as_slice() == &m.wire()[..], "finish:octets-differ-from-model", "finish gives {} model {}", hexs(rel.as_slice()), hexs(&m.wire()));
                if near(rel.len(), 254) { nontrivial = true; }
                if flag(u) {
                    b = rel.into_builder();
                    m.end_label();
                    same_state("into_builder", &b, &m, "state-differs-from-model")?;
                    t.push("finish+into_builder".into());
                } else {
                    t.push("finish".into());
                }
                ctx.class(format!("{}:finish", cfg.tag));
                Flow::Continue
            }
            17 => {
                // into_name on a clone
                let r = b.clone().into_name();
                let fits_cap = cfg.cap.map(|c| m.len() + 1 <= c).unwrap_or(true);
                match r {
                    Ok(n) => {
                        check_value("into_name", Kind::Abs, n.as_slice())?;
                        let mut want = m.wire();
                        want.push(0);
                        vensure!(n.as_slice() == &want[..], "into_name:octets-differ-from-model", "into_name gives {} want {}", hexs_raw(n.as_slice()), hexs_raw(&want));
                        ctx.class(format!("{}:into_name:ok", cfg.tag));
                        if near(n.len(), 255) { nontrivial = true; }
                    }
                    Err(e) => {
                        if fits_cap {
                            ctx.class(format!("{}:into_name:overstrict", cfg.tag));
                            vfail!("into_name:rejected-valid-name", "into_name failed with {e:?} on a relative name of {} octets", m.len());
                        }
                        ctx.class(format!("{}:into_name:shortbuf", cfg.tag));
                    }
                }
                t.push("into_name".into());
                Flow::Continue
            }
            18 => {
                // append_origin on a clone
                let room = 255usize.saturating_sub(m.len());
                let mut n = match pick(u, 8) { 0 => 1, 1 | 2 => room, 3 => room + 1, 4 => room.saturating_sub(1), 5 => room + 2, _ => 3 + pick(u, 20) };
                n = n.clamp(1, 255);
                if n == 2 { n = 3 }
                key.push(n as u64);
                let mut w = rel_of_len(u, n - 1);
                w.push(0);
                // the representation of the origin: flat (Name, uncompressed
                // ParsedName), behind the `&N` blanket impl, a Chain, a
                // compressed ParsedName, an UncertainName chain
                let rep = pick(u, reps::ABS_REPS.len());
                let (s1, s2) = if rep >= 4 { reps::splits(&w, true, pick(u, 8), pick(u, 8)) } else { (0, 0) };
                key.push(rep as u64);
                let fits = m.len() + n <= 255;
                if near(m.len() + n, 255) { nontrivial = true; }
                let res = reps::with_abs(&w, rep, s1, s2, AppendOrigin(b.clone()))?;
                let flat = if reps::abs_rep_is_flat(rep) { "flat" } else { "nonflat" };
                if near(m.len() + n, 255) {
                    ctx.class(format!("{}:append_origin:{flat}:near-limit:{}", cfg.tag, if res.is_ok() { "ok" } else { "err" }));
                }
                match res {
                    Ok(name) => {
                        if !fits {
                            let by_one = m.len() + n == 256;
                            vfail!(if by_one { "append_origin:name-too-long-by-one" } else { "append_origin:accepted-over-limit" }, "append_origin of {n} octets ({}) returned Ok at len {} -> {} octets\nops: {}", reps::ABS_REPS[rep], m.len(), name.len(), render(&t));
                        }
                        check_value("append_origin", Kind::Abs, name.as_slice())?;
                        let mut want = m.wire();
                        want.extend_from_slice(&w);
                        vensure!(name.as_slice() == &want[..], "append_origin:octets-differ-from-model", "append_origin gives {} want {}", hexs_raw(name.as_slice()), hexs_raw(&want));
                        ctx.class(format!("{}:append_origin:ok", cfg.tag));
                    }
                    Err(PushNameError::ShortBuf) => {
                        vensure!(cfg.cap.is_some(), "append_origin:shortbuf-on-growable-buffer", "ShortBuf");
                        ctx.class(format!("{}:append_origin:shortbuf", cfg.tag));
                    }
                    Err(_) => {
                        ctx.class(format!("{}:append_origin:{}", cfg.tag, if fits { "overstrict" } else { "rejected-name" }));
                    }
                }
                t.push(format!("append_origin({n},{})", reps::ABS_REPS[rep]));
                Flow::Continue
            }
            _ => {
                // from_builder on the raw octets, possibly damaged
                let mut w = m.wire();
                let dmg = pick(u, 5);
                match dmg {
                    0 => {}
                    1 => w.push(0),
                    2 => { if !w.is_empty() { let i = pick(u, w.len()); w[i] = byte(u); } }
                    3 => { w.push(3); w.push(b'x'); }
                    _ => { let k = rel_len(u, 254usize.saturating_sub(w.len()), 80); w.extend_from_slice(&rel_of_len(u, if k == 1 { 2 } else { k })); }
                }
                let mut raw = B::empty();
                if raw.append_slice(&w).is_ok() {
                    let valid = validate(Kind::Rel, &w);
                    match NameBuilder::from_builder(raw) {
                        Ok(nb) => {
                            if let Err(e) = &valid {
                                vfail!("from_builder:accepted-invalid-relative-name", "from_builder accepted {}: {e}", hexs_raw(&w));
                            }
                            if dmg == 0 || dmg == 4 {
                                b = nb;
                                m = Model { done: w.clone(), open: None };
                                same_state("from_builder", &b, &m, "state-differs-from-model")?;
                            }
                            ctx.class(format!("{}:from_builder:ok", cfg.tag));
                        }
                        Err(_) => {
                            vensure!(valid.is_err(), "from_builder:rejected-valid-relative-name", "from_builder refused valid {}", hexs_raw(&w));
                            ctx.class(format!("{}:from_builder:rejected", cfg.tag));
                        }
                    }
                }
                t.push(format!("from_builder(dmg{dmg})"));
                Flow::Continue
            }
        };
        if matches!(flow, Flow::Stop) {
            ctx.sample(|| format!("[{}] {} (ended at a known finding)", cfg.tag, render(&t)));
            return Ok(());
        }
        // the state is a valid relative name after every step
        let (w, _) = observe(&b);
        check_value("builder-state", Kind::Rel, &w)?;
        if m.len() >= 252 || m.open_len() >= 61 {
            nontrivial = true;
        }
    }
    // final: every exit from the builder
    let rel = b.clone().finish();
    check_value("finish", Kind::Rel, rel.as_slice())?;
    vensure!(rel.as_slice() == &m.wire()[..], "finish:octets-differ-from-model", "finish gives {} model {}", hexs(rel.as_slice()), hexs(&m.wire()));
    if let Ok(n) = b.clone().into_name() {
        check_value("into_name", Kind::Abs, n.as_slice())?;
    }
    if m.len() >= 252 {
        ctx.class(format!("{}:reached-len>=252", cfg.tag));
    }
    if m.len() == 254 {
        ctx.class(format!("{}:reached-len-254", cfg.tag));
    }
    if failed_before {
        ctx.class(format!("{}:had-failed-op", cfg.tag));
        nontrivial = true;
    }
    if nontrivial {
        ctx.nontrivial(&(cfg.tag, &key, m.wire()));
    }
    ctx.sample(|| format!("[{}] {}", cfg.tag, render(&t)));
    Ok(())
}

/// Text to a list of symbols as octets (None = unescaped dot), for the
/// machine's append_chars model. Err on any malformed escape / bad char.
pub fn ref_parse_symbols(text: &str) -> Result<Vec<Option<u8>>, ()> {
    let cs: Vec<char> = text.chars().collect();
    let mut out = vec![];
    let mut i = 0;
    while i < cs.len() {
        let c = cs[i];
        i += 1;
        if c == '\\' {
            let d = *cs.get(i).ok_or(())?;
            i += 1;
            if d.is_ascii_digit() {
                let d2 = *cs.get(i).ok_or(())?;
                let d3 = *cs.get(i + 1).ok_or(())?;
                i += 2;
                if !d2.is_ascii_digit() || !d3.is_ascii_digit() {
                    return Err(());
                }
                let v = (d as u32 - 48) * 100 + (d2 as u32 - 48) * 10 + (d3 as u32 - 48);
                if v > 255 {
                    return Err(());
                }
                out.push(Some(v as u8));
            } else if (' '..='~').contains(&d) {
                out.push(Some(d as u8));
            } else {
                return Err(());
            }
        } else if c == '.' {
            out.push(None);
        } else if (' '..='~').contains(&c) {
            out.push(Some(c as u8));
        } else {
            return Err(());
        }
    }
    Ok(out)
}
