//! C03 — every domain-name value is valid; limits are enforced at
//! construction; text and wire round trips give the same octets.
//!
//! Sub-checks (see notes/C03.md):
//! * `builder`, `builder-restricted`, `array`: generated NameBuilder
//!   operation sequences against an abstract model (machine.rs);
//! * `text`: every text constructor against a reference reader of the
//!   presentation format; `roundtrip`: text and wire round trips of valid
//!   names through every constructor; `wire`: wire constructors as
//!   gatekeepers on valid/damaged octets; `parsed`: compressed names;
//!   `ops`: slicing, splitting, truncating at label starts (every
//!   RangeBounds shape), chains (names.rs); the name arguments of
//!   `append_origin` / `append_name` / `chain` come in every representation
//!   that implements ToName / ToRelativeName (reps.rs);
//! * `scan`: names read by the zone-file scanner under $ORIGIN (scan.rs);
//! * `sweep`: all (operation, prefix length, label length) combinations
//!   (sweep.rs).
use crate::engine::*;
use arbitrary::Unstructured;
use bytes::BytesMut;
use octseq::array::Array;
use std::collections::BTreeMap;

mod machine;
mod names;
mod refs;
mod reps;
mod scan;
mod sweep;

use machine::{run_machine, Cfg};

fn run_builder_impl(data: &[u8], ctx: &mut Ctx, restricted: bool) -> CaseResult {
    let mut u = Unstructured::new(data);
    let max_ops = if ctx.thorough { 40 } else { 24 };
    if crate::gen::flag(&mut u) {
        let cfg = Cfg { tag: if restricted { "rvec" } else { "vec" }, cap: None, restricted, max_ops };
        run_machine::<Vec<u8>>(&mut u, ctx, &cfg)
    } else {
        let cfg = Cfg { tag: if restricted { "rbytes" } else { "bytes" }, cap: None, restricted, max_ops };
        run_machine::<BytesMut>(&mut u, ctx, &cfg)
    }
}

fn run_builder(data: &[u8], ctx: &mut Ctx) -> CaseResult {
    run_builder_impl(data, ctx, false)
}
fn run_builder_restricted(data: &[u8], ctx: &mut Ctx) -> CaseResult {
    run_builder_impl(data, ctx, true)
}

fn run_array(data: &[u8], ctx: &mut Ctx) -> CaseResult {
    let mut u = Unstructured::new(data);
    macro_rules! go {
        ($n:literal) => {{
            let cfg = Cfg { tag: "array", cap: Some($n), restricted: true, max_ops: 16 };
            ctx.class(concat!("array:cap-", stringify!($n)));
            run_machine::<Array<$n>>(&mut u, ctx, &cfg)
        }};
    }
    match crate::gen::pick(&mut u, 12) {
        0 => go!(0),
        1 => go!(1),
        2 => go!(2),
        3 => go!(3),
        4 => go!(5),
        5 => go!(8),
        6 => go!(16),
        7 => go!(40),
        8 => go!(64),
        9 => go!(254),
        10 => go!(255),
        _ => go!(256),
    }
}

fn health(c: &BTreeMap<String, u64>, _thorough: bool) -> Result<(), String> {
    let need: &[(&str, u64)] = &[
        ("vec:push:ok", 100),
        ("vec:append_slice:ok", 100),
        ("vec:append_label:ok", 100),
        ("vec:append_name:ok", 50),
        ("vec:append_origin:ok", 50),
        ("vec:into_name:ok", 50),
        ("vec:finish", 50),
        ("vec:push:rejected-name", 20),
        ("vec:push:rejected-label", 20),
        ("vec:append_slice:rejected-name", 20),
        ("vec:append_slice:rejected-label", 20),
        ("vec:append_label:rejected-name", 20),
        ("vec:append_label:rejected-label", 20),
        ("vec:append_name:rejected-name", 20),
        ("vec:append_origin:rejected-name", 20),
        ("vec:ok-after-failed-op", 50),
        ("vec:reached-len-254", 20),
        ("bytes:append_label:ok", 100),
        ("rvec:reached-len-254", 20),
        ("rvec:avoided-known-shape", 5),
        ("array:push:shortbuf", 20),
        ("array:append_slice:shortbuf", 20),
        ("array:append_name:shortbuf", 5),
        ("array:append_name:shortbuf-midway-with-open-label", 20),
        ("suffix:octets-match-but-labels-do-not", 100),
        ("suffix:real-suffix:is-suffix", 100),
        ("text:has-escape", 100),
        ("text:name-from_str:ok", 100),
        ("text:relative-from_str:ok", 100),
        ("text:uncertain-from_str:ok", 100),
        ("text:reference-rel-len-254", 20),
        ("text:reference-rel-len-255", 20),
        ("text:ownedlabel:ok", 50),
        ("roundtrip:abs-255", 50),
        ("roundtrip:label-63", 50),
        ("roundtrip:special-octets", 100),
        ("wire:valid-abs", 100),
        ("wire:valid-rel", 100),
        ("wire:invalid", 100),
        ("wire:len-255", 20),
        ("wire:len-256", 20),
        ("parsed:ok", 100),
        ("parsed:rejected-long", 20),
        ("parsed:ok-with-target>=1024", 500),
        ("parsed:max-target-0x3ffd..0x3fff", 100),
        ("parsed:max-target-1024..0x1fff", 100),
        ("ops:chain-abs:ok", 100),
        ("ops:chain-abs:rejected", 20),
        ("ops:chain-rel:ok", 50),
        ("scan:record-ok", 100),
        ("scan:rejected", 50),
        // representation dimension of the name arguments (flat / not flat)
        ("vec:append_origin:nonflat:near-limit:ok", 200),
        ("vec:append_origin:nonflat:near-limit:err", 200),
        ("vec:append_origin:flat:near-limit:ok", 200),
        ("vec:append_name:nonflat:near-limit:ok", 200),
        ("vec:append_name:nonflat:near-limit:err", 200),
        ("array:append_origin:nonflat:near-limit:err", 50),
        ("ops:chain-abs:nonflat:ok", 500),
        ("ops:chain-abs:nonflat:rejected", 100),
        ("vec:append_dec_u8_label:ok", 100),
        ("vec:append_dec_u8_label:err", 100),
        ("vec:append_hex_digit_label:ok", 100),
        ("vec:append_hex_digit_label:err", 100),
        // every RangeBounds shape
        ("ops:name-range-shapes:bounded", 1000),
        ("ops:relative-range-shapes", 1000),
        ("sweep:op:append_origin:chain-rel-abs", 1000),
        ("sweep:op:append_origin:ref-name-slice", 1000),
        ("sweep:op:append_origin:parsed-compressed", 1000),
        ("sweep:op:append_name:chain-rel-rel", 1000),
        ("sweep:op:append_dec_u8_label", 1000),
        ("sweep:op:append_hex_digit_label", 1000),
        ("sweep:op:append_label", 1000),
        ("sweep:op:from_str", 1000),
    ];
    // ranges that take in the root label: the call either panics (as
    // documented) or returns a value that was validated; it must have been made
    for entry in ["name-slice-to-end", "name-range-to-end"] {
        let got = c.get(&format!("ops:{entry}:panics-as-documented")).copied().unwrap_or(0) + c.get(&format!("ops:{entry}:returned-valid-value")).copied().unwrap_or(0);
        if got < 1000 {
            return Err(format!("class ops:{entry}:* starved: {got} < 1000"));
        }
    }
    for (k, min) in need {
        let got = c.get(*k).copied().unwrap_or(0);
        if got < *min {
            return Err(format!("class {k} starved: {got} < {min}"));
        }
    }
    Ok(())
}

fn extra(_opts: &RunOpts, agg: &mut Agg) -> Result<(), (Violation, Vec<u8>)> {
    agg.extra_notes.insert(
        "sweep_space".into(),
        serde_json::json!({
            "ops": ["push-loop new label", "append_slice new label", "append_label", "append_name", "append_origin", "from_str & co (relative and absolute text)",
                     "push-loop in open label of 1/31/62/63", "append_slice in open label of 1/31/62/63", "finish/into_name/into_absolute", "chain(rel, abs)", "chain(rel, rel)",
                     "append_origin with the origin as Chain / &Name<[u8]> / compressed ParsedName", "append_name with the name as &RelativeName<[u8]> / Chain", "append_dec_u8_label (closed prefix, open label of 1; label_len stands for the value 4*n)", "append_hex_digit_label (label_len = nibble)"],
            "prefix_len": "0..=256", "label_len": "0..=65", "combinations": sweep::sweep_size(true),
            "enumerated_completely_in_both_tiers": true
        }),
    );
    Ok(())
}

pub fn prop() -> Option<Prop> {
    Some(Prop {
        id: "C03",
        rule: "builder/array cases: an operation sequence is non-trivial when a step comes within 2 octets of a limit (open label 61..=65, name 252..=256) or an operation succeeds/fails after an earlier failure (distinct by op kinds, chosen lengths and final octets); text cases: the reference length is 252..=257, a label is 61..=65, the text has an escape, or the text is malformed (distinct by text); roundtrip/ops/wire/parsed/scan: the name (or the chain total, or the input) is within 2-3 octets of 255/254, has a label >= 61 or octets that need escaping (distinct by octets); sweep: combinations with prefix+label within the same windows (distinct by index), all combinations are evaluated",
        assumptions: &[
            "Name/RelativeName slice, range, split, truncate are only called at indices for which is_label_start() is true and with start <= end (documented precondition; other indices panic by contract); the one exception are ranges of an absolute name that take in its root label (no upper bound, or end == len): they are called under catch_unwind, the documented panic is accepted, a value that is returned instead must be a valid relative name",
            "only the unsound direction is a violation for construction steps (Ok where a limit is broken, or an invalid value escapes); refusals of steps that are within limits are recorded as classes, except where a round-trip law demands acceptance (text written by Display / wire octets of a valid name)",
            "after a failed single-step operation (push, append_slice, append_label, append_name, push_symbol) the observable state (finish() of a clone, in_label) must be unchanged; after a failed multi-step operation (append_dec_u8_label, append_hex_digit_label, append_chars, append_symbols, append_name on a full fixed buffer) it must be one of the states the operation passes through (a prefix of its effect; earlier labels intact)",
            "reference reader for the presentation format: '.' separates labels, \\DDD (<= 255) and \\c (printable) escapes, printable ASCII otherwise (refs.rs); reference validator walks length octets (refs.rs); neither calls into domain",
            "zone-file scanner texts use only letters, digits, '-', '_' and \\DDD escapes, so zone-file tokenisation (quotes, parentheses, comments) is not in play (C06/C07)",
        ],
        subchecks: vec![
            SubCheck::new("builder", run_builder, 300_000, 3_600_000, 700),
            SubCheck::new("builder-restricted", run_builder_restricted, 150_000, 1_800_000, 700),
            SubCheck::new("array", run_array, 100_000, 1_200_000, 400),
            SubCheck::new("text", names::run_text, 150_000, 1_800_000, 600),
            SubCheck::new("roundtrip", names::run_roundtrip, 50_000, 600_000, 1200),
            SubCheck::new("wire", names::run_wire, 150_000, 1_800_000, 800),
            SubCheck::new("parsed", names::run_parsed, 80_000, 1_000_000, 1500),
            SubCheck::new("ops", names::run_ops, 80_000, 1_000_000, 1500),
            SubCheck::new("suffix", names::run_suffix, 60_000, 700_000, 200),
            SubCheck::new("scan", scan::run_scan, 50_000, 600_000, 1500),
            SubCheck::sweep("sweep", sweep::run_sweep, sweep::sweep_size),
        ],
        health: Some(health),
        extra: Some(extra),
    })
}
