//! C03 exhaustive small sweep: every (operation, prefix length, label
//! length) combination around and far from the limits, each judged by the
//! same model and signatures as the random machine.
use super::machine::*;
use super::names::{check_iter, text_entry_points};
use super::refs::*;
use super::reps;
use crate::engine::*;
use crate::{vensure, vfail};
use arbitrary::Unstructured;
use domain::base::name::{Name, NameBuilder, RelativeName};

pub const PREFIX_MAX: u64 = 256; // prefix_len 0..=256
pub const LABEL_MAX: u64 = 65; // label_len 0..=65
// ops 0..=24 keep their numbers (replay files are sweep indices); 25..=32
// were added later: the name arguments of append_origin / append_name in
// the representations that are not one flat slice, and the number labels.
pub const OPS: u64 = 33;
pub const PER_OP: u64 = (PREFIX_MAX + 1) * (LABEL_MAX + 1);

pub fn sweep_size(_thorough: bool) -> u64 {
    OPS * PER_OP
}

const OPEN_K: [usize; 4] = [1, 31, 62, 63];

pub fn run_sweep(data: &[u8], ctx: &mut Ctx) -> CaseResult {
    let mut ib = [0u8; 8];
    let k = data.len().min(8);
    ib[..k].copy_from_slice(&data[..k]);
    let i = u64::from_le_bytes(ib) % (OPS * PER_OP);
    let op = i / PER_OP;
    let plen = ((i % PER_OP) / (LABEL_MAX + 1)) as usize;
    let n = ((i % PER_OP) % (LABEL_MAX + 1)) as usize;
    let cfg = Cfg { tag: "sweep", cap: None, restricted: false, max_ops: 1 };
    let mut zero = Unstructured::new(&[]);
    let u = &mut zero;
    // the prefix: complete labels, or complete labels plus an open label
    let open_k: Option<usize> = if (6..14).contains(&op) { Some(OPEN_K[((op - 6) % 4) as usize]) } else if (17..25).contains(&op) { Some(OPEN_K[((op - 17) % 4) as usize]) } else if op == 32 { Some(1) } else { None };
    let closed_len = match open_k {
        Some(k) => match plen.checked_sub(k + 1) {
            Some(c) => c,
            None => {
                ctx.class("sweep:n/a");
                return Ok(());
            }
        },
        None => plen,
    };
    if closed_len == 1 || plen > 254 {
        // no valid relative name has this length: nothing to start from
        ctx.class("sweep:n/a");
        return Ok(());
    }
    let pw = rel_of_len(u, closed_len);
    let prefix = match RelativeName::from_octets(pw.clone()) {
        Ok(p) => p,
        Err(e) => vfail!("relative-from_octets:rejected-valid-name", "{} octets: {e}", pw.len()),
    };
    let mut b: NameBuilder<Vec<u8>> = prefix.clone().into_builder();
    let mut m = Model { done: pw.clone(), open: None };
    if let Some(k) = open_k {
        // open a label of k octets (a step that is within all limits here)
        let s = vec![b'o'; k];
        if b.append_slice(&s).is_err() {
            ctx.class("sweep:open-label-refused");
            return Ok(());
        }
        m.apply_content(&s);
        same_state("append_slice", &b, &m, "state-differs-from-model")?;
    }
    let before = m.clone();
    let mut t = vec![format!("prefix({plen}{})", open_k.map(|k| format!(",open {k}")).unwrap_or_default())];
    let mut failed = false;
    let near = (plen + n + 1 >= 252 && plen + n <= 258) || (open_k.unwrap_or(0) + n >= 61 && open_k.unwrap_or(0) + n <= 66) || (61..=65).contains(&n);
    if near {
        ctx.nontrivial(&i);
    }
    let s = vec![b'x'; n];
    let opname;
    match op {
        0 | 6..=9 => {
            opname = if op == 0 { "push-loop:new-label" } else { "push-loop:in-label" };
            for _ in 0..n {
                let bf = m.clone();
                let fit = m.fit_content(1);
                let r = b.push(b'x');
                let was_err = r.is_err();
                let fl = settle(ctx, &cfg, "push", &b, &mut m, &bf, r, fit, 1, |m| m.apply_content(b"x"), &mut failed, &mut t)?;
                if was_err || matches!(fl, Flow::Stop) {
                    break;
                }
            }
        }
        1 | 10..=13 => {
            opname = if op == 1 { "append_slice:new-label" } else { "append_slice:in-label" };
            let fit = m.fit_content(n);
            let r = b.append_slice(&s);
            if let Flow::Stop = settle(ctx, &cfg, "append_slice", &b, &mut m, &before, r, fit, n, |m| m.apply_content(&s), &mut failed, &mut t)? {
                return Ok(());
            }
        }
        2 | 21..=24 => {
            opname = if op == 2 { "append_label" } else { "append_label:open-label" };
            if n == 0 {
                ctx.class("sweep:n/a");
                return Ok(());
            }
            let fit = m.fit_label(n);
            let r = b.append_label(&s);
            if let Flow::Stop = settle(ctx, &cfg, "append_label", &b, &mut m, &before, r, fit, n, |m| { m.end_label(); m.apply_content(&s); m.end_label(); }, &mut failed, &mut t)? {
                return Ok(());
            }
        }
        3 | 17..=20 | 28 | 29 => {
            opname = match op { 3 => "append_name", 28 => "append_name:ref-rel-slice", 29 => "append_name:chain-rel-rel", _ => "append_name:open-label" };
            let w = if n == 0 { vec![] } else { let mut w = vec![n as u8]; w.extend_from_slice(&s); w };
            if n > 63 {
                ctx.class("sweep:n/a");
                return Ok(());
            }
            let fits = m.len() + w.len() <= 254;
            let rep = match op { 28 => 2, 29 => 3, _ => 0 };
            match reps::with_rel(&w, rep, 0, 0, AppendName(&mut b))? {
                Ok(()) => {
                    if !fits {
                        vfail!(if m.len() + w.len() == 255 { "append_name:name-too-long-by-one" } else { "append_name:accepted-over-limit" }, "append_name of {} octets returned Ok at len {}", w.len(), m.len());
                    }
                    m.end_label();
                    m.done.extend_from_slice(&w);
                    same_state("append_name", &b, &m, "state-differs-from-model")?;
                    ctx.class("sweep:append_name:ok");
                }
                Err(_) => {
                    ctx.class(if fits { "sweep:append_name:overstrict" } else { "sweep:append_name:rejected-name" });
                    same_state("append_name", &b, &m, "failed-op-changed-state")?;
                }
            }
        }
        4 | 25 | 26 | 27 => {
            opname = match op { 4 => "append_origin", 25 => "append_origin:chain-rel-abs", 26 => "append_origin:ref-name-slice", _ => "append_origin:parsed-compressed" };
            if n > 63 {
                ctx.class("sweep:n/a");
                return Ok(());
            }
            let mut w = if n == 0 { vec![] } else { let mut w = vec![n as u8]; w.extend_from_slice(&s); w };
            w.push(0);
            let fits = m.len() + w.len() <= 255;
            let rep = match op { 25 => 4, 26 => 3, 27 => 6, _ => 0 };
            // composite representations: label | root
            match reps::with_abs(&w, rep, 0, w.len() - 1, AppendOrigin(b.clone()))? {
                Ok(name) => {
                    if !fits {
                        vfail!(if m.len() + w.len() == 256 { "append_origin:name-too-long-by-one" } else { "append_origin:accepted-over-limit" }, "append_origin of {} octets returned Ok at len {}", w.len(), m.len());
                    }
                    check_value("append_origin", Kind::Abs, name.as_slice())?;
                    vensure!(name.as_slice() == &[&pw[..], &w[..]].concat()[..], "append_origin:octets-differ-from-model", "append_origin");
                    ctx.class("sweep:append_origin:ok");
                }
                Err(_) => ctx.class(if fits { "sweep:append_origin:overstrict" } else { "sweep:append_origin:rejected-name" }),
            }
        }
        30 | 31 | 32 => {
            // number labels (multi-step inside the library): label_len stands
            // for the value: dec 4*n (1, 2 or 3 digits), hex n
            let dec = op != 31;
            opname = match op { 30 => "append_dec_u8_label", 31 => "append_hex_digit_label", _ => "append_dec_u8_label:open-label" };
            if !dec && n > 15 {
                ctx.class("sweep:n/a");
                return Ok(());
            }
            let v = (n * 4).min(255) as u8;
            let (opn, digits, r) = if dec {
                ("append_dec_u8_label", v.to_string().into_bytes(), b.append_dec_u8_label(v))
            } else {
                ("append_hex_digit_label", vec![b"0123456789ABCDEF"[n]], b.append_hex_digit_label(n as u8))
            };
            let fit = m.fit_label(digits.len());
            match r {
                Ok(()) if fit == Fit::Fits => {
                    m.end_label();
                    m.apply_content(&digits);
                    m.end_label();
                    same_state(opn, &b, &m, "state-differs-from-model")?;
                    ctx.class(format!("sweep:{opn}:ok"));
                }
                Ok(()) => {
                    ctx.report(Violation::new(unsound_sig(opn, &before, digits.len()), format!("{opn} ({} digits) returned Ok at len {} (open label: {:?}); limits say {fit:?}", digits.len(), before.len(), before.open.as_ref().map(|o| o.len()))))?;
                    return Ok(());
                }
                Err(_) => {
                    ctx.class(format!("sweep:{opn}:{}", if fit == Fit::Fits { "overstrict" } else { "rejected-name" }));
                    let mut allowed = vec![before.clone()];
                    let mut ended = before.clone();
                    ended.end_label();
                    for k in 0..=digits.len() {
                        let mut a = ended.clone();
                        a.apply_content(&digits[..k]);
                        allowed.push(a);
                    }
                    resync_among(opn, &b, &mut m, &allowed, &t)?;
                }
            }
        }
        5 => {
            opname = "from_str";
            if n == 0 {
                ctx.class("sweep:n/a");
                return Ok(());
            }
            let mut labels = validate(Kind::Rel, &pw).unwrap();
            labels.push(s.clone());
            // n may be 64/65: the reference then rejects the text
            for absolute in [false, true] {
                let text = ref_text(&labels, absolute, 0);
                text_entry_points(ctx, &text, false, false)?;
            }
        }
        14 => {
            opname = "finish/into_name";
            if n != 0 {
                ctx.class("sweep:n/a");
                return Ok(());
            }
            let rel = b.clone().finish();
            check_value("finish", Kind::Rel, rel.as_slice())?;
            match b.clone().into_name() {
                Ok(nm) => {
                    check_value("into_name", Kind::Abs, nm.as_slice())?;
                    vensure!(nm.len() == plen + 1, "into_name:octets-differ-from-model", "into_name length");
                }
                Err(e) => vfail!("into_name:rejected-valid-name", "into_name failed at {plen}: {e:?}"),
            }
            match prefix.clone().into_absolute() {
                Ok(nm) => check_value("relative-into_absolute", Kind::Abs, nm.as_slice())?,
                Err(e) => vfail!("relative-into_absolute:rejected-valid-name", "{e:?}"),
            }
        }
        15 => {
            opname = "chain-absolute";
            if n > 63 {
                ctx.class("sweep:n/a");
                return Ok(());
            }
            let mut w = if n == 0 { vec![] } else { let mut w = vec![n as u8]; w.extend_from_slice(&s); w };
            w.push(0);
            let right = Name::from_octets(w.clone()).map_err(|e| Violation::new("name-from_octets:rejected-valid-name", e.to_string()))?;
            let total = plen + w.len();
            match prefix.clone().chain(right) {
                Ok(ch) => {
                    vensure!(total <= 255, if total == 256 { "chain:absolute-too-long-by-one" } else { "chain:accepted-over-limit" }, "chain {plen}+{} accepted", w.len());
                    check_iter("chain", Kind::Abs, &ch)?;
                    ctx.class("sweep:chain-abs:ok");
                }
                Err(_) => vensure!(total > 255, "chain:rejected-valid-name", "chain of {total} refused"),
            }
        }
        _ => {
            opname = "chain-relative";
            if n > 63 {
                ctx.class("sweep:n/a");
                return Ok(());
            }
            let w = if n == 0 { vec![] } else { let mut w = vec![n as u8]; w.extend_from_slice(&s); w };
            let right = RelativeName::from_octets(w.clone()).map_err(|e| Violation::new("relative-from_octets:rejected-valid-name", e.to_string()))?;
            let total = plen + w.len();
            match prefix.clone().chain(right) {
                Ok(ch) => {
                    if total > 254 {
                        ctx.report(Violation::new(if total == 255 { "chain:relative-too-long-by-one" } else { "chain:accepted-over-limit" }, format!("relative chain of {plen} + {} = {total} octets accepted (a relative name holds at most 254)", w.len())))?;
                        return Ok(());
                    }
                    check_iter("chain-relative", Kind::Rel, &ch)?;
                    ctx.class("sweep:chain-rel:ok");
                }
                Err(_) => vensure!(total > 254, "chain:rejected-valid-name", "relative chain of {total} refused"),
            }
        }
    }
    ctx.class(format!("sweep:op:{opname}"));
    if near {
        ctx.sample(|| format!("{opname} prefix_len={plen} label_len={n}: {}", render(&t)));
    }
    // whatever happened, the builder still holds a valid relative name
    if op != 5 && !(14..17).contains(&op) {
        let (w, _) = observe(&b);
        check_value("builder-state", Kind::Rel, &w)?;
    }
    Ok(())
}
