//! C03: names read by the zone-file scanner under a generated $ORIGIN.
use super::machine::{hexs_raw, rel_of_len};
use super::names::check_iter;
use super::refs::*;
use crate::engine::*;
use crate::gen::*;
use crate::{vensure, vfail};
use arbitrary::Unstructured;
use domain::base::name::ToName;
use domain::rdata::ZoneRecordData;
use domain::zonefile::inplace::{Entry, Zonefile};

/// A name text for the zone file: (text, expected absolute wire or reason).
fn gen_name_text(u: &mut Unstructured, origin: &[Vec<u8>], owner: bool) -> (String, &'static str) {
    let olen = wire_abs(origin).len();
    let absolute = chance(u, 90);
    let budget = if absolute { 254 } else { 255usize.saturating_sub(olen) };
    let n = match pick(u, 10) {
        0 | 1 => budget,
        2 => budget + 1,
        3 => budget.saturating_sub(1),
        4 => budget + 2,
        5 => 0,
        _ => 2 + pick(u, 30),
    };
    let n = if n == 1 { 2 } else { n.min(300) };
    if n == 0 {
        // "@" is the origin shorthand; the reader expands it for owners only
        // (in RDATA it is an ordinary label, a reader question outside C03)
        let at = !absolute && owner;
        return (if at { "@".into() } else { ".".into() }, if at { "at" } else { "root" });
    }
    // labels may be longer than 63 only through the defects below
    let w = rel_of_len(u, n.min(254));
    let mut labels = validate(Kind::Rel, &w).unwrap();
    if n > 254 {
        // rel_of_len caps at 254: add the rest as further labels
        let extra = rel_of_len(u, (n - 254).max(2));
        labels.extend(validate(Kind::Rel, &extra).unwrap());
    }
    let mode = pick(u, 3) as u8;
    let mut t = ref_text(&labels, absolute, if mode == 2 { 0 } else { mode });
    let what = match pick(u, 12) {
        0 => {
            // empty label inside
            if let Some(p) = t.find('.') { t.insert(p, '.'); "defect:empty-label" } else { "plain" }
        }
        1 => { t.push_str(".."); "defect:empty-label" }
        2 => {
            let mut l = String::new();
            for _ in 0..64 { l.push('y'); }
            t = format!("{l}.{t}");
            "defect:label-64"
        }
        3 => { t = format!("\\256.{t}"); "defect:escape" }
        4 => {
            // 64 octets, one of them written as an escape (the reader's
            // slow path after an escape has its own limit check)
            let l: String = std::iter::repeat('y').take(63).collect();
            t = format!("\\y{l}.{t}");
            "defect:label-64"
        }
        5 => {
            // 64 plain octets in a label that follows an escaped label
            let l: String = std::iter::repeat('y').take(64).collect();
            t = format!("\\119.{l}.{t}");
            "defect:label-64"
        }
        6 => {
            // valid: exactly 63 octets with an escape inside / after an escaped label
            let l: String = std::iter::repeat('y').take(62).collect();
            t = if flag(u) { format!("\\y{l}.{t}") } else { format!("\\119.y{l}.{t}") };
            "escaped-63"
        }
        _ => "plain",
    };
    (t, what)
}

/// Expected absolute wire form of a name text under `origin`.
fn expected(text: &str, origin: &[Vec<u8>]) -> Result<Vec<u8>, String> {
    if text == "@" {
        return Ok(wire_abs(origin));
    }
    let rn = ref_parse(text).map_err(|e| e.tag().to_string())?;
    if rn.labels.is_empty() && !rn.lone_dot {
        return Err("empty".into());
    }
    let mut labels = rn.labels.clone();
    if !rn.trailing_dot {
        labels.extend_from_slice(origin);
    }
    let w = wire_abs(&labels);
    if w.len() > 255 {
        return Err(format!("too-long:{}", w.len()));
    }
    Ok(w)
}

pub fn run_scan(data: &[u8], ctx: &mut Ctx) -> CaseResult {
    let mut u = Unstructured::new(data);
    // origin
    let olen = match pick(&mut u, 8) {
        0 => 1,
        1 => 255,
        2 => 254,
        3 => 200 + pick(&mut u, 54),
        _ => 3 + pick(&mut u, 30),
    };
    let origin: Vec<Vec<u8>> = validate(Kind::Rel, &rel_of_len(&mut u, if olen == 2 { 2 } else { olen - 1 })).unwrap();
    let otext = ref_text(&origin, true, pick(&mut u, 2) as u8);
    let (owner, ow) = gen_name_text(&mut u, &origin, true);
    let (target, tw) = gen_name_text(&mut u, &origin, false);
    ctx.class(format!("scan:owner:{ow}"));
    ctx.class(format!("scan:target:{tw}"));
    let zone = format!("$ORIGIN {otext}\n{owner} 3600 IN MX 10 {target}\n");
    let eo = expected(&owner, &origin);
    let et = expected(&target, &origin);
    let near = |e: &Result<Vec<u8>, String>| match e {
        Ok(w) => w.len() >= 253,
        Err(s) => s.starts_with("too-long:25"),
    };
    if near(&eo) || near(&et) || ow.starts_with("defect") || tw.starts_with("defect") {
        ctx.nontrivial(&zone);
    }
    for (k, e) in [("owner", &eo), ("target", &et)] {
        match e {
            Ok(w) if w.len() == 255 => ctx.class(format!("scan:{k}-255")),
            Ok(w) if w.len() == 254 => ctx.class(format!("scan:{k}-254")),
            Err(s) if s == "too-long:256" => ctx.class(format!("scan:{k}-256")),
            _ => {}
        }
    }
    ctx.sample(|| {
        let z = if zone.len() > 300 { format!("{}…", &zone[..300]) } else { zone.clone() };
        format!("{z:?} owner expects {:?} target expects {:?}", eo.as_ref().map(|w| w.len()), et.as_ref().map(|w| w.len()))
    });
    let mut zf = Zonefile::from(zone.as_str());
    let mut steps = 0;
    loop {
        steps += 1;
        vensure!(steps < 10, "scan:entries-unbounded", "more entries than lines");
        match zf.next_entry() {
            Ok(Some(Entry::Record(rec))) => {
                let w = check_iter("scan_name-owner", Kind::Abs, rec.owner())?;
                match &eo {
                    Ok(want) => vensure!(&w == want, "scan_name:wrong-octets", "owner {owner:?} under {otext:?} scanned as {} want {}", hexs_raw(&w), hexs_raw(want)),
                    Err(why) => vfail!(format!("scan_name:accepted-bad-name:{}", why.split(':').next().unwrap()), "owner {owner:?} under {otext:?} accepted as {} although {why}", hexs_raw(&w)),
                }
                let flat: domain::base::Name<Vec<u8>> = rec.owner().to_name();
                super::machine::check_value("scan_name-owner-to_name", Kind::Abs, flat.as_slice())?;
                if let ZoneRecordData::Mx(mx) = rec.data() {
                    let w = check_iter("scan_name-rdata", Kind::Abs, mx.exchange())?;
                    match &et {
                        Ok(want) => vensure!(&w == want, "scan_name:wrong-octets", "target {target:?} under {otext:?} scanned as {} want {}", hexs_raw(&w), hexs_raw(want)),
                        Err(why) => vfail!(format!("scan_name:accepted-bad-name:{}", why.split(':').next().unwrap()), "target {target:?} under {otext:?} accepted as {} although {why}", hexs_raw(&w)),
                    }
                } else {
                    vfail!("scan:wrong-record-type", "MX line did not give MX data");
                }
                ctx.class("scan:record-ok");
            }
            Ok(Some(_)) => {}
            Ok(None) => break,
            Err(_) => {
                if eo.is_ok() && et.is_ok() {
                    ctx.class("scan:err-on-valid");
                    // both names are presentation forms of valid names within
                    // all limits: the text -> name direction of the round trip
                    // demands that the scanner reads them
                    vfail!("scan_name:rejected-valid-name", "zone {zone:?}: owner and target are valid names (owner {} octets, target {} octets) but the reader returned an error", eo.as_ref().unwrap().len(), et.as_ref().unwrap().len());
                } else {
                    ctx.class("scan:rejected");
                }
                break;
            }
        }
    }
    Ok(())
}
