//! C03: one name in every REPRESENTATION that implements `ToName` /
//! `ToRelativeName`. Entry points that take `&N where N: ToName` (builder
//! `append_origin` / `append_name`, `chain`, ...) may go different ways for a
//! flat name (`as_flat_slice()` is `Some`) and for a name that can only be
//! walked label by label (a `Chain`, a compressed `ParsedName`, anything
//! behind the `&N` blanket impl), so the representation is a dimension of
//! the input space of every such entry point.
use super::machine::hexs_raw;
use super::refs::*;
use crate::engine::*;
use crate::vensure;
use bytes::Bytes;
use domain::base::name::{Name, ParsedName, RelativeName, ToName, ToRelativeName, UncertainName};
use octseq::Parser;

/// A generic "closure" over the representation type.
pub trait WithName {
    type Out;
    fn call<N: ToName>(self, n: &N) -> Self::Out;
}
pub trait WithRelName {
    type Out;
    fn call<N: ToRelativeName>(self, n: &N) -> Self::Out;
}

pub const ABS_REPS: [&str; 8] = ["name-vec", "name-bytes", "parsed-flat", "ref-name-slice", "chain-rel-abs", "chain-chain-abs", "parsed-compressed", "uncertain-chain"];
/// the first three are flat (one slice), the others are not
pub fn abs_rep_is_flat(rep: usize) -> bool {
    rep < 3
}
pub const REL_REPS: [&str; 5] = ["rel-vec", "rel-bytes", "ref-rel-slice", "chain-rel-rel", "chain-chain-rel"];
pub fn rel_rep_is_flat(rep: usize) -> bool {
    rep < 2
}

fn mk_abs(w: &[u8]) -> Result<Name<Vec<u8>>, Violation> {
    Name::from_octets(w.to_vec()).map_err(|e| Violation::new("name-from_octets:rejected-valid-name", format!("{}: {e}", hexs_raw(w))))
}
fn mk_rel(w: &[u8]) -> Result<RelativeName<Vec<u8>>, Violation> {
    RelativeName::from_octets(w.to_vec()).map_err(|e| Violation::new("relative-from_octets:rejected-valid-name", format!("{}: {e}", hexs_raw(w))))
}

/// What every representation of the name `w` has to show, whatever it is
/// made of: the labels of `w`, its length, and - if it claims to be flat -
/// exactly the octets of `w`.
fn selfcheck_labels<'a, I: Iterator<Item = &'a domain::base::name::Label>>(rep: &str, it: I, compose_len: u16, flat: Option<&[u8]>, w: &[u8]) -> CaseResult {
    let mut got = vec![];
    let mut cnt = 0;
    for l in it {
        cnt += 1;
        vensure!(cnt <= 300, format!("rep:{rep}:label-iterator-unbounded"), "more than 300 labels");
        got.push(l.len() as u8);
        got.extend_from_slice(l.as_slice());
    }
    vensure!(got == w, format!("rep:{rep}:wrong-labels"), "{rep} of {} iterates {}", hexs_raw(w), hexs_raw(&got));
    vensure!(usize::from(compose_len) == w.len(), format!("rep:{rep}:compose_len-differs"), "compose_len {} for {} octets", compose_len, w.len());
    if let Some(s) = flat {
        vensure!(s == w, format!("rep:{rep}:flat-slice-differs"), "as_flat_slice {} for {}", hexs_raw(s), hexs_raw(w));
    }
    Ok(())
}
fn selfcheck_abs<N: ToName>(rep: &str, n: &N, w: &[u8]) -> CaseResult {
    selfcheck_labels(rep, n.iter_labels(), n.compose_len(), n.as_flat_slice(), w)
}
fn selfcheck_rel<N: ToRelativeName>(rep: &str, n: &N, w: &[u8]) -> CaseResult {
    selfcheck_labels(rep, n.iter_labels(), n.compose_len(), n.as_flat_slice(), w)
}

/// Calls `f` with the valid absolute name `w` (wire form) in representation
/// `rep`; `s1 <= s2` are label starts of `w` (up to the offset of the root
/// label) where the composite representations are split.
pub fn with_abs<F: WithName>(w: &[u8], rep: usize, s1: usize, s2: usize, f: F) -> Result<F::Out, Violation> {
    let name = ABS_REPS[rep % ABS_REPS.len()];
    let chain_err = |_| Violation::new("chain:rejected-valid-name", format!("parts of the valid name {} (split at {s1}, {s2}) refused by chain()", hexs_raw(w)));
    Ok(match rep % ABS_REPS.len() {
        0 => {
            let n = mk_abs(w)?;
            selfcheck_abs(name, &n, w)?;
            f.call(&n)
        }
        1 => {
            let n = Name::from_octets(Bytes::copy_from_slice(w)).map_err(|e| Violation::new("name-from_octets:rejected-valid-name", e.to_string()))?;
            selfcheck_abs(name, &n, w)?;
            f.call(&n)
        }
        2 => {
            let mut buf = w.to_vec();
            buf.extend_from_slice(&[0xC0, 0x00]);
            let mut p = Parser::from_ref(&buf[..]);
            let n = ParsedName::parse(&mut p).map_err(|e| Violation::new("parsedname-parse:rejected-valid-name", e.to_string()))?;
            selfcheck_abs(name, &n, w)?;
            f.call(&n)
        }
        3 => {
            let r: &Name<[u8]> = Name::from_slice(w).map_err(|e| Violation::new("name-from_slice:rejected-valid-name", e.to_string()))?;
            selfcheck_abs(name, &r, w)?;
            f.call(&r)
        }
        4 => {
            let ch = mk_rel(&w[..s2])?.chain(mk_abs(&w[s2..])?).map_err(chain_err)?;
            selfcheck_abs(name, &ch, w)?;
            f.call(&ch)
        }
        5 => {
            let ch = mk_rel(&w[..s1])?.chain(mk_rel(&w[s1..s2])?).map_err(chain_err)?.chain(mk_abs(&w[s2..])?).map_err(chain_err)?;
            selfcheck_abs(name, &ch, w)?;
            f.call(&ch)
        }
        6 => {
            // tail | middle -> tail | front -> middle ; parsed at `front`
            let mut msg = w[s2..].to_vec();
            let mid = msg.len();
            msg.extend_from_slice(&w[s1..s2]);
            msg.extend_from_slice(&[0xC0, 0x00]);
            let at = msg.len();
            msg.extend_from_slice(&w[..s1]);
            msg.push(0xC0 | (mid >> 8) as u8);
            msg.push(mid as u8);
            msg.extend_from_slice(&[7, 7]);
            let mut p = Parser::from_ref(&msg[..]);
            p.seek(at).unwrap();
            let n = ParsedName::parse(&mut p).map_err(|e| Violation::new("parsedname-parse:rejected-valid-name", format!("compressed form of {}: {e}", hexs_raw(w))))?;
            selfcheck_abs(name, &n, w)?;
            f.call(&n)
        }
        _ => {
            let ch = UncertainName::from(mk_rel(&w[..s2])?).chain(mk_abs(&w[s2..])?).map_err(chain_err)?;
            selfcheck_abs(name, &ch, w)?;
            f.call(&ch)
        }
    })
}

/// The same for the valid relative name `w`; `s1 <= s2` label starts of `w`
/// or its length.
pub fn with_rel<F: WithRelName>(w: &[u8], rep: usize, s1: usize, s2: usize, f: F) -> Result<F::Out, Violation> {
    let name = REL_REPS[rep % REL_REPS.len()];
    let chain_err = |_| Violation::new("chain:rejected-valid-name", format!("parts of the valid relative name {} (split at {s1}, {s2}) refused by chain()", hexs_raw(w)));
    Ok(match rep % REL_REPS.len() {
        0 => {
            let n = mk_rel(w)?;
            selfcheck_rel(name, &n, w)?;
            f.call(&n)
        }
        1 => {
            let n = RelativeName::from_octets(Bytes::copy_from_slice(w)).map_err(|e| Violation::new("relative-from_octets:rejected-valid-name", e.to_string()))?;
            selfcheck_rel(name, &n, w)?;
            f.call(&n)
        }
        2 => {
            let r: &RelativeName<[u8]> = RelativeName::from_slice(w).map_err(|e| Violation::new("relative-from_slice:rejected-valid-name", e.to_string()))?;
            selfcheck_rel(name, &r, w)?;
            f.call(&r)
        }
        3 => {
            let ch = mk_rel(&w[..s2])?.chain(mk_rel(&w[s2..])?).map_err(chain_err)?;
            selfcheck_rel(name, &ch, w)?;
            f.call(&ch)
        }
        _ => {
            let ch = mk_rel(&w[..s1])?.chain(mk_rel(&w[s1..s2])?).map_err(chain_err)?.chain(mk_rel(&w[s2..])?).map_err(chain_err)?;
            selfcheck_rel(name, &ch, w)?;
            f.call(&ch)
        }
    })
}

/// Two split points (label starts, s1 <= s2) of a wire name chosen by two
/// indices; for an absolute name the root label's offset is the last one,
/// for a relative name the length is added.
pub fn splits(w: &[u8], absolute: bool, i: usize, j: usize) -> (usize, usize) {
    let mut st = label_starts(w);
    if !absolute {
        st.push(w.len());
    }
    if st.is_empty() {
        return (0, 0);
    }
    let a = st[i % st.len()];
    let b = st[j % st.len()];
    (a.min(b), a.max(b))
}
