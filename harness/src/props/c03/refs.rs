//! C03 reference code: the independent name validator, a reference reader
//! and writer for the presentation format of names (RFC 1035 section 5.1 as
//! documented by the library: `.` separates labels, `\DDD` is the octet with
//! that decimal value, `\c` is the printable character c, everything else
//! must be printable ASCII), and the text generator built on it.
//!
//! Nothing in this file calls into `domain`.
use crate::gen::*;
use arbitrary::Unstructured;

#[derive(Clone, Copy, Debug, PartialEq, Eq)]
pub enum Kind {
    Abs,
    Rel,
}

/// The independent validator on wire octets: every label 1..=63 octets,
/// absolute: exactly one root label, at the very end, total <= 255;
/// relative: no root label, total <= 254. Returns the labels (without root).
pub fn validate(kind: Kind, w: &[u8]) -> Result<Vec<Vec<u8>>, String> {
    let mut labels = vec![];
    let mut i = 0usize;
    loop {
        if i == w.len() {
            return match kind {
                Kind::Abs => Err(format!("absolute name does not end in the root label ({} octets)", w.len())),
                Kind::Rel => {
                    if w.len() > 254 {
                        Err(format!("relative name of {} octets (limit 254)", w.len()))
                    } else {
                        Ok(labels)
                    }
                }
            };
        }
        let n = w[i] as usize;
        if n == 0 {
            return match kind {
                Kind::Rel => Err(format!("root label at offset {i} inside a relative name")),
                Kind::Abs => {
                    if i + 1 != w.len() {
                        Err(format!("root label at offset {i} is not the last octet (len {})", w.len()))
                    } else if w.len() > 255 {
                        Err(format!("absolute name of {} octets (limit 255)", w.len()))
                    } else {
                        Ok(labels)
                    }
                }
            };
        }
        if n > 63 {
            return Err(format!("length octet {n:#x} at offset {i} is not a label of 1..=63 octets"));
        }
        if i + 1 + n > w.len() {
            return Err(format!("label at offset {i} (len {n}) runs past the end ({})", w.len()));
        }
        labels.push(w[i + 1..i + 1 + n].to_vec());
        i += 1 + n;
    }
}

pub fn wire_rel(labels: &[Vec<u8>]) -> Vec<u8> {
    let mut w = vec![];
    for l in labels {
        w.push(l.len() as u8);
        w.extend_from_slice(l);
    }
    w
}
pub fn wire_abs(labels: &[Vec<u8>]) -> Vec<u8> {
    let mut w = wire_rel(labels);
    w.push(0);
    w
}

/// Label start offsets of a wire name (including the offset of the root
/// label for absolute names, excluding the end offset).
pub fn label_starts(w: &[u8]) -> Vec<usize> {
    let mut v = vec![];
    let mut i = 0;
    while i < w.len() {
        v.push(i);
        i += 1 + w[i] as usize;
    }
    v
}

//------------ presentation format: reference reader ---------------------------

#[derive(Clone, Debug, PartialEq, Eq)]
pub struct RefName {
    pub labels: Vec<Vec<u8>>,
    /// text ended in an unescaped dot (or is the lone ".")
    pub trailing_dot: bool,
    /// text is exactly "."
    pub lone_dot: bool,
    pub had_escape: bool,
}

#[derive(Clone, Copy, Debug, PartialEq, Eq)]
pub enum RefErr {
    EscapeTooBig,
    EscapeTruncated,
    EscapeBadChar,
    EmptyLabel,
    BinaryLabel,
    NotPrintable,
    LongLabel,
}

impl RefErr {
    pub fn tag(self) -> &'static str {
        match self {
            RefErr::EscapeTooBig => "escape-above-255",
            RefErr::EscapeTruncated => "truncated-escape",
            RefErr::EscapeBadChar => "escape-of-non-printable",
            RefErr::EmptyLabel => "empty-label",
            RefErr::BinaryLabel => "binary-label",
            RefErr::NotPrintable => "non-printable-char",
            RefErr::LongLabel => "label-over-63",
        }
    }
}

/// Reference reader. Does not apply the total-length limit (the caller
/// does, because it depends on the target type); applies the label limit.
/// The empty text gives zero labels without trailing dot.
pub fn ref_parse(text: &str) -> Result<RefName, RefErr> {
    let cs: Vec<char> = text.chars().collect();
    if cs == ['.'] {
        return Ok(RefName { labels: vec![], trailing_dot: true, lone_dot: true, had_escape: false });
    }
    let mut labels: Vec<Vec<u8>> = vec![];
    let mut cur: Vec<u8> = vec![];
    let mut in_label = false; // at least one symbol seen in the current label
    let mut trailing_dot = false;
    let mut had_escape = false;
    let mut i = 0;
    while i < cs.len() {
        let c = cs[i];
        i += 1;
        trailing_dot = false;
        let octet: u8;
        if c == '\\' {
            had_escape = true;
            let Some(&d) = cs.get(i) else { return Err(RefErr::EscapeTruncated) };
            i += 1;
            if d.is_ascii_digit() {
                let (Some(&d2), Some(&d3)) = (cs.get(i), cs.get(i + 1)) else { return Err(RefErr::EscapeTruncated) };
                i += 2;
                if !d2.is_ascii_digit() || !d3.is_ascii_digit() {
                    return Err(RefErr::EscapeTruncated);
                }
                let v = (d as u32 - 48) * 100 + (d2 as u32 - 48) * 10 + (d3 as u32 - 48);
                if v > 255 {
                    return Err(RefErr::EscapeTooBig);
                }
                octet = v as u8;
            } else {
                if !(' '..='~').contains(&d) {
                    return Err(RefErr::EscapeBadChar);
                }
                if d == '[' && !in_label {
                    return Err(RefErr::BinaryLabel);
                }
                octet = d as u8;
            }
        } else if c == '.' {
            if !in_label {
                return Err(RefErr::EmptyLabel);
            }
            labels.push(std::mem::take(&mut cur));
            in_label = false;
            trailing_dot = true;
            continue;
        } else {
            if !(' '..='~').contains(&c) {
                return Err(RefErr::NotPrintable);
            }
            octet = c as u8;
        }
        if cur.len() >= 63 {
            return Err(RefErr::LongLabel);
        }
        cur.push(octet);
        in_label = true;
    }
    if in_label {
        labels.push(cur);
    }
    Ok(RefName { labels, trailing_dot, lone_dot: false, had_escape })
}

/// Reference writer: a text every conforming reader must map back to the
/// labels (all specials as `\DDD`, so it is also safe inside a zone file).
pub fn ref_text(labels: &[Vec<u8>], absolute: bool, mode: u8) -> String {
    if labels.is_empty() {
        return if absolute { ".".into() } else { String::new() };
    }
    let mut s = String::new();
    for (k, l) in labels.iter().enumerate() {
        if k > 0 {
            s.push('.');
        }
        for &b in l {
            let plain = b.is_ascii_alphanumeric() || b == b'-' || b == b'_';
            match mode {
                // zone-file safe: everything else as \DDD
                0 => {
                    if plain { s.push(b as char) } else { s.push_str(&format!("\\{b:03}")) }
                }
                // everything as \DDD
                1 => s.push_str(&format!("\\{b:03}")),
                // simple escapes where possible
                _ => {
                    if plain {
                        s.push(b as char)
                    } else if (0x21..0x7f).contains(&b) && !b.is_ascii_digit() {
                        s.push('\\');
                        s.push(b as char)
                    } else {
                        s.push_str(&format!("\\{b:03}"))
                    }
                }
            }
        }
    }
    if absolute {
        s.push('.');
    }
    s
}

//------------ presentation format: generator ------------------------------------

/// One generated text plus what the generator intended (for class labels).
pub struct GenText {
    pub text: String,
    pub intent: &'static str,
}

fn atom(u: &mut Unstructured, s: &mut String, first_in_label: bool) {
    match pick(u, 12) {
        0..=5 => s.push(pickb(u, b"abcdefghijklmnopqrstuvwxyz0123456789-_ABCXYZ*") as char),
        6 => s.push_str(&format!("\\{:03}", byte(u))),
        7 => s.push_str(&format!("\\{:03}", pickb(u, &[0, 46, 92, 32, 255, 127, 128, 9, 10, 34, 59]))),
        8 => {
            let c = pickb(u, b".\\\";()@$ #'x!");
            s.push('\\');
            s.push(c as char);
        }
        9 => {
            if first_in_label {
                s.push('x')
            } else {
                s.push_str("\\[")
            }
        }
        10 => s.push(pickb(u, b" \";()@$#'!/:[]{}|~`^&%+=<>?,") as char),
        _ => s.push(pickb(u, b"abc") as char),
    }
}

fn text_label(u: &mut Unstructured, s: &mut String, n: usize) {
    // n symbols; long runs use a repeated plain character so that the byte
    // vector stays short
    if n > 12 {
        let c = pickb(u, b"abcxyz019") as char;
        let k = pick(u, 4);
        for j in 0..n {
            if j < k {
                atom(u, s, j == 0)
            } else {
                s.push(c)
            }
        }
    } else {
        for j in 0..n {
            atom(u, s, j == 0)
        }
    }
}

/// Grammar-driven text: `target` = wire length of the relative part the
/// text should decode to (biased to the limits), optionally with a defect.
pub fn gen_text(u: &mut Unstructured) -> GenText {
    let mode = pick(u, 10);
    if mode == 9 {
        // arbitrary string
        let n = pick(u, 40);
        let mut s = String::new();
        for _ in 0..n {
            match pick(u, 6) {
                0 => s.push('.'),
                1 => s.push('\\'),
                2 => s.push(pickb(u, b"0123456789") as char),
                3 => s.push(char::from_u32(u32_(u) % 0x3000).unwrap_or('a')),
                _ => s.push(byte(u) as char),
            }
        }
        return GenText { text: s, intent: "arbitrary" };
    }
    if mode == 8 {
        let t = ["", ".", "..", "a.", ".a", "a..b", "\\", "\\.", "\\1", "\\12", "\\256", "\\999", "\\[", "a\\[", "a.\\[x", "\\046", "a\\.b", "\\\\", " ", "a b", "*", "\\000"];
        return GenText { text: t[pick(u, t.len())].to_string(), intent: "fixed-corner" };
    }
    // target length of the relative wire form
    let target: usize = match pick(u, 12) {
        0 => 254,
        1 => 255,
        2 => 253,
        3 => 256,
        4 => 252,
        5 => 257 + pick(u, 30),
        _ => 2 + pick(u, 40),
    };
    let mut s = String::new();
    let mut len = 0usize;
    let mut intent = "grammar";
    let mut first = true;
    while len + 2 <= target {
        let room = target - len - 1;
        let n = if room <= 63 && chance(u, 160) {
            room
        } else {
            match pick(u, 8) {
                0 => 63.min(room),
                1 => 62.min(room),
                2 => 1,
                _ => (1 + pick(u, 20)).min(room),
            }
        };
        // leave no remainder of exactly one octet (cannot be a label)
        let n = if room - n == 1 { if n > 1 { n - 1 } else { n + 1 } } else { n };
        if !first {
            s.push('.');
        }
        first = false;
        text_label(u, &mut s, n);
        len += n + 1;
    }
    if mode == 7 {
        // inject one defect
        intent = "grammar+defect";
        match pick(u, 8) {
            0 => s.push_str(".."),
            1 => s.insert(0, '.'),
            2 => s.push_str("\\25"),
            3 => s.push_str(&format!("\\{}", 256 + pick(u, 700))),
            4 => s.push('\\'),
            5 => s.push('\u{e9}'),
            6 => {
                // a 64-symbol label
                if !s.is_empty() {
                    s.push('.');
                }
                for _ in 0..64 {
                    s.push('y')
                }
            }
            _ => s.push('\n'),
        }
    }
    if flag(u) {
        s.push('.');
    }
    GenText { text: s, intent }
}
