//! C03 sub-checks on name values: text constructors against the reference
//! reader, wire constructors as gatekeepers, text/wire round trips, and the
//! slicing / chaining operations at label boundaries.
use super::machine::{check_value, fill, hexs_raw, rel_of_len};
use super::refs::*;
use super::reps::{self, WithName};
use crate::engine::*;
use crate::gen::name as gn;
use crate::gen::*;
use crate::{vensure, vfail};
use arbitrary::Unstructured;
use bytes::Bytes;
use domain::base::name::{
    Chain, FlattenInto, Label, Name, NameBuilder, OwnedLabel, ParsedName, RelativeName, ToLabelIter, ToName, ToRelativeName, UncertainName,
};
use domain::base::scan::{IterScanner, Scanner};
use octseq::Parser;
use std::str::FromStr;

/// Collects the labels of any label iterator with a step bound (a valid
/// name has at most 128 labels) and validates them as a name value.
pub fn check_iter<'a, N: ToLabelIter + ?Sized>(what: &str, kind: Kind, n: &'a N) -> Result<Vec<u8>, Violation> {
    let mut labels: Vec<Vec<u8>> = vec![];
    for l in n.iter_labels() {
        if labels.len() > 300 {
            vfail!(format!("{what}:label-iterator-unbounded"), "{what}: more than 300 labels");
        }
        labels.push(l.as_slice().to_vec());
    }
    let w = wire_rel(&labels);
    check_value(what, kind, &w)?;
    vensure!(usize::from(n.compose_len()) == w.len(), format!("{what}:compose_len-differs"), "compose_len {} but labels make {}", n.compose_len(), w.len());
    Ok(w)
}

//------------ text ------------------------------------------------------------

fn over_sig(entry: &str, got: usize, limit: usize) -> String {
    if got == limit + 1 {
        format!("{entry}:name-too-long-by-one")
    } else {
        format!("{entry}:accepted-over-limit")
    }
}

/// Compares one text constructor's result with the reference reader.
/// `got`: Ok(wire octets, is_absolute) or Err(text of error).
fn judge_text(ctx: &mut Ctx, entry: &str, text: &str, r: &Result<RefName, RefErr>, want_abs: Option<bool>, got: Result<(Vec<u8>, bool), String>, must_accept: bool) -> CaseResult {
    match got {
        Ok((w, abs)) => {
            let kind = if abs { Kind::Abs } else { Kind::Rel };
            let limit = if abs { 255 } else { 254 };
            let rn = match r {
                Ok(rn) => rn,
                Err(e) => {
                    // Accepted a text the documented grammar rejects. The
                    // statement only promises that the VALUE is valid and
                    // within the limits, so leniency towards malformed
                    // escapes / empty labels is recorded as a class; a label
                    // of more than 63 symbols is a limit and must not pass.
                    check_value(entry, kind, &w)?;
                    if *e == RefErr::LongLabel {
                        vfail!(format!("{entry}:accepted-long-label"), "{entry}({text:?}) returned {} although a label has more than 63 octets", hexs_raw(&w));
                    }
                    ctx.class(format!("text:{entry}:lenient:{}", e.tag()));
                    return Ok(());
                }
            };
            let mut want = wire_rel(&rn.labels);
            if abs {
                want.push(0);
            }
            if want.len() > limit {
                vfail!(over_sig(entry, want.len(), limit), "{entry}({text:?}) returned a {kind:?} name of {} octets (limit {limit}); reference length {}", w.len(), want.len());
            }
            check_value(entry, kind, &w)?;
            if let Some(a) = want_abs {
                vensure!(a == abs, format!("{entry}:wrong-absoluteness"), "{entry}({text:?}): absolute={abs}, expected {a}");
            }
            vensure!(w == want, format!("{entry}:wrong-octets"), "{entry}({text:?}) = {} but the text denotes {}", hexs_raw(&w), hexs_raw(&want));
            ctx.class(format!("text:{entry}:ok"));
        }
        Err(e) => {
            if must_accept {
                vfail!(format!("{entry}:rejected-text-of-valid-name"), "{entry}({text:?}) failed with {e}");
            }
            match r {
                Ok(rn) => {
                    // well-formed: refused because of the total length, because
                    // the target type does not take this text (e.g. a trailing
                    // dot for RelativeName), or over-strictly
                    let rel = wire_rel(&rn.labels).len();
                    let over = match want_abs { Some(false) => rel > 254, Some(true) => rel + 1 > 255, None => rel + usize::from(rn.trailing_dot) > 254 };
                    if over {
                        ctx.class(format!("text:{entry}:rejected-long"))
                    } else if want_abs == Some(false) && rn.trailing_dot {
                        ctx.class(format!("text:{entry}:rejected-absolute-text"))
                    } else {
                        ctx.class(format!("text:{entry}:overstrict"))
                    }
                }
                Err(x) => ctx.class(format!("text:{entry}:err:{}", x.tag())),
            }
        }
    }
    Ok(())
}

/// Runs every text entry point on `text`. `expect`: when the text was made
/// from a valid name by the library's own Display (round trip law) or by the
/// reference writer, acceptance is demanded.
pub fn text_entry_points(ctx: &mut Ctx, text: &str, must_accept_abs: bool, must_accept_rel: bool) -> CaseResult {
    let r = ref_parse(text);
    let rlen = r.as_ref().ok().map(|rn| wire_rel(&rn.labels).len());
    // Name: always absolute; the empty text is an error
    let name_ref: Result<RefName, RefErr> = match &r {
        Ok(rn) if rn.labels.is_empty() && !rn.lone_dot => Err(RefErr::EmptyLabel),
        x => x.clone(),
    };
    let g = Name::<Vec<u8>>::from_str(text).map(|n| (n.as_slice().to_vec(), true)).map_err(|e| e.to_string());
    judge_text(ctx, "name-from_str", text, &name_ref, Some(true), g, must_accept_abs)?;
    let g = Name::<Bytes>::from_chars(text.chars()).map(|n| (n.as_slice().to_vec(), true)).map_err(|e| e.to_string());
    judge_text(ctx, "name-from_chars-bytes", text, &name_ref, Some(true), g, must_accept_abs)?;
    // Symbols stops at a malformed escape; its documentation asks the caller
    // to look at ok() afterwards
    let mut syms = domain::base::scan::Symbols::new(text.chars());
    let g = Name::<Vec<u8>>::from_symbols(&mut syms).map(|n| (n.as_slice().to_vec(), true)).map_err(|e| e.to_string());
    let g = match syms.ok() {
        Ok(()) => g,
        Err(e) => Err(e.to_string()),
    };
    judge_text(ctx, "name-from_symbols", text, &name_ref, Some(true), g, must_accept_abs)?;
    // IterScanner::scan_name
    let mut sc = IterScanner::<_, Vec<u8>>::new(std::iter::once(text));
    let g = sc.scan_name().map(|n| (n.as_slice().to_vec(), true)).map_err(|e| e.to_string());
    judge_text(ctx, "iterscanner-scan_name", text, &name_ref, Some(true), g, must_accept_abs)?;
    // UncertainName: absolute iff trailing dot
    let want_abs = r.as_ref().ok().map(|rn| rn.trailing_dot);
    let g = UncertainName::<Vec<u8>>::from_str(text).map(|n| (n.as_slice().to_vec(), n.is_absolute())).map_err(|e| e.to_string());
    judge_text(ctx, "uncertain-from_str", text, &r, want_abs, g, must_accept_abs || must_accept_rel)?;
    // RelativeName: a trailing dot is an error
    let g = RelativeName::<Vec<u8>>::from_str(text).map(|n| (n.as_slice().to_vec(), false)).map_err(|e| e.to_string());
    match (&r, &g) {
        (Ok(rn), Ok((w, _))) if rn.trailing_dot => {
            vfail!("relative-from_str:accepted-absolute-text", "RelativeName::from_str({text:?}) = {}", hexs_raw(w));
        }
        _ => judge_text(ctx, "relative-from_str", text, &r, Some(false), g, must_accept_rel)?,
    }
    let g = RelativeName::<Bytes>::from_chars(text.chars()).map(|n| (n.as_slice().to_vec(), false)).map_err(|e| e.to_string());
    if !matches!(&r, Ok(rn) if rn.trailing_dot) {
        judge_text(ctx, "relative-from_chars-bytes", text, &r, Some(false), g, must_accept_rel)?;
    }
    if let Some(l) = rlen {
        if (252..=257).contains(&l) {
            ctx.class(format!("text:reference-rel-len-{l}"));
        }
    }
    Ok(())
}

pub fn run_text(data: &[u8], ctx: &mut Ctx) -> CaseResult {
    let mut u = Unstructured::new(data);
    let g = gen_text(&mut u);
    ctx.class(format!("text:intent:{}", g.intent));
    let r = ref_parse(&g.text);
    let rlen = r.as_ref().ok().map(|rn| wire_rel(&rn.labels).len()).unwrap_or(0);
    let maxlab = r.as_ref().ok().map(|rn| rn.labels.iter().map(|l| l.len()).max().unwrap_or(0)).unwrap_or(0);
    let escape = g.text.contains('\\');
    if (252..=257).contains(&rlen) || (61..=65).contains(&maxlab) || escape || r.is_err() {
        ctx.nontrivial(&g.text);
    }
    if escape {
        ctx.class("text:has-escape");
    }
    ctx.sample(|| format!("text {:?} -> reference {}", g.text, match &r { Ok(rn) => format!("{} labels, {} octets relative, dot={}", rn.labels.len(), rlen, rn.trailing_dot), Err(e) => format!("{e:?}") }));
    text_entry_points(ctx, &g.text, false, false)?;
    // a single label through OwnedLabel::from_chars
    let lt: String = match pick(&mut u, 4) {
        0 => g.text.split('.').next().unwrap_or("").to_string(),
        1 => ["\\256", "\\999", "\\25", "\\", "a\\[", "\\[", "\\255", "\\000a", "a\\.b", "\\300x"][pick(&mut u, 10)].to_string(),
        _ => {
            let mut s = String::new();
            let n = match pick(&mut u, 5) { 0 => 63, 1 => 64, 2 => 62, _ => pick(&mut u, 10) };
            let c = pickb(&mut u, b"abz") as char;
            for i in 0..n {
                if i == 0 && flag(&mut u) { s.push_str(&format!("\\{:03}", byte(&mut u))) } else { s.push(c) }
            }
            s
        }
    };
    owned_label(ctx, &lt)?;
    Ok(())
}

/// OwnedLabel::from_chars reads exactly one label: dots are plain content.
fn owned_label(ctx: &mut Ctx, lt: &str) -> CaseResult {
    // reference: like ref_parse but '.' is content
    let mut want: Result<Vec<u8>, &'static str> = Ok(vec![]);
    let cs: Vec<char> = lt.chars().collect();
    let mut i = 0;
    let mut out = vec![];
    while i < cs.len() {
        let c = cs[i];
        i += 1;
        if c == '\\' {
            let Some(&d) = cs.get(i) else { want = Err("truncated-escape"); break };
            i += 1;
            if d.is_ascii_digit() {
                let (Some(&d2), Some(&d3)) = (cs.get(i), cs.get(i + 1)) else { want = Err("truncated-escape"); break };
                i += 2;
                if !d2.is_ascii_digit() || !d3.is_ascii_digit() { want = Err("truncated-escape"); break }
                let v = (d as u32 - 48) * 100 + (d2 as u32 - 48) * 10 + (d3 as u32 - 48);
                if v > 255 { want = Err("escape-above-255"); break }
                out.push(v as u8);
            } else if d == '[' && out.is_empty() {
                want = Err("binary-label");
                break;
            } else if (' '..='~').contains(&d) {
                out.push(d as u8);
            } else {
                want = Err("escape-of-non-printable");
                break;
            }
        } else if (' '..='~').contains(&c) {
            out.push(c as u8);
        } else {
            want = Err("non-printable-char");
            break;
        }
    }
    if want.is_ok() {
        want = if out.len() > 63 { Err("label-over-63") } else { Ok(out) };
    }
    match (OwnedLabel::from_chars(lt.chars()), want) {
        (Ok(l), Ok(w)) => {
            vensure!(l.as_label().as_slice() == &w[..], "ownedlabel-from_chars:wrong-octets", "OwnedLabel::from_chars({lt:?}) = {:?} want {w:?}", l.as_label().as_slice());
            vensure!(l.as_wire_slice().len() == w.len() + 1 && l.as_wire_slice()[0] as usize == w.len(), "ownedlabel:wire-slice", "as_wire_slice");
            // Display and back
            let shown = l.to_string();
            match OwnedLabel::from_str(&shown) {
                Ok(l2) => vensure!(l2.as_label().as_slice() == &w[..], "ownedlabel:text-roundtrip-differs", "{w:?} -> {shown:?} -> {:?}", l2.as_label().as_slice()),
                Err(e) => vfail!("ownedlabel:text-roundtrip-rejected", "{w:?} -> {shown:?} -> {e}"),
            }
            ctx.class("text:ownedlabel:ok");
        }
        (Ok(l), Err(why)) => {
            if why == "label-over-63" {
                vfail!("ownedlabel-from_chars:accepted-long-label", "OwnedLabel::from_chars({lt:?}) accepted a label of more than 63 octets: {} octets", l.as_label().len());
            }
            // leniency towards malformed escapes is outside the statement
            let _ = l;
            ctx.class(format!("text:ownedlabel:lenient:{why}"));
        }
        (Err(_), Ok(_)) => ctx.class("text:ownedlabel:err-on-wellformed"),
        (Err(_), Err(why)) => ctx.class(format!("text:ownedlabel:err:{why}")),
    }
    Ok(())
}

//------------ round trips -----------------------------------------------------------

pub fn run_roundtrip(data: &[u8], ctx: &mut Ctx) -> CaseResult {
    let mut u = Unstructured::new(data);
    let plain = chance(&mut u, 60);
    let labels = gn::name(&mut u, plain);
    let abs = wire_abs(&labels);
    let rel = wire_rel(&labels);
    let maxlab = labels.iter().map(|l| l.len()).max().unwrap_or(0);
    let special = labels.iter().any(|l| l.iter().any(|b| !b.is_ascii_alphanumeric() && *b != b'-'));
    if abs.len() >= 253 || maxlab >= 61 || special {
        ctx.nontrivial(&abs);
    }
    if abs.len() == 255 { ctx.class("roundtrip:abs-255"); }
    if abs.len() == 254 { ctx.class("roundtrip:abs-254"); }
    if maxlab == 63 { ctx.class("roundtrip:label-63"); }
    if special { ctx.class("roundtrip:special-octets"); }
    if labels.is_empty() { ctx.class("roundtrip:root"); }
    ctx.sample(|| format!("name {} ({} octets)", gn::show(&labels), abs.len()));

    // wire: every valid name is accepted by every wire constructor, unchanged
    let name = match Name::from_octets(abs.clone()) {
        Ok(n) => n,
        Err(e) => vfail!("name-from_octets:rejected-valid-name", "Name::from_octets refused {}: {e}", hexs_raw(&abs)),
    };
    vensure!(name.as_slice() == &abs[..], "name-from_octets:octets-changed", "octets changed");
    match Name::from_slice(&abs) {
        Ok(n) => vensure!(n.as_slice() == &abs[..], "name-from_slice:octets-changed", "octets changed"),
        Err(e) => vfail!("name-from_slice:rejected-valid-name", "Name::from_slice refused {}: {e}", hexs_raw(&abs)),
    }
    let relname = match RelativeName::from_octets(rel.clone()) {
        Ok(n) => n,
        Err(e) => vfail!("relative-from_octets:rejected-valid-name", "RelativeName::from_octets refused {}: {e}", hexs_raw(&rel)),
    };
    match RelativeName::from_slice(&rel) {
        Ok(n) => vensure!(n.as_slice() == &rel[..], "relative-from_slice:octets-changed", "octets changed"),
        Err(e) => vfail!("relative-from_slice:rejected-valid-name", "RelativeName::from_slice refused {}: {e}", hexs_raw(&rel)),
    }
    for (w, a) in [(&abs, true), (&rel, false)] {
        match UncertainName::from_octets(w.clone()) {
            Ok(n) => {
                vensure!(n.is_absolute() == a && n.as_slice() == &w[..], "uncertain-from_octets:wrong-result", "UncertainName::from_octets({}) absolute={} octets {}", hexs_raw(w), n.is_absolute(), hexs_raw(n.as_slice()));
            }
            Err(e) => vfail!(if w.is_empty() { "uncertain-from_octets:rejected-empty-name" } else { "uncertain-from_octets:rejected-valid-name" }, "UncertainName::from_octets refused the valid {} name {}: {e}", if a { "absolute" } else { "relative" }, hexs_raw(w)),
        }
    }
    // compose -> parse with trailing data behind the name
    let mut buf = vec![];
    name.compose(&mut buf).unwrap();
    vensure!(buf == abs, "name-compose:octets-differ", "compose gives {}", hexs_raw(&buf));
    buf.extend_from_slice(&[0xC0, 0x00, 0x07]);
    let mut p = Parser::from_ref(&buf[..]);
    match Name::<&[u8]>::parse(&mut p) {
        Ok(n) => {
            vensure!(n.as_slice() == &abs[..] && p.pos() == abs.len(), "name-parse:wrong-result", "Name::parse gives {} pos {}", hexs_raw(n.as_slice()), p.pos());
        }
        Err(e) => vfail!("name-parse:rejected-valid-name", "Name::parse refused {}: {e}", hexs_raw(&abs)),
    }
    let mut p = Parser::from_ref(&buf[..]);
    match ParsedName::parse(&mut p) {
        Ok(pn) => {
            let w = check_iter("parsedname", Kind::Abs, &pn)?;
            vensure!(w == abs && p.pos() == abs.len(), "parsedname-parse:wrong-result", "ParsedName gives {}", hexs_raw(&w));
            let flat: Name<Vec<u8>> = pn.to_name();
            vensure!(flat.as_slice() == &abs[..], "parsedname-to_name:octets-differ", "{}", hexs_raw(flat.as_slice()));
            parsed_derivations(&pn, &labels)?;
            let shown = pn.to_string();
            match Name::<Vec<u8>>::from_str(&shown) {
                Ok(n) => vensure!(n.as_slice() == &abs[..], "parsedname:text-roundtrip-differs", "{} -> {shown:?} -> {}", hexs_raw(&abs), hexs_raw(n.as_slice())),
                Err(e) => vfail!("parsedname:text-roundtrip-rejected", "{shown:?}: {e}"),
            }
        }
        Err(e) => vfail!("parsedname-parse:rejected-valid-name", "ParsedName::parse refused {}: {e}", hexs_raw(&abs)),
    }
    let mut buf = vec![];
    ToRelativeName::compose(&relname, &mut buf).unwrap();
    vensure!(buf == rel, "relative-compose:octets-differ", "compose gives {}", hexs_raw(&buf));

    // text: Display / fmt_with_dot and back, identical octets
    let shown = name.to_string();
    let dotted = name.fmt_with_dot().to_string();
    for (entry, txt) in [("name-display", &shown), ("name-fmt_with_dot", &dotted)] {
        match Name::<Vec<u8>>::from_str(txt) {
            Ok(n) => vensure!(n.as_slice() == &abs[..], format!("{entry}:text-roundtrip-differs"), "{} -> {txt:?} -> {}", hexs_raw(&abs), hexs_raw(n.as_slice())),
            Err(e) => vfail!(format!("{entry}:text-roundtrip-rejected"), "{} -> {txt:?} -> {e}", hexs_raw(&abs)),
        }
        match Name::<Bytes>::bytes_from_str(txt) {
            Ok(n) => vensure!(n.as_slice() == &abs[..], format!("{entry}:text-roundtrip-differs"), "bytes"),
            Err(e) => vfail!(format!("{entry}:text-roundtrip-rejected"), "{txt:?} -> {e}"),
        }
    }
    // the dotted text must come back absolute, the relative text relative
    let rshown = relname.to_string();
    match RelativeName::<Vec<u8>>::from_str(&rshown) {
        Ok(n) => vensure!(n.as_slice() == &rel[..], "relative-display:text-roundtrip-differs", "{} -> {rshown:?} -> {}", hexs_raw(&rel), hexs_raw(n.as_slice())),
        Err(e) => vfail!("relative-display:text-roundtrip-rejected", "{} -> {rshown:?} -> {e}", hexs_raw(&rel)),
    }
    for (un, w, a) in [(UncertainName::from(name.clone()), &abs, true), (UncertainName::from(relname.clone()), &rel, false)] {
        let txt = un.to_string();
        match UncertainName::<Vec<u8>>::from_str(&txt) {
            Ok(n) => vensure!(n.is_absolute() == a && n.as_slice() == &w[..], "uncertain-display:text-roundtrip-differs", "{} (absolute={a}) -> {txt:?} -> {} (absolute={})", hexs_raw(w), hexs_raw(n.as_slice()), n.is_absolute()),
            Err(e) => vfail!("uncertain-display:text-roundtrip-rejected", "{} (absolute={a}) -> {txt:?} -> {e}", hexs_raw(w)),
        }
    }
    // all text entry points on the library's own text and on reference texts
    text_entry_points(ctx, &dotted, true, false)?;
    if !labels.is_empty() {
        text_entry_points(ctx, &rshown, true, true)?;
    }
    let mode = pick(&mut u, 3) as u8;
    // texts of the reference writer (all-\DDD, simple escapes): acceptance
    // is not demanded by a round-trip law (e.g. `\[` at the start of a label
    // is refused on purpose), but an accepted text must give these octets
    text_entry_points(ctx, &ref_text(&labels, true, mode), false, false)?;
    if !labels.is_empty() {
        text_entry_points(ctx, &ref_text(&labels, false, mode), false, false)?;
    }
    // labels
    for l in name.iter() {
        let ol = OwnedLabel::from_label(l);
        let txt = l.to_string();
        if !l.is_root() {
            match OwnedLabel::from_str(&txt) {
                Ok(l2) => vensure!(l2.as_label().as_slice() == l.as_slice(), "label-display:text-roundtrip-differs", "{:?} -> {txt:?} -> {:?}", l.as_slice(), l2.as_label().as_slice()),
                Err(e) => vfail!("label-display:text-roundtrip-rejected", "{:?} -> {txt:?} -> {e}", l.as_slice()),
            }
        }
        vensure!(ol.as_label().as_slice() == l.as_slice(), "ownedlabel-from_label:octets-differ", "from_label");
    }
    Ok(())
}

//------------ wire gatekeepers ------------------------------------------------------

pub fn gen_wire(u: &mut Unstructured) -> (Vec<u8>, &'static str) {
    match pick(u, 10) {
        0 => {
            let n = pick(u, 300);
            ((0..n).map(|_| byte(u)).collect(), "raw")
        }
        1 => {
            // raw but with small length octets
            let n = pick(u, 40);
            ((0..n).map(|_| if flag(u) { byte(u) % 5 } else { byte(u) }).collect(), "raw-small")
        }
        k => {
            let total = match pick(u, 10) { 0 => 255, 1 => 254, 2 => 256, 3 => 257, 4 => 253, 5 => 258 + pick(u, 40), _ => 2 + pick(u, 60) };
            // built from labels; total may exceed the limit on purpose
            let mut w = vec![];
            let mut r = total - 1;
            while r >= 2 {
                let mut n = (r - 1).min(if chance(u, 30) { 64 + pick(u, 3) } else { 63 });
                if r > 40 && chance(u, 80) { n = 1 + pick(u, n.min(63)); }
                if r - 1 - n == 1 { if n > 1 { n -= 1 } else { n += 1 } }
                let n = n.min(r - 1);
                w.push(n as u8);
                w.extend_from_slice(&fill(u, n));
                r -= n + 1;
            }
            let what = match k {
                2 | 3 | 4 => { w.push(0); "abs" }
                5 => "rel",
                6 => { w.push(0); w.push(0); "double-root" }
                7 => {
                    // interior root
                    let st = label_starts(&w);
                    if st.len() > 1 { let at = st[1 + pick(u, st.len() - 1)]; w.insert(at, 0); }
                    if flag(u) { w.push(0); }
                    "interior-root"
                }
                8 => {
                    w.push(0);
                    let i = pick(u, w.len());
                    w[i] = [0x40, 0x80, 0xC0, 0xFF, 64, 0x3F, 0][pick(u, 7)];
                    "damaged-octet"
                }
                _ => {
                    w.push(0);
                    let cut = pick(u, w.len());
                    if flag(u) { w.truncate(cut); } else { w.extend_from_slice(&[1, b'x']); }
                    "cut-or-trailing"
                }
            };
            (w, what)
        }
    }
}

pub fn run_wire(data: &[u8], ctx: &mut Ctx) -> CaseResult {
    let mut u = Unstructured::new(data);
    let (w, what) = gen_wire(&mut u);
    ctx.class(format!("wire:input:{what}"));
    let va = validate(Kind::Abs, &w);
    let vr = validate(Kind::Rel, &w);
    if (252..=258).contains(&w.len()) {
        ctx.nontrivial(&w);
        ctx.class(format!("wire:len-{}", w.len()));
    }
    if va.is_ok() { ctx.class("wire:valid-abs"); }
    if vr.is_ok() { ctx.class("wire:valid-rel"); }
    if va.is_err() && vr.is_err() { ctx.class("wire:invalid"); }
    ctx.sample(|| format!("{what}: {} abs={:?} rel={:?}", hexs_raw(&w), va.as_ref().map(|l| l.len()), vr.as_ref().map(|l| l.len())));

    macro_rules! gate {
        ($entry:expr, $res:expr, $valid:expr) => {{
            match ($res, &$valid) {
                (Ok(got), Ok(_)) => {
                    let got: Vec<u8> = got;
                    vensure!(got == w, format!("{}:octets-changed", $entry), "{} returned {} for {}", $entry, hexs_raw(&got), hexs_raw(&w));
                    ctx.class(format!("wire:{}:ok", $entry));
                }
                (Ok(got), Err(e)) => {
                    let got: Vec<u8> = got;
                    let _ = got;
                    let by_one = e.contains("limit");
                    vfail!(format!("{}:accepted-invalid-name{}", $entry, if by_one { ":too-long" } else { "" }), "{} accepted {}: {e}", $entry, hexs_raw(&w));
                }
                (Err(e), Ok(_)) => {
                    vfail!(format!("{}:rejected-valid-name", $entry), "{} refused the valid name {}: {}", $entry, hexs_raw(&w), e);
                }
                (Err(_), Err(_)) => ctx.class(format!("wire:{}:rejected", $entry)),
            }
        }};
    }
    gate!("name-from_octets", Name::from_octets(w.clone()).map(|n| n.as_slice().to_vec()).map_err(|e| e.to_string()), va);
    gate!("name-from_octets-bytes", Name::from_octets(Bytes::from(w.clone())).map(|n| n.as_slice().to_vec()).map_err(|e| e.to_string()), va);
    gate!("name-from_slice", Name::from_slice(&w).map(|n| n.as_slice().to_vec()).map_err(|e| e.to_string()), va);
    gate!("relative-from_octets", RelativeName::from_octets(w.clone()).map(|n| n.as_slice().to_vec()).map_err(|e| e.to_string()), vr);
    gate!("relative-from_slice", RelativeName::from_slice(&w).map(|n| n.as_slice().to_vec()).map_err(|e| e.to_string()), vr);
    gate!("namebuilder-from_builder", NameBuilder::from_builder(w.clone()).map(|b| b.finish().as_slice().to_vec()).map_err(|e| e.to_string()), vr);
    // UncertainName: accepts either kind and must say which
    match UncertainName::from_octets(w.clone()) {
        Ok(n) => {
            let (kind, v) = if n.is_absolute() { (Kind::Abs, &va) } else { (Kind::Rel, &vr) };
            if let Err(e) = v {
                vfail!(format!("uncertain-from_octets:accepted-invalid-name{}", if e.contains("limit") { ":too-long" } else { "" }), "UncertainName::from_octets accepted {} as {kind:?}: {e}", hexs_raw(&w));
            }
            vensure!(n.as_slice() == &w[..], "uncertain-from_octets:octets-changed", "octets changed");
            ctx.class("wire:uncertain-from_octets:ok");
        }
        Err(e) => {
            if va.is_ok() || vr.is_ok() {
                vfail!(if w.is_empty() { "uncertain-from_octets:rejected-empty-name" } else { "uncertain-from_octets:rejected-valid-name" }, "UncertainName::from_octets refused the valid name {}: {e}", hexs_raw(&w));
            }
            ctx.class("wire:uncertain-from_octets:rejected");
        }
    }
    // Name::parse reads a prefix: the longest valid absolute prefix, if any
    let prefix: Option<usize> = {
        let mut i = 0usize;
        let mut r = None;
        while i < w.len() {
            let n = w[i] as usize;
            if n == 0 { r = Some(i + 1); break; }
            if n > 63 || i + 1 + n > w.len() { break; }
            i += 1 + n;
        }
        r.filter(|l| *l <= 255)
    };
    let mut p = Parser::from_ref(&w[..]);
    match Name::<&[u8]>::parse(&mut p) {
        Ok(n) => {
            check_value("name-parse", Kind::Abs, n.as_slice())?;
            vensure!(Some(n.len()) == prefix && n.as_slice() == &w[..n.len()], "name-parse:wrong-result", "Name::parse gives {} from {}", hexs_raw(n.as_slice()), hexs_raw(&w));
            ctx.class("wire:name-parse:ok");
        }
        Err(e) => {
            vensure!(prefix.is_none(), "name-parse:rejected-valid-name", "Name::parse refused {} ({e}) although it starts with a valid name of {:?} octets", hexs_raw(&w), prefix);
            ctx.class("wire:name-parse:rejected");
        }
    }
    // the same bytes through ParsedName (pointers may now be followed)
    let mut p = Parser::from_ref(&w[..]);
    if let Ok(pn) = ParsedName::parse(&mut p) {
        let pw = check_iter("parsedname", Kind::Abs, &pn)?;
        let flat: Name<Vec<u8>> = pn.to_name();
        check_value("parsedname-to_name", Kind::Abs, flat.as_slice())?;
        vensure!(flat.as_slice() == &pw[..], "parsedname-to_name:octets-differ", "to_name {} labels {}", hexs_raw(flat.as_slice()), hexs_raw(&pw));
        let f2: Name<Bytes> = pn.flatten_into();
        vensure!(f2.as_slice() == &pw[..], "parsedname-flatten_into:octets-differ", "flatten_into");
        ctx.class("wire:parsedname:ok");
    } else if prefix.is_some() {
        vfail!("parsedname-parse:rejected-valid-name", "ParsedName::parse refused {} which starts with a valid uncompressed name", hexs_raw(&w));
    }
    // labels
    let k = pick(&mut u, w.len().min(70) + 1);
    match Label::from_slice(&w[..k]) {
        Ok(l) => {
            vensure!(k <= 63, "label-from_slice:accepted-long-label", "Label::from_slice accepted {k} octets");
            vensure!(l.as_slice() == &w[..k] && l.len() == k, "label-from_slice:octets-changed", "label");
            ctx.class("wire:label-from_slice:ok");
        }
        Err(_) => {
            vensure!(k > 63, "label-from_slice:rejected-valid-label", "Label::from_slice refused {k} octets");
            ctx.class("wire:label-from_slice:rejected");
        }
    }
    let mut cp = w[..k].to_vec();
    match Label::from_slice_mut(&mut cp) {
        Ok(_) => vensure!(k <= 63, "label-from_slice_mut:accepted-long-label", "Label::from_slice_mut accepted {k} octets"),
        Err(_) => vensure!(k > 63, "label-from_slice_mut:rejected-valid-label", "refused {k} octets"),
    }
    match Label::split_from(&w) {
        Ok((l, tail)) => {
            let n = w[0] as usize;
            vensure!(n <= 63 && l.len() == n && l.as_slice() == &w[1..1 + n] && tail == &w[1 + n..], "label-split_from:wrong-result", "split_from on {}", hexs_raw(&w));
        }
        Err(_) => {
            let ok = !w.is_empty() && (w[0] as usize) <= 63 && w.len() > w[0] as usize;
            vensure!(!ok, "label-split_from:rejected-valid-label", "split_from refused {}", hexs_raw(&w));
        }
    }
    Ok(())
}

/// Every name DERIVED from a ParsedName (split_first, parent, iter_suffixes)
/// is validated and compared with the expected suffix of the label list.
pub fn parsed_derivations(pn: &ParsedName<&[u8]>, expect: &[Vec<u8>]) -> CaseResult {
    let n = expect.len();
    // iter_suffixes: the k-th item is the name without its first k labels
    let mut k = 0usize;
    for sfx in pn.iter_suffixes() {
        vensure!(k <= n, "parsedname-iter_suffixes:unbounded", "more than {} suffixes", n + 1);
        let w = check_iter("parsedname-iter_suffixes", Kind::Abs, &sfx)?;
        let want = wire_abs(&expect[k..]);
        vensure!(w == want, "parsedname-iter_suffixes:wrong-labels", "suffix {k} of {} has labels {} want {}", hexs_raw(&wire_abs(expect)), hexs_raw(&w), hexs_raw(&want));
        let flat: Name<Vec<u8>> = sfx.to_name();
        check_value("parsedname-iter_suffixes-to_name", Kind::Abs, flat.as_slice())?;
        vensure!(flat.as_slice() == &want[..], "parsedname-iter_suffixes:to_name-differs", "suffix {k}: to_name {} want {}", hexs_raw(flat.as_slice()), hexs_raw(&want));
        vensure!(sfx.label_count() == n - k + 1 && sfx.is_root() == (k == n), "parsedname-iter_suffixes:label_count", "suffix {k}: label_count {} is_root {}", sfx.label_count(), sfx.is_root());
        k += 1;
    }
    vensure!(k == n + 1, "parsedname-iter_suffixes:count", "{k} suffixes for {n} labels");
    // split_first: label by label
    let mut cur = *pn;
    for k in 0..=n {
        let first = cur.split_first().map(|r| r.as_slice().to_vec());
        match first {
            Some(fw) => {
                vensure!(k < n, "parsedname-split_first:some-on-root", "split_first returned {} from the root name", hexs_raw(&fw));
                check_value("parsedname-split_first", Kind::Rel, &fw)?;
                let want = wire_rel(&expect[k..k + 1]);
                vensure!(fw == want, "parsedname-split_first:wrong-label", "split_first #{k} of {} gives {} want {}", hexs_raw(&wire_abs(expect)), hexs_raw(&fw), hexs_raw(&want));
                let w = check_iter("parsedname-split_first-rest", Kind::Abs, &cur)?;
                let want = wire_abs(&expect[k + 1..]);
                vensure!(w == want, "parsedname-split_first:wrong-rest", "after split_first #{k} the name has labels {} want {}", hexs_raw(&w), hexs_raw(&want));
                let flat: Name<Vec<u8>> = cur.to_name();
                check_value("parsedname-split_first-rest-to_name", Kind::Abs, flat.as_slice())?;
                vensure!(flat.as_slice() == &want[..], "parsedname-split_first:rest-to_name-differs", "to_name {} want {}", hexs_raw(flat.as_slice()), hexs_raw(&want));
                let mut buf = vec![];
                cur.compose(&mut buf).unwrap();
                vensure!(buf == want, "parsedname-split_first:rest-compose-differs", "compose {} want {}", hexs_raw(&buf), hexs_raw(&want));
            }
            None => {
                vensure!(k == n, "parsedname-split_first:none-on-non-root", "split_first #{k} returned None with {} labels left", n - k);
            }
        }
    }
    // parent: the same walk
    let mut cur = *pn;
    for k in 0..=n {
        let went = cur.parent();
        vensure!(went == (k < n), "parsedname-parent:wrong-return", "parent #{k} returned {went} with {} labels left", n - k);
        if went {
            let w = check_iter("parsedname-parent", Kind::Abs, &cur)?;
            let want = wire_abs(&expect[k + 1..]);
            vensure!(w == want, "parsedname-parent:wrong-labels", "after parent #{k} the name has labels {} want {}", hexs_raw(&w), hexs_raw(&want));
            let flat: Name<Vec<u8>> = cur.to_name();
            check_value("parsedname-parent-to_name", Kind::Abs, flat.as_slice())?;
            vensure!(flat.as_slice() == &want[..], "parsedname-parent:to_name-differs", "to_name {} want {}", hexs_raw(flat.as_slice()), hexs_raw(&want));
            vensure!(cur == flat, "parsedname-parent:not-equal-to-flat-copy", "parent #{k}");
        }
    }
    Ok(())
}

/// Compressed names: segments chained by backward pointers.
pub fn run_parsed(data: &[u8], ctx: &mut Ctx) -> CaseResult {
    let mut u = Unstructured::new(data);
    // segment 0: a complete name
    let total0 = match pick(&mut u, 6) { 0 => 255, 1 => 200 + pick(&mut u, 56), 2 => 1, _ => 2 + pick(&mut u, 40) };
    let w0 = { let mut w = rel_of_len(&mut u, if total0 == 2 { 2 } else { total0 - 1 }); w.push(0); w };
    // where it sits: pointer targets are spread over the whole 14-bit range
    // (a label start of segment 0 is put right at / next to a boundary)
    let st0 = label_starts(&w0);
    let anchor = st0[pick(&mut u, st0.len())];
    let (base, place): (usize, &'static str) = match pick(&mut u, 12) {
        0 | 1 | 2 => (pick(&mut u, 14), "small"),
        3 => ((0x3FF + pick(&mut u, 3)).saturating_sub(anchor), "target-1023..1025"),
        4 => ((0x0FF + pick(&mut u, 3)).saturating_sub(anchor), "target-255..257"),
        5 => ((0x1FFE + pick(&mut u, 4)).saturating_sub(anchor), "target-0x1ffe..0x2001"),
        6 | 7 => ((0x3FFF - pick(&mut u, 3)).saturating_sub(anchor), "target-0x3ffd..0x3fff"),
        8 => (0x4000 - w0.len().min(0x4000) + pick(&mut u, 3), "segment-ends-at-0x4000"),
        9 => ((0x7FF + pick(&mut u, 3)).saturating_sub(anchor), "target-2047..2049"),
        _ => (pick(&mut u, 0x3F00), "random"),
    };
    ctx.class(format!("parsed:placement:{place}"));
    // Filler is never read by a correct parser. It is made of one-octet
    // labels (or zeros) rather than pointer-like octets, so that a parser
    // that lands in it by mistake yields wrong labels or an error instead
    // of spinning on a pointer to itself (a hang would still be reported by
    // the engine's watchdog, but only after its time limits).
    let zero_fill = chance(&mut u, 40);
    let filler = move |n: usize, at: usize| -> Vec<u8> { (0..n).map(|i| if zero_fill { 0 } else if (at + i) % 2 == 0 { 1 } else { b'z' }).collect() };
    let mut msg: Vec<u8> = filler(base, 0);
    let mut seg_start = msg.len();
    let mut expect: Vec<Vec<u8>> = validate(Kind::Abs, &w0).unwrap();
    let mut starts: Vec<(usize, usize)> = label_starts(&w0).into_iter().enumerate().map(|(i, o)| (seg_start + o, i)).collect();
    // (offset in msg, number of labels of `expect` skipped when pointing there)
    msg.extend_from_slice(&w0);
    let nseg = pick(&mut u, 4);
    let mut ptrs = 0;
    let mut max_target = 0usize;
    for _ in 0..nseg {
        let gap = match pick(&mut u, 8) { 0 => 1000 + pick(&mut u, 60), 1 => pick(&mut u, 0x2000), _ => pick(&mut u, 6) };
        let fl = filler(gap, msg.len());
        msg.extend_from_slice(&fl);
        // only offsets that fit into the 14 pointer bits can be targets
        let cands: Vec<(usize, usize)> = starts.iter().copied().filter(|(o, _)| *o <= 0x3FFF).collect();
        if cands.is_empty() { break; }
        let (target, skip) = if chance(&mut u, 60) { *cands.last().unwrap() } else { cands[pick(&mut u, cands.len())] };
        max_target = max_target.max(target);
        let tail: Vec<Vec<u8>> = expect[skip.min(expect.len())..].to_vec();
        let tail_len = wire_abs(&tail).len();
        let room = 255usize.saturating_sub(tail_len);
        let n = match pick(&mut u, 6) { 0 => 0, 1 => room, 2 => room + 1, 3 => room.saturating_sub(1), 4 => room + 2, _ => 2 + pick(&mut u, 30) };
        let n = if n == 1 { 2 } else { n.min(300) };
        let pre = rel_of_len(&mut u, n);
        seg_start = msg.len();
        let mut labels = validate_unbounded(&pre);
        let mut new_starts: Vec<(usize, usize)> = label_starts(&pre).into_iter().enumerate().map(|(i, o)| (seg_start + o, i)).collect();
        msg.extend_from_slice(&pre);
        new_starts.push((msg.len(), labels.len()));
        msg.push(0xC0 | (target >> 8) as u8);
        msg.push(target as u8);
        labels.extend(tail);
        expect = labels;
        starts = new_starts;
        ptrs += 1;
    }
    let at = starts[0].0;
    msg.extend_from_slice(&[1, 2, 3]);
    let want = wire_abs(&expect);
    let valid = want.len() <= 255;
    if (253..=257).contains(&want.len()) { ctx.nontrivial(&msg); ctx.class(format!("parsed:len-{}", want.len())); }
    ctx.class(format!("parsed:pointers-{ptrs}"));
    if ptrs > 0 {
        ctx.class(match max_target { 0..=0xFF => "parsed:max-target<256", 0x100..=0x3FF => "parsed:max-target-256..1023", 0x400..=0x1FFF => "parsed:max-target-1024..0x1fff", 0x2000..=0x3FFC => "parsed:max-target-0x2000..0x3ffc", _ => "parsed:max-target-0x3ffd..0x3fff" });
        if max_target >= 0x400 { ctx.nontrivial(&(&msg[msg.len().saturating_sub(600)..], max_target)); }
    }
    ctx.sample(|| format!("{ptrs} pointers, name of {} octets at {at} in a {}-octet buffer", want.len(), msg.len()));
    let mut p = Parser::from_ref(&msg[..]);
    p.seek(at).unwrap();
    match ParsedName::parse(&mut p) {
        Ok(pn) => {
            if !valid {
                vfail!(if want.len() == 256 { "parsedname-parse:name-too-long-by-one" } else { "parsedname-parse:accepted-over-limit" }, "ParsedName::parse accepted a compressed name of {} octets", want.len());
            }
            let w = check_iter("parsedname", Kind::Abs, &pn)?;
            vensure!(w == want, "parsedname-parse:wrong-labels", "ParsedName gives {} want {}", hexs_raw(&w), hexs_raw(&want));
            let flat: Name<Vec<u8>> = pn.to_name();
            check_value("parsedname-to_name", Kind::Abs, flat.as_slice())?;
            vensure!(flat.as_slice() == &want[..], "parsedname-to_name:octets-differ", "to_name");
            let fb: Name<Bytes> = pn.flatten_into();
            vensure!(fb.as_slice() == &want[..], "parsedname-flatten_into:octets-differ", "flatten_into");
            // compose -> parse
            let mut buf = vec![];
            pn.compose(&mut buf).unwrap();
            vensure!(buf == want, "parsedname-compose:octets-differ", "compose");
            let mut p2 = Parser::from_ref(&buf[..]);
            let back = ParsedName::parse(&mut p2);
            vensure!(matches!(&back, Ok(b) if *b == pn), "parsedname:compose-parse-roundtrip", "re-parse of the composed name differs or fails");
            vensure!(Name::from_octets(buf.clone()).is_ok(), "name-from_octets:rejected-valid-name", "composed ParsedName refused");
            parsed_derivations(&pn, &expect)?;
            ctx.class("parsed:ok");
            if ptrs > 0 && max_target >= 0x400 { ctx.class("parsed:ok-with-target>=1024"); }
        }
        Err(_) => {
            ctx.class(if valid { "parsed:err-on-valid" } else { "parsed:rejected-long" });
        }
    }
    Ok(())
}

fn validate_unbounded(w: &[u8]) -> Vec<Vec<u8>> {
    let mut v = vec![];
    let mut i = 0;
    while i < w.len() {
        let n = w[i] as usize;
        v.push(w[i + 1..i + 1 + n].to_vec());
        i += 1 + n;
    }
    v
}

//------------ operations at label boundaries, chains --------------------------------------

pub fn run_ops(data: &[u8], ctx: &mut Ctx) -> CaseResult {
    let mut u = Unstructured::new(data);
    let plain = chance(&mut u, 128);
    let labels = gn::name(&mut u, plain);
    let abs = wire_abs(&labels);
    let rel = wire_rel(&labels);
    let starts = label_starts(&abs); // includes the root label's offset
    if abs.len() >= 253 { ctx.nontrivial(&abs); ctx.class(format!("ops:abs-len-{}", abs.len())); }
    ctx.sample(|| format!("name {} ({} octets)", gn::show(&labels), abs.len()));
    let name = Name::from_octets(abs.clone()).map_err(|e| Violation::new("name-from_octets:rejected-valid-name", e.to_string()))?;
    let nb = Name::from_octets(Bytes::from(abs.clone())).map_err(|e| Violation::new("name-from_octets:rejected-valid-name", e.to_string()))?;
    let rn = RelativeName::from_octets(rel.clone()).map_err(|e| Violation::new("relative-from_octets:rejected-valid-name", e.to_string()))?;

    // is_label_start is the documented precondition of everything below
    let mut ok_abs = vec![];
    for i in 0..=abs.len() + 1 {
        if name.is_label_start(i) {
            vensure!(starts.contains(&i), "is_label_start:true-inside-label", "Name::is_label_start({i}) on {}", hexs_raw(&abs));
            ok_abs.push(i);
        }
    }
    let rstarts: Vec<usize> = { let mut s = label_starts(&rel); s.push(rel.len()); s.dedup(); s };
    let mut ok_rel = vec![];
    for i in 0..=rel.len() + 1 {
        if rn.is_label_start(i) {
            vensure!(rstarts.contains(&i), "is_label_start:true-inside-label", "RelativeName::is_label_start({i}) on {}", hexs_raw(&rel));
            ok_rel.push(i);
        }
    }
    // absolute name: slices at label starts
    let a = ok_abs[pick(&mut u, ok_abs.len())];
    let b = ok_abs[pick(&mut u, ok_abs.len())];
    let (a, b) = (a.min(b), a.max(b));
    let s = name.slice(a..b);
    check_value("name-slice", Kind::Rel, s.as_slice())?;
    vensure!(s.as_slice() == &abs[a..b], "name-slice:wrong-octets", "slice({a}..{b})");
    let r = nb.range(a..b);
    check_value("name-range", Kind::Rel, r.as_slice())?;
    vensure!(r.as_slice() == &abs[a..b], "name-range:wrong-octets", "range({a}..{b})");
    let sf = name.slice_from(a);
    check_value("name-slice_from", Kind::Abs, sf.as_slice())?;
    vensure!(sf.as_slice() == &abs[a..], "name-slice_from:wrong-octets", "slice_from({a})");
    let rf = nb.range_from(b);
    check_value("name-range_from", Kind::Abs, rf.as_slice())?;
    vensure!(rf.as_slice() == &abs[b..], "name-range_from:wrong-octets", "range_from({b})");
    // every RangeBounds shape with an explicit end (the end is a label start
    // up to the root label's offset, so the result is a relative name)
    {
        macro_rules! bounded {
            ($r:expr, $lo:expr) => {{
                let s = name.slice($r);
                check_value("name-slice", Kind::Rel, s.as_slice())?;
                vensure!(s.as_slice() == &abs[$lo..b], "name-slice:wrong-octets", "slice({:?}) of {}", $r, hexs_raw(&abs));
                let r = nb.range($r);
                check_value("name-range", Kind::Rel, r.as_slice())?;
                vensure!(r.as_slice() == &abs[$lo..b], "name-range:wrong-octets", "range({:?}) of {}", $r, hexs_raw(&abs));
            }};
        }
        bounded!(..b, 0);
        if b >= 1 {
            bounded!(a..=b - 1, a);
            bounded!(..=b - 1, 0);
        }
        ctx.class("ops:name-range-shapes:bounded");
    }
    // Ranges that take in the root label (no upper bound, or an end equal to
    // the length of the name): the documentation promises a panic because
    // the result type is a relative name. The panic is not demanded here,
    // but a value that IS returned is a name value obtained through the safe
    // API and has to be a valid relative name.
    {
        let full = abs.len();
        macro_rules! open_end {
            ($entry:expr, $call:expr) => {{
                match guarded($entry, || $call.as_slice().to_vec()) {
                    Ok(w) => {
                        check_value($entry, Kind::Rel, &w)?;
                        ctx.class(format!("ops:{}:returned-valid-value", $entry));
                    }
                    Err(_) => ctx.class(format!("ops:{}:panics-as-documented", $entry)),
                }
            }};
        }
        open_end!("name-slice-to-end", name.slice(a..));
        open_end!("name-slice-to-end", name.slice(..));
        open_end!("name-slice-to-end", name.slice(a..full));
        open_end!("name-slice-to-end", name.slice(..=full - 1));
        open_end!("name-range-to-end", nb.range(a..));
        open_end!("name-range-to-end", nb.range(..));
        open_end!("name-range-to-end", nb.range(b..full));
        open_end!("name-range-to-end", nb.range(b..=full - 1));
        open_end!("name-range-to-end", name.range(b..));
        open_end!("name-truncate-to-end", nb.clone().truncate(full));
        open_end!("name-split-at-end", nb.split(full).0);
    }
    let (l, rr) = nb.split(a);
    check_value("name-split-left", Kind::Rel, l.as_slice())?;
    check_value("name-split-right", Kind::Abs, rr.as_slice())?;
    vensure!([l.as_slice(), rr.as_slice()].concat() == abs, "name-split:parts-do-not-concatenate", "split({a})");
    let tr = name.clone().truncate(b);
    check_value("name-truncate", Kind::Rel, tr.as_slice())?;
    vensure!(tr.as_slice() == &abs[..b], "name-truncate:wrong-octets", "truncate({b})");
    let trb = nb.clone().truncate(a);
    check_value("name-truncate", Kind::Rel, trb.as_slice())?;
    vensure!(trb.as_slice() == &abs[..a], "name-truncate:wrong-octets", "truncate({a}) on Bytes");
    match nb.split_first() {
        Some((lab, rest)) => {
            vensure!(!labels.is_empty() && lab.as_slice() == &labels[0][..], "name-split_first:wrong-label", "split_first");
            check_value("name-split_first", Kind::Abs, rest.as_slice())?;
            vensure!(rest.as_slice() == &abs[1 + labels[0].len()..], "name-split_first:wrong-octets", "split_first rest");
        }
        None => vensure!(labels.is_empty(), "name-split_first:none-on-non-root", "split_first gives None"),
    }
    if let Some(p) = nb.parent() {
        check_value("name-parent", Kind::Abs, p.as_slice())?;
    }
    let mut cnt = 0;
    for sfx in nb.iter_suffixes() {
        cnt += 1;
        vensure!(cnt <= 130, "name-iter_suffixes:unbounded", "more than 130 suffixes");
        check_value("name-iter_suffixes", Kind::Abs, sfx.as_slice())?;
    }
    vensure!(cnt == labels.len() + 1, "name-iter_suffixes:count", "{cnt} suffixes for {} labels", labels.len());
    // strip_suffix with a real suffix
    let base = Name::from_octets(abs[b..].to_vec()).map_err(|e| Violation::new("name-from_octets:rejected-valid-name", e.to_string()))?;
    match name.clone().strip_suffix(&base) {
        Ok(st) => {
            check_value("name-strip_suffix", Kind::Rel, st.as_slice())?;
            vensure!(st.as_slice() == &abs[..b], "name-strip_suffix:wrong-octets", "strip_suffix");
        }
        Err(_) => vfail!("name-strip_suffix:rejected-real-suffix", "strip_suffix refused its own suffix at {b}"),
    }
    let ir = name.clone().into_relative();
    check_value("name-into_relative", Kind::Rel, ir.as_slice())?;
    vensure!(ir.as_slice() == &rel[..], "name-into_relative:wrong-octets", "into_relative");
    match ir.into_absolute() {
        Ok(n) => { check_value("relative-into_absolute", Kind::Abs, n.as_slice())?; vensure!(n.as_slice() == &abs[..], "relative-into_absolute:wrong-octets", "into_absolute"); }
        Err(e) => vfail!("relative-into_absolute:rejected-valid-name", "into_absolute failed on {} octets: {e:?}", rel.len()),
    }
    match UncertainName::from(rn.clone()).into_absolute() {
        Ok(n) => check_value("uncertain-into_absolute", Kind::Abs, n.as_slice())?,
        Err(e) => vfail!("uncertain-into_absolute:rejected-valid-name", "{e:?}"),
    }
    // relative name: the same at its label starts
    let a = ok_rel[pick(&mut u, ok_rel.len())];
    let b = ok_rel[pick(&mut u, ok_rel.len())];
    let (a, b) = (a.min(b), a.max(b));
    let s = rn.slice(a..b);
    check_value("relative-slice", Kind::Rel, s.as_slice())?;
    vensure!(s.as_slice() == &rel[a..b], "relative-slice:wrong-octets", "slice({a}..{b})");
    let s = rn.slice(a..);
    check_value("relative-slice", Kind::Rel, s.as_slice())?;
    let rb = RelativeName::from_octets(Bytes::from(rel.clone())).map_err(|e| Violation::new("relative-from_octets:rejected-valid-name", e.to_string()))?;
    let r = rb.range(a..b);
    check_value("relative-range", Kind::Rel, r.as_slice())?;
    vensure!(r.as_slice() == &rel[a..b], "relative-range:wrong-octets", "range({a}..{b})");
    // every RangeBounds shape; for a relative name an open end is fine
    {
        macro_rules! shape {
            ($r:expr, $lo:expr, $hi:expr) => {{
                let s = rn.slice($r);
                check_value("relative-slice", Kind::Rel, s.as_slice())?;
                vensure!(s.as_slice() == &rel[$lo..$hi], "relative-slice:wrong-octets", "slice({:?}) of {}", $r, hexs_raw(&rel));
                let r = rb.range($r);
                check_value("relative-range", Kind::Rel, r.as_slice())?;
                vensure!(r.as_slice() == &rel[$lo..$hi], "relative-range:wrong-octets", "range({:?}) of {}", $r, hexs_raw(&rel));
            }};
        }
        shape!(a.., a, rel.len());
        shape!(.., 0, rel.len());
        shape!(..b, 0, b);
        if b >= 1 {
            shape!(a..=b - 1, a, b);
            shape!(..=b - 1, 0, b);
        }
        ctx.class("ops:relative-range-shapes");
    }
    let (l, rr) = rb.split(a);
    check_value("relative-split-left", Kind::Rel, l.as_slice())?;
    check_value("relative-split-right", Kind::Rel, rr.as_slice())?;
    vensure!([l.as_slice(), rr.as_slice()].concat() == rel, "relative-split:parts-do-not-concatenate", "split({a})");
    let mut t = rn.clone();
    t.truncate(b);
    check_value("relative-truncate", Kind::Rel, t.as_slice())?;
    vensure!(t.as_slice() == &rel[..b], "relative-truncate:wrong-octets", "truncate({b})");
    if let Some((lab, rest)) = rb.split_first() {
        vensure!(lab.as_slice() == &labels[0][..], "relative-split_first:wrong-label", "split_first");
        check_value("relative-split_first", Kind::Rel, rest.as_slice())?;
    }
    if let Some(p) = rb.parent() { check_value("relative-parent", Kind::Rel, p.as_slice())?; }
    let mut t = rn.clone();
    let base = RelativeName::from_octets(rel[b..].to_vec()).map_err(|e| Violation::new("relative-from_octets:rejected-valid-name", e.to_string()))?;
    match t.strip_suffix(&base) {
        Ok(()) => { check_value("relative-strip_suffix", Kind::Rel, t.as_slice())?; vensure!(t.as_slice() == &rel[..b], "relative-strip_suffix:wrong-octets", "strip_suffix"); }
        Err(_) => vfail!("relative-strip_suffix:rejected-real-suffix", "strip_suffix refused its own suffix at {b}"),
    }
    // into_builder and back
    let bld = rn.clone().into_builder();
    let back = bld.finish();
    vensure!(back.as_slice() == &rel[..], "relative-into_builder:octets-differ", "into_builder+finish");

    // chains: prefix (relative) + suffix sized against the limit
    let plen = rel.len();
    let room_abs = 255usize.saturating_sub(plen);
    let n = match pick(&mut u, 8) { 0 => 1, 1 | 2 => room_abs, 3 => room_abs + 1, 4 => room_abs.saturating_sub(1), 5 => room_abs + 2, _ => 3 + pick(&mut u, 30) };
    let n = n.clamp(1, 255);
    let n = if n == 2 { 3 } else { n };
    let sw = { let mut w = rel_of_len(&mut u, n - 1); w.push(0); w };
    let suffix = Name::from_octets(sw.clone()).map_err(|e| Violation::new("name-from_octets:rejected-valid-name", e.to_string()))?;
    let total = plen + n;
    if (253..=257).contains(&total) { ctx.nontrivial(&(&abs, n)); ctx.class(format!("ops:chain-abs-total-{total}")); }
    match rn.clone().chain(suffix.clone()) {
        Ok(ch) => {
            if total > 255 {
                vfail!(if total == 256 { "chain:absolute-too-long-by-one" } else { "chain:accepted-over-limit" }, "chain of {plen} + {n} octets accepted");
            }
            let w = check_iter("chain", Kind::Abs, &ch)?;
            vensure!(w == [&rel[..], &sw[..]].concat(), "chain:wrong-labels", "chain labels");
            let flat: Name<Vec<u8>> = ch.to_name();
            check_value("chain-to_name", Kind::Abs, flat.as_slice())?;
            vensure!(flat.as_slice() == &w[..], "chain-to_name:octets-differ", "to_name");
            let mut buf = vec![];
            ToName::compose(&ch, &mut buf).unwrap();
            vensure!(buf == w, "chain-compose:octets-differ", "compose");
            let txt = ch.to_string();
            let dotted = ch.fmt_with_dot().to_string();
            for t in [&txt, &dotted] {
                match Name::<Vec<u8>>::from_str(t) {
                    Ok(n2) => vensure!(n2.as_slice() == &w[..], "chain-display:text-roundtrip-differs", "{} -> {t:?} -> {}", hexs_raw(&w), hexs_raw(n2.as_slice())),
                    Err(e) => vfail!("chain-display:text-roundtrip-rejected", "{} -> {t:?} -> {e}", hexs_raw(&w)),
                }
            }
            let fl: Name<Vec<u8>> = ch.flatten_into();
            vensure!(fl.as_slice() == &w[..], "chain-flatten_into:octets-differ", "flatten_into");
            ctx.class("ops:chain-abs:ok");
        }
        Err(_) => {
            ctx.class(if total <= 255 { "ops:chain-abs:overstrict" } else { "ops:chain-abs:rejected" });
            vensure!(total > 255, "chain:rejected-valid-name", "chain of {plen} + {n} = {total} octets refused");
        }
    }
    // uncertain chain
    match UncertainName::from(rn.clone()).chain(suffix.clone()) {
        Ok(ch) => {
            vensure!(total <= 255, if total == 256 { "uncertain-chain:absolute-too-long-by-one" } else { "uncertain-chain:accepted-over-limit" }, "uncertain chain of {plen} + {n} accepted");
            check_iter("uncertain-chain", Kind::Abs, &ch)?;
            let flat: Name<Vec<u8>> = ch.to_name();
            check_value("uncertain-chain-to_name", Kind::Abs, flat.as_slice())?;
        }
        Err(_) => vensure!(total > 255, "uncertain-chain:rejected-valid-name", "uncertain chain of {total} refused"),
    }
    match UncertainName::from(name.clone()).chain(suffix.clone()) {
        Ok(ch) => { let w = check_iter("uncertain-chain", Kind::Abs, &ch)?; vensure!(w == abs, "uncertain-chain:absolute-left-changed", "absolute left + suffix"); }
        Err(_) => vfail!("uncertain-chain:rejected-absolute-left", "an absolute left side needs no suffix"),
    }
    let cr = rn.clone().chain_root();
    let w = check_iter("chain_root", Kind::Abs, &cr)?;
    vensure!(w == abs, "chain_root:wrong-labels", "chain_root");
    // relative + relative
    let room_rel = 254usize.saturating_sub(plen);
    let n = match pick(&mut u, 8) { 0 => 0, 1 | 2 => room_rel, 3 => room_rel + 1, 4 => room_rel.saturating_sub(1), 5 => room_rel + 2, _ => 2 + pick(&mut u, 30) };
    let n = if n == 1 { 2 } else { n.min(254) };
    let rw = rel_of_len(&mut u, n);
    let right = RelativeName::from_octets(rw.clone()).map_err(|e| Violation::new("relative-from_octets:rejected-valid-name", e.to_string()))?;
    let total = plen + n;
    if (252..=257).contains(&total) { ctx.nontrivial(&(&rel, n, 1u8)); ctx.class(format!("ops:chain-rel-total-{total}")); }
    match rn.clone().chain(right) {
        Ok(ch) => {
            if total > 254 {
                // known shape: Chain::new allows 255 for every chain, also a
                // relative one (pinned test chain::test::name_limit asserts it)
                let sig = if total == 255 { "chain:relative-too-long-by-one" } else { "chain:accepted-over-limit" };
                ctx.report(Violation::new(sig, format!("relative chain of {plen} + {n} = {total} octets accepted (a relative name holds at most 254)")))?;
                ctx.class("ops:chain-rel:known-shape-tolerated");
                return Ok(());
            }
            let w = check_iter("chain-relative", Kind::Rel, &ch)?;
            vensure!(w == [&rel[..], &rw[..]].concat(), "chain:wrong-labels", "relative chain labels");
            let flat: RelativeName<Vec<u8>> = ch.to_relative_name();
            check_value("chain-to_relative_name", Kind::Rel, flat.as_slice())?;
            vensure!(flat.as_slice() == &w[..], "chain-to_relative_name:octets-differ", "to_relative_name");
            // and make it absolute
            let total_abs = w.len() + sw.len();
            match ch.chain(suffix) {
                Ok(c2) => {
                    vensure!(total_abs <= 255, "chain:accepted-over-limit", "nested chain of {total_abs} accepted");
                    check_iter("chain-nested", Kind::Abs, &c2)?;
                    let f: Name<Vec<u8>> = c2.to_name();
                    check_value("chain-nested-to_name", Kind::Abs, f.as_slice())?;
                }
                Err(_) => vensure!(total_abs > 255, "chain:rejected-valid-name", "nested chain of {total_abs} refused"),
            }
            ctx.class("ops:chain-rel:ok");
        }
        Err(_) => {
            vensure!(total > 254, "chain:rejected-valid-name", "relative chain of {total} refused");
            ctx.class("ops:chain-rel:rejected");
        }
    }
    // reverse names
    let addr: std::net::IpAddr = if flag(&mut u) {
        std::net::Ipv4Addr::from(u32_(&mut u)).into()
    } else {
        std::net::Ipv6Addr::from(((u64_(&mut u) as u128) << 64) | u64_(&mut u) as u128).into()
    };
    match Name::<Vec<u8>>::reverse_from_addr(addr) {
        Ok(n) => check_value("reverse_from_addr", Kind::Abs, n.as_slice())?,
        Err(e) => vfail!("reverse_from_addr:failed", "{addr}: {e:?}"),
    }
    // The chain again with the right-hand side in another REPRESENTATION
    // (flat, behind `&N`, itself a chain, a compressed ParsedName); the
    // choices are drawn last so that earlier decisions keep their bytes.
    let rep = pick(&mut u, reps::ABS_REPS.len());
    let (s1, s2) = reps::splits(&sw, true, pick(&mut u, 8), pick(&mut u, 8));
    let total = plen + sw.len();
    let repn = reps::ABS_REPS[rep];
    match reps::with_abs(&sw, rep, s1, s2, ChainRight(&rn))? {
        Ok((lw, flat, clen)) => {
            if total > 255 {
                vfail!(if total == 256 { "chain:absolute-too-long-by-one" } else { "chain:accepted-over-limit" }, "chain of {plen} + {} octets ({repn}) accepted", sw.len());
            }
            check_value("chain", Kind::Abs, &lw)?;
            vensure!(lw == [&rel[..], &sw[..]].concat(), "chain:wrong-labels", "chain labels with a {repn} right-hand side: {}", hexs_raw(&lw));
            check_value("chain-to_name", Kind::Abs, &flat)?;
            vensure!(flat == lw, "chain-to_name:octets-differ", "to_name with a {repn} right-hand side");
            vensure!(clen == lw.len(), "chain:compose_len-differs", "compose_len {clen} but labels make {}", lw.len());
            ctx.class(format!("ops:chain-abs:{}:ok", if reps::abs_rep_is_flat(rep) { "flat" } else { "nonflat" }));
        }
        Err(()) => {
            vensure!(total > 255, "chain:rejected-valid-name", "chain of {plen} + {} = {total} octets ({repn}) refused", sw.len());
            ctx.class(format!("ops:chain-abs:{}:rejected", if reps::abs_rep_is_flat(rep) { "flat" } else { "nonflat" }));
        }
    }
    Ok(())
}

/// `RelativeName::chain` with whatever representation of the right-hand
/// side; gives (wire form of the chain's labels, octets of `to_name()`,
/// `compose_len()`).
struct ChainRight<'a>(&'a RelativeName<Vec<u8>>);
impl WithName for ChainRight<'_> {
    type Out = Result<(Vec<u8>, Vec<u8>, usize), ()>;
    fn call<N: ToName>(self, n: &N) -> Self::Out {
        let ch = self.0.clone().chain(n).map_err(|_| ())?;
        let mut lw = vec![];
        for (i, l) in ch.iter_labels().enumerate() {
            if i > 300 {
                break;
            }
            lw.push(l.len() as u8);
            lw.extend_from_slice(l.as_slice());
        }
        let flat: Name<Vec<u8>> = ch.to_name();
        Ok((lw, flat.as_slice().to_vec(), usize::from(ch.compose_len())))
    }
}

#[allow(dead_code)]
fn _assert_types(_: Chain<RelativeName<Vec<u8>>, Name<Vec<u8>>>) {}

//------------ suffix / prefix tests with label-boundary look-alikes -------------------

/// Label-wise, ASCII-case-insensitive suffix test on label vectors.
fn model_ends_with(labels: &[Vec<u8>], sfx: &[Vec<u8>]) -> bool {
    labels.len() >= sfx.len() && labels[labels.len() - sfx.len()..].iter().zip(sfx).all(|(a, b)| a.eq_ignore_ascii_case(b))
}
fn model_starts_with(labels: &[Vec<u8>], pfx: &[Vec<u8>]) -> bool {
    labels.len() >= pfx.len() && labels[..pfx.len()].iter().zip(pfx).all(|(a, b)| a.eq_ignore_ascii_case(b))
}

/// `strip_suffix`, `ends_with`, `starts_with` on names whose label CONTENT
/// embeds the wire form of the suffix (`<len><label>...`), so that an octet
/// comparison and a label-wise comparison disagree. The suffix is passed as an
/// owned name type, as a `&Name<[u8]>`-style reference and as a Chain.
pub fn run_suffix(data: &[u8], ctx: &mut Ctx) -> CaseResult {
    let mut u = Unstructured::new(data);
    // the suffix: 1..=3 short labels
    let ns = 1 + pick(&mut u, 3);
    let sfx: Vec<Vec<u8>> = (0..ns).map(|_| { let n = 1 + pick(&mut u, 7); (0..n).map(|_| gn::label_byte(&mut u, true)).collect() }).collect();
    let sw = wire_rel(&sfx);
    // the front part
    let np = pick(&mut u, 4);
    let mut labels: Vec<Vec<u8>> = (0..np).map(|_| { let n = 1 + pick(&mut u, 6); fill(&mut u, n) }).collect();
    let mode = pick(&mut u, 8);
    let swap = |u: &mut Unstructured, l: &Vec<u8>| -> Vec<u8> { l.iter().map(|&b| if b.is_ascii_alphabetic() && flag(u) { b ^ 0x20 } else { b }).collect() };
    let what = match mode {
        0 | 1 => {
            // a real suffix, possibly in another case
            for l in &sfx { let x = swap(&mut u, l); labels.push(x); }
            "real-suffix"
        }
        2..=5 => {
            // look-alike: the first j suffix labels sit, in wire form, at the end
            // of the CONTENT of one label; the remaining suffix labels follow
            let j = 1 + pick(&mut u, ns);
            let junk_n = pick(&mut u, 4);
            let mut content = fill(&mut u, junk_n);
            let emb = wire_rel(&sfx[..j]);
            let emb = if flag(&mut u) { emb } else { swap(&mut u, &emb) };
            content.extend_from_slice(&emb);
            if content.len() > 63 { content.truncate(63); }
            labels.push(content);
            for l in &sfx[j..] { let x = swap(&mut u, l); labels.push(x); }
            "look-alike"
        }
        6 => {
            // a name that is shorter than / equal to the suffix
            labels = sfx[pick(&mut u, ns)..].to_vec();
            "tail-of-suffix"
        }
        _ => {
            let n = 1 + pick(&mut u, 5);
            labels.push(fill(&mut u, n));
            "unrelated"
        }
    };
    let rel = wire_rel(&labels);
    let abs = wire_abs(&labels);
    let want = model_ends_with(&labels, &sfx);
    let octet_match = rel.len() >= sw.len() && rel[rel.len() - sw.len()..].eq_ignore_ascii_case(&sw);
    ctx.class(format!("suffix:{what}:{}", if want { "is-suffix" } else { "not-suffix" }));
    if octet_match && !want {
        ctx.class("suffix:octets-match-but-labels-do-not");
        ctx.nontrivial(&(&rel, &sw));
    } else if want && labels.len() > sfx.len() {
        ctx.nontrivial(&(&rel, &sw, 1u8));
    }
    ctx.sample(|| format!("{what}: name {} suffix {} label-wise suffix={want} octet-wise={octet_match}", gn::show(&labels), gn::show(&sfx)));
    let cut = if want { wire_rel(&labels[..labels.len() - sfx.len()]) } else { rel.clone() };

    let mk_rel = |w: &[u8]| RelativeName::from_octets(w.to_vec()).map_err(|e| Violation::new("relative-from_octets:rejected-valid-name", e.to_string()));
    let mk_abs = |w: &[u8]| Name::from_octets(w.to_vec()).map_err(|e| Violation::new("name-from_octets:rejected-valid-name", e.to_string()));
    let name_rel = mk_rel(&rel)?;
    let name_abs = mk_abs(&abs)?;
    let sfx_rel: RelativeName<Vec<u8>> = mk_rel(&sw)?;
    let sfx_abs: Name<Vec<u8>> = mk_abs(&wire_abs(&sfx))?;
    let sfx_rel_bytes = RelativeName::from_octets(Bytes::from(sw.clone())).unwrap();
    let sfx_rel_slice: &RelativeName<[u8]> = RelativeName::from_slice(&sw).unwrap();
    let sfx_abs_slice: &Name<[u8]> = Name::from_slice(sfx_abs.as_slice()).unwrap();

    macro_rules! judge_rel {
        ($entry:expr, $t:expr, $r:expr) => {{
            let t = $t;
            check_value($entry, Kind::Rel, t.as_slice())?;
            match $r {
                Ok(()) => {
                    vensure!(want, format!("{}:stripped-a-non-suffix", $entry), "{} cut {} by suffix {} although it is no label-wise suffix; left {}", $entry, hexs_raw(&rel), hexs_raw(&sw), hexs_raw(t.as_slice()));
                    vensure!(t.as_slice() == &cut[..], format!("{}:wrong-octets", $entry), "{} left {} want {}", $entry, hexs_raw(t.as_slice()), hexs_raw(&cut));
                }
                Err(_) => {
                    vensure!(!want, format!("{}:rejected-real-suffix", $entry), "{} refused suffix {} of {}", $entry, hexs_raw(&sw), hexs_raw(&rel));
                    vensure!(t.as_slice() == &rel[..], format!("{}:failed-call-changed-name", $entry), "{} failed but changed the name to {}", $entry, hexs_raw(t.as_slice()));
                }
            }
        }};
    }
    // RelativeName::strip_suffix(&mut self, &N): N owned Vec / owned Bytes / reference type / chain
    let mut t = name_rel.clone();
    let r = t.strip_suffix(&sfx_rel).map_err(|_| ());
    judge_rel!("relative-strip_suffix", &t, r);
    let mut t = RelativeName::from_octets(Bytes::from(rel.clone())).unwrap();
    let r = t.strip_suffix(&sfx_rel_bytes).map_err(|_| ());
    judge_rel!("relative-strip_suffix", &t, r);
    let mut t = name_rel.clone();
    let r = t.strip_suffix(&sfx_rel_slice).map_err(|_| ());
    judge_rel!("relative-strip_suffix", &t, r);
    if ns >= 2 {
        let ch = mk_rel(&wire_rel(&sfx[..1]))?.chain(mk_rel(&wire_rel(&sfx[1..]))?).map_err(|_| Violation::new("chain:rejected-valid-name", "short chain refused"))?;
        let mut t = name_rel.clone();
        let r = t.strip_suffix(&ch).map_err(|_| ());
        judge_rel!("relative-strip_suffix", &t, r);
    }
    // Name::strip_suffix(self, &N) -> Result<RelativeName, Self>
    for k in 0..2 {
        let res = if k == 0 { name_abs.clone().strip_suffix(&sfx_abs) } else { name_abs.clone().strip_suffix(&sfx_abs_slice) };
        match res {
            Ok(t) => {
                check_value("name-strip_suffix", Kind::Rel, t.as_slice())?;
                vensure!(want, "name-strip_suffix:stripped-a-non-suffix", "cut {} by suffix {} although it is no label-wise suffix; left {}", hexs_raw(&abs), hexs_raw(sfx_abs.as_slice()), hexs_raw(t.as_slice()));
                vensure!(t.as_slice() == &cut[..], "name-strip_suffix:wrong-octets", "left {} want {}", hexs_raw(t.as_slice()), hexs_raw(&cut));
            }
            Err(n) => {
                vensure!(!want, "name-strip_suffix:rejected-real-suffix", "refused suffix {} of {}", hexs_raw(sfx_abs.as_slice()), hexs_raw(&abs));
                vensure!(n.as_slice() == &abs[..], "name-strip_suffix:failed-call-changed-name", "failed but returned {}", hexs_raw(n.as_slice()));
            }
        }
    }
    // ends_with / starts_with agree with the label-wise model
    vensure!(name_rel.ends_with(&sfx_rel) == want, "relative-ends_with:differs-from-label-wise-test", "{} ends_with {} = {}", hexs_raw(&rel), hexs_raw(&sw), !want);
    vensure!(name_rel.ends_with(&sfx_rel_slice) == want, "relative-ends_with:differs-from-label-wise-test", "{} ends_with(&slice) {} = {}", hexs_raw(&rel), hexs_raw(&sw), !want);
    vensure!(name_abs.ends_with(&sfx_abs) == want, "name-ends_with:differs-from-label-wise-test", "{} ends_with {} = {}", hexs_raw(&abs), hexs_raw(sfx_abs.as_slice()), !want);
    vensure!(name_abs.ends_with(&sfx_abs_slice) == want, "name-ends_with:differs-from-label-wise-test", "{} ends_with(&slice) {}", hexs_raw(&abs), hexs_raw(sfx_abs.as_slice()));
    // prefix side: the first suffix label(s) as a prefix candidate of the name
    let pfx: Vec<Vec<u8>> = if labels.is_empty() || flag(&mut u) { sfx[..1].to_vec() } else {
        // a look-alike prefix: the first label cut short, or its content
        // followed by the wire form of the second label
        let mut p = labels[0].clone();
        match pick(&mut u, 3) { 0 => { p.pop(); } 1 => {} _ => { if labels.len() > 1 { p.push(labels[1].len() as u8); p.extend_from_slice(&labels[1]); p.truncate(63); } } }
        if p.is_empty() { p.push(b'a'); }
        vec![swap(&mut u, &p)]
    };
    let pw = mk_rel(&wire_rel(&pfx))?;
    let wantp = model_starts_with(&labels, &pfx);
    vensure!(name_rel.starts_with(&pw) == wantp, "relative-starts_with:differs-from-label-wise-test", "{} starts_with {} = {}", hexs_raw(&rel), hexs_raw(pw.as_slice()), !wantp);
    vensure!(name_abs.starts_with(&pw) == wantp, "name-starts_with:differs-from-label-wise-test", "{} starts_with {} = {}", hexs_raw(&abs), hexs_raw(pw.as_slice()), !wantp);
    Ok(())
}
