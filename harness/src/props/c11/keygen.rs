//! Sub-check `keygen`: keys made by the second constructor, `Key::generate`.
//!
//! The property quantifies over "all keys (algorithm, secret, name,
//! min_mac_len, signing_len)"; a key is the same key whichever constructor
//! made it. `Key::generate` hands out the secret it drew, so the independent
//! reference can be keyed with it: everything the generated key signs must
//! carry the RFC 8945 MAC of *that* secret, cut to the *requested*
//! `signing_len`, and everything it verifies must be judged by the
//! *requested* `min_mac_len` — exactly as for a `Key::new` key with the same
//! five parameters (differential: generated key ⇄ reference, generated key ⇄
//! `Key::new` twin).
//!
//! The secret comes from `ring::rand::SystemRandom` (the `SecureRandom` trait
//! is sealed, no deterministic implementation can be supplied). No verdict
//! depends on its value: every expectation is computed from the exported
//! octets. Everything else of the case is decoded from `data`.
use super::common::*;
use super::honest::{check_unsigned_error, srv_txn, Ans};
use super::refsig::{self as rs, Alg, Prior, RefKey, SignParams};
use crate::engine::*;
use crate::gen::*;
use crate::{vensure, vfail};
use arbitrary::Unstructured;
use domain::base::name::ToName;
use domain::base::Message;
use domain::tsig::{ClientSequence, ClientTransaction, GenerateKeyError, Key};

/// A requested length: mostly inside the bounds, sometimes outside.
fn gen_len(u: &mut Unstructured, alg: Alg) -> Option<usize> {
    if chance(u, 24) {
        let cand = [0usize, 1, 9, alg.rfc_min_len() - 1, alg.out_len() + 1, 65, 1000, usize::MAX];
        Some(cand[pick(u, cand.len())])
    } else {
        len_in_bounds(u, alg)
    }
}

pub fn run_keygen(data: &[u8], ctx: &mut Ctx) -> CaseResult {
    let mut u = Unstructured::new(data);
    let u = &mut u;
    let alg = Alg::ALL[pick(u, 4)];
    let min = gen_len(u, alg);
    let sign = gen_len(u, alg);
    let mode = pick(u, 3);
    let l_sel = pick(u, 7);
    let l_rand = range(u, alg.rfc_min_len(), alg.out_len());
    let fudge = gen_fudge(u);
    let t = gen_time(u);
    let name = gen_key_name(u);
    let req = gen_message(u, 3);
    let resp = gen_message(u, 3);

    let in_bounds = |x: Option<usize>| x.map(|x| x >= alg.rfc_min_len() && x <= alg.out_len()).unwrap_or(true);
    let rng = ring::rand::SystemRandom::new();
    let r = Key::generate(lib_alg(alg), &rng, key_name(&name), min, sign);
    ctx.sample(|| format!("keygen {} name {} min {:?} sign {:?} mode {mode} t {t} fudge {fudge}", alg.text(), crate::gen::name::show(&name), min, sign));
    let (key, secret) = match (r, in_bounds(min), in_bounds(sign)) {
        (Ok(ks), true, true) => ks,
        // the error names the parameter that is out of bounds (when both
        // are, either name is true)
        (Err(GenerateKeyError::BadMinMacLen), false, _) | (Err(GenerateKeyError::BadSigningLen), _, false) => {
            ctx.class("keygen/out-of-bounds-rejected");
            return Ok(());
        }
        (Err(GenerateKeyError::GenerationFailed), true, true) => {
            // the system RNG refused: nothing to judge
            ctx.class("keygen/rng-failed");
            return Ok(());
        }
        (r, a, b) => vfail!("key-generate:length-bounds", "{} min {:?} (in bounds: {a}) sign {:?} (in bounds: {b}): {:?}", alg.text(), min, sign, r.as_ref().map(|_| ()).map_err(|e| *e)),
    };
    // the key as specified by the caller, with the secret the library exported
    let ks = KeySpec { rk: RefKey { alg, secret: secret.to_vec(), name: name.clone() }, min_mac: min, sign_len: sign };
    ctx.class(format!("alg-{}", alg.text()));
    if ks.truncating() {
        ctx.class("truncation");
        ctx.nontrivial(&(alg, min, sign, mode, l_sel, l_rand, t, fudge, &name, &req, &resp));
    }
    if ks.eff_min() != ks.eff_sign() {
        ctx.class("keygen/min-and-signing-length-differ");
    }
    let show = || format!("{} (secret {})", ks.show(), hex(&secret));

    // a key loaded from the exported secret with the same parameters
    let twin = ks.lib();

    let p = |mac_len: usize| SignParams { time: t, fudge, error: 0, other: vec![], mac_len };
    // behaviour first (the more telling report), then what the key says about itself
    let behave = |ctx: &mut Ctx| -> CaseResult {
    match mode {
        0 => {
            //--- the generated key signs a request (client); twin serves it; generated key verifies the answer
            let mut b = builder_from(&req, usize::MAX);
            let client = ClientTransaction::request_with_fudge(&key, &mut b, t48(t), fudge).map_err(|_| Violation::new("request:push-failed-with-room", ""))?;
            let signed_req = b.as_slice().to_vec();
            let req_mac = conform(&req, &signed_req, &Want { what: "generated-key-request", signer: &ks, prior: Prior::None, between: &[], timers_only: false, time: t, fudge, error: 0, other: &[] })?;
            ctx.class("keygen/request-of-generated-key-conforms");
            let ans = Ans { pre: &resp, t, fudge: Some(fudge), cap: usize::MAX };
            let sr = srv_txn(&twin, &signed_req, t, Some(&ans))?;
            let want = if ks.eff_sign() < ks.eff_min() { O::BadTrunc } else { O::Accept };
            vensure!(sr.out == want, format!("server-request:request-of-generated-key-{:?}-expected-{:?}", sr.out, want), "key {}\nrequest {}", show(), hex(&signed_req));
            if want != O::Accept {
                check_unsigned_error("server-request", &sr, &signed_req, rs::BADTRUNC)?;
                ctx.class("policy-badtrunc");
                return Ok(());
            }
            check_restored("server-request", &sr.after, &req)?;
            let signed_resp = match sr.answer {
                Some(Ok(m)) => m,
                _ => vfail!("answer:push-failed-with-room", ""),
            };
            conform(&resp, &signed_resp, &Want { what: "answer", signer: &ks, prior: Prior::Mac(&req_mac), between: &[], timers_only: false, time: t, fudge, error: 0, other: &[] })?;
            let mut m = Message::from_octets(signed_resp.clone()).unwrap();
            let got = o_client(&client.answer(&mut m, t48(t)));
            vensure!(got == O::Accept, format!("client-answer:generated-key-honest-answer-{:?}-expected-Accept", got), "key {}\nanswer {}", show(), hex(&signed_resp));
            check_restored("client-answer", m.as_slice(), &resp)?;
            ctx.class("keygen/exchange-with-twin-verified");
        }
        _ => {
            //--- the generated key receives reference-signed messages whose MAC has a chosen, RFC-permitted length
            let cand = [alg.rfc_min_len(), ks.eff_min().saturating_sub(1).max(alg.rfc_min_len()), ks.eff_min(), ks.eff_sign(), alg.out_len(), l_rand, l_rand];
            let l = cand[l_sel];
            let want = if l < ks.eff_min() { O::BadTrunc } else { O::Accept };
            if mode == 1 {
                // as a server
                let (signed_req, req_mac) = rs::sign(&ks.rk, &name, &Prior::None, &[], &req, &p(l), false);
                let ans = Ans { pre: &resp, t, fudge: Some(fudge), cap: usize::MAX };
                let sr = srv_txn(&key, &signed_req, t, Some(&ans))?;
                vensure!(sr.out == want, format!("server-request:generated-key-mac-of-permitted-length-{:?}-expected-{:?}", sr.out, want), "MAC of {l} octets, key {}\nrequest {}", show(), hex(&signed_req));
                if want == O::BadTrunc {
                    check_unsigned_error("server-request", &sr, &signed_req, rs::BADTRUNC)?;
                    ctx.class("keygen/short-mac-refused-by-generated-key");
                    return Ok(());
                }
                check_restored("server-request", &sr.after, &req)?;
                let signed_resp = match sr.answer {
                    Some(Ok(m)) => m,
                    _ => vfail!("answer:push-failed-with-room", ""),
                };
                conform(&resp, &signed_resp, &Want { what: "generated-key-answer", signer: &ks, prior: Prior::Mac(&req_mac), between: &[], timers_only: false, time: t, fudge, error: 0, other: &[] })?;
                ctx.class("keygen/answer-of-generated-key-conforms");
            } else {
                // as a client sequence: first answer with a MAC of l octets, then one of full length
                let mut b = builder_from(&req, usize::MAX);
                let mut seq = ClientSequence::request_with_fudge(&key, &mut b, t48(t), fudge).map_err(|_| Violation::new("sequence-request:push-failed-with-room", ""))?;
                let signed_req = b.as_slice().to_vec();
                let req_mac = conform(&req, &signed_req, &Want { what: "generated-key-request", signer: &ks, prior: Prior::None, between: &[], timers_only: false, time: t, fudge, error: 0, other: &[] })?;
                let mut rseq = rs::RefSeq::new(ks.rk.clone(), &req_mac);
                let first = rseq.sign(&name, &resp, &p(l));
                let mut m = Message::from_octets(first.clone()).unwrap();
                let got = o_client(&seq.answer(&mut m, t48(t)));
                vensure!(got == want, format!("client-sequence:generated-key-mac-of-permitted-length-{:?}-expected-{:?}", got, want), "MAC of {l} octets, key {}\nanswer {}", show(), hex(&first));
                if want == O::BadTrunc {
                    ctx.class("keygen/short-mac-refused-by-generated-key");
                    return Ok(());
                }
                check_restored("client-sequence", m.as_slice(), &resp)?;
                let second = rseq.sign(&name, &tiny_message(get_id(&req), 0x8400, 5, 1), &p(alg.out_len()));
                let mut m = Message::from_octets(second.clone()).unwrap();
                let got = o_client(&seq.answer(&mut m, t48(t)));
                vensure!(got == O::Accept, format!("client-sequence:generated-key-subsequent-message-{:?}-expected-Accept", got), "key {}\nmessage {}", show(), hex(&second));
                vensure!(seq.done().is_ok(), "client-sequence:generated-key-done-fails", "key {}", show());
                ctx.class("keygen/sequence-verified-by-generated-key");
            }
            if l < alg.out_len() {
                ctx.class("keygen/truncated-mac-accepted-by-generated-key");
            }
        }
    }
    Ok(())
    };
    behave(ctx)?;

    let tsig_len = rs::name_wire(&name).len() + 10 + rs::name_wire(&alg.labels()).len() + 16 + ks.eff_sign();
    vensure!(key.compose_len() as usize == tsig_len, "key:compose_len-wrong", "compose_len {} but the TSIG RR takes {}", key.compose_len(), tsig_len);
    //--- what the key says about itself
    vensure!(
        key.min_mac_len() == ks.eff_min() && key.signing_len() == ks.eff_sign() && key.native_len() == alg.out_len(),
        "key-generate:lengths-not-kept",
        "requested min {:?} sign {:?}; key reports min {} sign {} native {}",
        min,
        sign,
        key.min_mac_len(),
        key.signing_len(),
        key.native_len()
    );
    vensure!(key.algorithm() == lib_alg(alg) && key.name().name_eq(&key_name(&name)), "key-generate:name-or-algorithm-not-kept", "{}", show());
    Ok(())
}
