//! Sub-check `wrappers`: the transport wrappers driven without sockets.
//!
//! * `net::server::middleware::tsig::TsigMiddlewareSvc` around a mock service:
//!   the peer is the RFC reference (signs requests, checks every response
//!   against the reference digest).
//! * `net::client::tsig::Connection` over a mock upstream that answers with
//!   reference-signed (or altered) messages.
//!
//! Both wrappers read the wall clock (`Time48::now()`); the mock peers copy
//! the time they see in the TSIG RR, so the outcome only depends on the case
//! taking less than the 300 s fudge.
use super::common::*;
use super::refsig::{self as rs, Prior, RefKey, RefSeq, SignParams};
use crate::engine::*;
use crate::gen::*;
use crate::refimpl::wire;
use crate::{vensure, vfail};
use arbitrary::Unstructured;
use bytes::Bytes;
use domain::base::iana::{Class, Rcode};
use domain::base::message_builder::AdditionalBuilder;
use domain::base::name::Name;
use domain::base::{Message, StreamTarget, Ttl};
use domain::net::client::request::{ComposeRequest, ComposeRequestMulti, Error, GetResponse, GetResponseMulti, RequestMessage, RequestMessageMulti, SendRequest, SendRequestMulti};
use domain::net::client::dgram;
use domain::net::client::protocol::{AsyncConnect, AsyncDgramRecv, AsyncDgramSend};
use domain::net::client::tsig as ctsig;
use domain::net::server::message::{Request, TransportSpecificContext, UdpTransportContext};
use domain::net::server::middleware::tsig::TsigMiddlewareSvc;
use domain::net::server::service::{CallResult, Service, ServiceFeedback, ServiceResult};
use domain::net::server::util::mk_builder_for_target;
use domain::rdata::tsig::Time48;
use domain::rdata::Txt;
use domain::tsig::{Algorithm, Key, KeyName};
use futures_util::StreamExt;
use std::collections::HashMap;
use std::future::{ready, Future, Ready};
use std::pin::Pin;
use std::sync::{Arc, Mutex};

//------------ mock next service ------------------------------------------------------------------

type Seen = Arc<Mutex<Vec<(Vec<u8>, Option<Vec<u8>>)>>>; // (request octets as seen, key name wire)

#[derive(Clone)]
struct Next {
    n: usize,
    fill: u8,
    seen: Seen,
}

fn mk_answer(req: &Message<Vec<u8>>, i: usize, fill: u8) -> AdditionalBuilder<StreamTarget<Vec<u8>>> {
    let mut b = mk_builder_for_target::<Vec<u8>>().start_answer(req, Rcode::NOERROR).unwrap();
    for k in 0..(i % 3) {
        let txt: Txt<Vec<u8>> = Txt::build_from_slice(&[fill, i as u8, k as u8]).unwrap();
        b.push((Name::root_ref(), Class::IN, Ttl::from_secs(60), txt)).unwrap();
    }
    b.additional()
}

impl Service<Vec<u8>, Option<Arc<Key>>> for Next {
    type Target = Vec<u8>;
    type Stream = futures_util::stream::Iter<std::vec::IntoIter<ServiceResult<Vec<u8>>>>;
    type Future = Ready<Self::Stream>;
    fn call(&self, request: Request<Vec<u8>, Option<Arc<Key>>>) -> Self::Future {
        let kn = request.metadata().as_ref().map(|k| k.name().as_slice().to_vec());
        self.seen.lock().unwrap().push((request.message().as_slice().to_vec(), kn));
        let mut v = vec![];
        for i in 0..self.n {
            let mut cr = CallResult::new(mk_answer(request.message(), i, self.fill));
            if self.n > 1 && i == 0 {
                cr = cr.with_feedback(ServiceFeedback::BeginTransaction);
            }
            if self.n > 1 && i + 1 == self.n {
                cr = cr.with_feedback(ServiceFeedback::EndTransaction);
            }
            v.push(Ok(cr));
        }
        ready(futures_util::stream::iter(v))
    }
}

fn now48() -> u64 {
    u64::from(Time48::now())
}

fn run_middleware(u: &mut Unstructured, ctx: &mut Ctx) -> CaseResult {
    let variant = pick(u, 8); // 0-3 honest, 4 MAC flipped, 5 unknown key, 6 TSIG twice, 7 stale clock; unsigned via flag
    let unsigned = pick(u, 10) == 9;
    let n = 1 + [0usize, 0, 1, 2, 4][pick(u, 5)];
    let fill = byte(u);
    let mut ks = gen_keyspec(u);
    ks.min_mac = ks.min_mac.min(ks.sign_len); // own policy admits own signing length
    if ks.eff_sign() < ks.eff_min() {
        ks.min_mac = ks.sign_len;
    }
    let kc = peer_of(u, &ks);
    let kc = KeySpec { min_mac: ks.min_mac, sign_len: ks.sign_len, ..kc };
    let req = {
        let mut m = tiny_message(u16_(u), 0x0100, fill, 0);
        if flag(u) {
            // plus an OPT record
            m.extend_from_slice(&[0, 0, 41, 4, 208, 0, 0, 0, 0, 0, 0]);
            m[11] = 1;
        }
        m
    };
    let mut store: HashMap<(KeyName, Algorithm), Arc<Key>> = HashMap::new();
    store.insert((key_name(&ks.rk.name), lib_alg(ks.rk.alg)), Arc::new(ks.lib()));
    let seen: Seen = Arc::new(Mutex::new(vec![]));
    let svc: TsigMiddlewareSvc<Vec<u8>, Next, HashMap<(KeyName, Algorithm), Arc<Key>>, ()> = TsigMiddlewareSvc::new(Next { n, fill, seen: seen.clone() }, store);

    let t = if variant == 7 { now48().saturating_sub(100_000) } else { now48() };
    let p = SignParams { time: t, fudge: 300, error: 0, other: vec![], mac_len: kc.eff_sign() };
    let (signed, req_mac) = rs::sign(&kc.rk, &kc.rk.name, &Prior::None, &[], &req, &p, false);
    let mut wire_req = signed.clone();
    let mut label = "honest";
    if unsigned {
        wire_req = req.clone();
        label = "unsigned-request";
    } else {
        match variant {
            4 => {
                let sp = rs::split(&signed).unwrap();
                let l = sp.rr.layout();
                wire_req[sp.start + l.mac.0 + pick(u, l.mac.1 - l.mac.0)] ^= 1 << pick(u, 8);
                label = "mac-flipped";
            }
            5 => {
                let mut k2 = kc.rk.clone();
                k2.name.push(b"nope".to_vec());
                if rs::name_wire(&k2.name).len() > 255 {
                    k2.name = vec![b"nope".to_vec()];
                }
                wire_req = rs::sign(&k2, &k2.name, &Prior::None, &[], &req, &p, false).0;
                label = "unknown-key";
            }
            6 => {
                let sp = rs::split(&signed).unwrap();
                wire_req.extend_from_slice(&signed[sp.start..]);
                let ar = u16::from_be_bytes([wire_req[10], wire_req[11]]) + 1;
                wire_req[10..12].copy_from_slice(&ar.to_be_bytes());
                label = "tsig-twice";
            }
            7 => label = "stale-clock",
            _ => {}
        }
    }
    ctx.class(format!("middleware/{label}"));
    ctx.class(format!("middleware/{n}-responses"));
    ctx.sample(|| format!("middleware {label} key[{}] {n} responses", ks.show()));
    if ks.truncating() {
        ctx.nontrivial(&(&ks, label, n, &req));
    }

    let request = Request::new("127.0.0.1:53".parse().unwrap(), tokio::time::Instant::now(), Message::from_octets(wire_req.clone()).unwrap(), TransportSpecificContext::Udp(UdpTransportContext::new(None)), ());
    let out: Vec<Result<Vec<u8>, String>> = block_on_paused(async {
        let mut stream = svc.call(request).await;
        let mut out = vec![];
        while let Some(item) = stream.next().await {
            match item {
                Ok(cr) => {
                    if let (Some(b), _) = cr.into_inner() {
                        out.push(Ok(b.as_slice().to_vec()));
                    }
                }
                Err(e) => out.push(Err(format!("{e:?}"))),
            }
        }
        out
    });
    let seen = seen.lock().unwrap().clone();
    let resp = |i: usize| -> Result<&Vec<u8>, Violation> {
        match out.get(i) {
            Some(Ok(m)) => Ok(m),
            other => Err(Violation::new(format!("middleware:{label}:no-response"), format!("{:?}", other))),
        }
    };
    match label {
        "honest" => {
            vensure!(seen.len() == 1, "middleware:honest-request-not-passed-on", "{} calls; responses {:?}", seen.len(), out);
            check_restored("middleware-request", &seen[0].0, &req)?;
            vensure!(seen[0].1.as_deref().map(|n| n.eq_ignore_ascii_case(&rs::name_wire(&ks.rk.name))) == Some(true), "middleware:key-metadata-wrong", "{:?}", seen[0].1);
            vensure!(out.len() == n, "middleware:response-count", "{} vs {n}", out.len());
            let mut rseq = RefSeq::new(ks.rk.clone(), &req_mac);
            for i in 0..n {
                let m = resp(i)?;
                let sp = match rs::split(m) {
                    Ok(s) => s,
                    Err(e) => vfail!("middleware:response-not-signed", "response {i}: {e} {}", hex(m)),
                };
                let pre = {
                    let mut p = m[..sp.start].to_vec();
                    let ar = u16::from_be_bytes([p[10], p[11]]) - 1;
                    p[10..12].copy_from_slice(&ar.to_be_bytes());
                    p
                };
                let prior = rseq.prior_mac.clone();
                let what: &'static str = if i == 0 { "middleware-first-response" } else { "middleware-subsequent-response" };
                let mac = conform(&pre, m, &Want { what, signer: &ks, prior: Prior::Mac(&prior), between: &[], timers_only: i > 0, time: sp.rr.time, fudge: 300, error: 0, other: &[] })?;
                vensure!(sp.rr.time.abs_diff(now48()) <= 120, "middleware:time-signed-not-now", "{}", sp.rr.time);
                rseq.advance(&mac);
            }
            ctx.class("middleware-exchange-verified");
        }
        "unsigned-request" => {
            vensure!(seen.len() == 1 && seen[0].0 == req && seen[0].1.is_none(), "middleware:unsigned-request-not-passed-through", "{:?}", seen);
            for i in 0..n {
                let (_, t) = rs::locate_tsigs(resp(i)?);
                vensure!(t.is_empty(), "middleware:unsigned-request-signed-response", "");
            }
        }
        _ => {
            vensure!(seen.is_empty(), format!("middleware:{label}:request-passed-on"), "{:?}", seen);
            vensure!(out.len() == 1, format!("middleware:{label}:response-count"), "{:?}", out);
            let m = resp(0)?;
            let h = wire::header(m).unwrap();
            vensure!(h.qr() && h.id == get_id(&wire_req), format!("middleware:{label}:error-header"), "{}", hex(m));
            match label {
                "tsig-twice" => vensure!(h.rcode() == 1, "middleware:tsig-twice:rcode-not-formerr", "{}", hex(m)),
                "stale-clock" => {
                    let sp = rs::split(m).map_err(|e| Violation::new("middleware:stale-clock:error-not-signed", e))?;
                    let pre = {
                        let mut p = m[..sp.start].to_vec();
                        let ar = u16::from_be_bytes([p[10], p[11]]) - 1;
                        p[10..12].copy_from_slice(&ar.to_be_bytes());
                        p
                    };
                    vensure!(h.rcode() == 9, "middleware:stale-clock:rcode", "{}", h.rcode());
                    vensure!(sp.rr.other.len() == 6, "middleware:stale-clock:other-data", "{}", hex(&sp.rr.other));
                    let other = sp.rr.other.clone();
                    conform(&pre, m, &Want { what: "middleware-badtime-response", signer: &ks, prior: Prior::Mac(&req_mac), between: &[], timers_only: false, time: t, fudge: 300, error: rs::BADTIME, other: &other })?;
                }
                _ => {
                    let sp = rs::split(m).map_err(|e| Violation::new(format!("middleware:{label}:error-malformed"), e))?;
                    let want = if label == "unknown-key" { rs::BADKEY } else { rs::BADSIG };
                    vensure!(h.rcode() == 9 && sp.rr.error == want && sp.rr.mac.is_empty(), format!("middleware:{label}:error-code"), "rcode {} tsig error {} mac {}B", h.rcode(), sp.rr.error, sp.rr.mac.len());
                }
            }
        }
    }
    Ok(())
}

//------------ mock upstream for the client wrapper ----------------------------------------------------

#[derive(Clone, Debug)]
struct Plan {
    server: RefKey,
    mac_len: usize,
    /// responses: (unsigned octets, signed?)
    responses: Vec<(Vec<u8>, bool)>,
    /// index of the response to alter, and how (0 MAC flip, 1 body flip)
    alter: Option<(usize, u8)>,
    /// a second altered response (same encoding)
    alter2: Option<(usize, u8)>,
    /// the upstream composes (= signs) the request once per entry, after
    /// setting this message ID, like a datagram transport does for every
    /// retransmission; empty = compose once, ID untouched
    compose_ids: Vec<u16>,
    /// which composition the peer answers (None = the last one put on the wire)
    answer_composition: Option<usize>,
    log: Arc<Mutex<Vec<Vec<u8>>>>,
    /// all compositions, in order
    composed: Arc<Mutex<Vec<Vec<u8>>>>,
}

#[derive(Debug)]
struct MockGet {
    wire: Vec<Vec<u8>>,
    pos: usize,
}

fn build_wire(plan: &Plan, signed_req: &[u8]) -> Vec<Vec<u8>> {
    plan.log.lock().unwrap().push(signed_req.to_vec());
    let Ok(sp) = rs::split(signed_req) else { return vec![] };
    let mut seq = RefSeq::new(plan.server.clone(), &sp.rr.mac);
    let mut out = vec![];
    for (i, (m, signed)) in plan.responses.iter().enumerate() {
        let mut w = if *signed {
            seq.sign(&plan.server.name, m, &SignParams { time: sp.rr.time, fudge: 300, error: 0, other: vec![], mac_len: plan.mac_len })
        } else {
            seq.unsigned(m);
            m.clone()
        };
        for (j, how) in plan.alter.iter().chain(plan.alter2.iter()).copied() {
            if j == i {
                if how == 0 && *signed {
                    let l = w.len();
                    w[l - 7] ^= 1; // last MAC octet (behind it: original ID, error, other len)
                } else {
                    w[2] ^= 0x02; // a header flag
                }
            }
        }
        out.push(w);
    }
    out
}

impl GetResponse for MockGet {
    fn get_response(&mut self) -> Pin<Box<dyn Future<Output = Result<Message<Bytes>, Error>> + Send + Sync + '_>> {
        let r = match self.wire.first() {
            Some(w) => Ok(Message::from_octets(Bytes::from(w.clone())).unwrap()),
            None => Err(Error::StreamReceiveError),
        };
        Box::pin(ready(r))
    }
}
impl GetResponseMulti for MockGet {
    fn get_response(&mut self) -> Pin<Box<dyn Future<Output = Result<Option<Message<Bytes>>, Error>> + Send + Sync + '_>> {
        let r = self.wire.get(self.pos).map(|w| Message::from_octets(Bytes::from(w.clone())).unwrap());
        self.pos += 1;
        Box::pin(ready(Ok(r)))
    }
}

/// Composes the request the way the plan says and returns the composition
/// the peer answers.
fn compose_all(plan: &Plan, mut compose: impl FnMut(Option<u16>) -> Vec<u8>) -> Vec<u8> {
    let mut all = vec![];
    if plan.compose_ids.is_empty() {
        all.push(compose(None));
    } else {
        for id in &plan.compose_ids {
            all.push(compose(Some(*id)));
        }
    }
    *plan.composed.lock().unwrap() = all.clone();
    let k = plan.answer_composition.unwrap_or(all.len() - 1).min(all.len() - 1);
    all[k].clone()
}

struct MockUp(Plan);
impl<CR: ComposeRequest + 'static> SendRequest<CR> for MockUp {
    fn send_request(&self, mut request_msg: CR) -> Box<dyn GetResponse + Send + Sync> {
        let req = compose_all(&self.0, |id| {
            if let Some(id) = id {
                request_msg.header_mut().set_id(id);
            }
            // alternate between the two composition entry points
            if id.map(|i| i & 1 == 1).unwrap_or(false) {
                request_msg.to_message().map(|m| m.as_slice().to_vec()).unwrap_or_default()
            } else {
                request_msg.to_vec().unwrap_or_default()
            }
        });
        Box::new(MockGet { wire: build_wire(&self.0, &req), pos: 0 })
    }
}
struct MockUpMulti(Plan);
impl<CR: ComposeRequestMulti + 'static> SendRequestMulti<CR> for MockUpMulti {
    fn send_request(&self, mut request_msg: CR) -> Box<dyn GetResponseMulti + Send + Sync> {
        let req = compose_all(&self.0, |id| {
            if let Some(id) = id {
                request_msg.header_mut().set_id(id);
            }
            request_msg.to_message().map(|m| m.as_slice().to_vec()).unwrap_or_default()
        });
        Box::new(MockGet { wire: build_wire(&self.0, &req), pos: 0 })
    }
}

fn run_client_wrapper(u: &mut Unstructured, ctx: &mut Ctx) -> CaseResult {
    let multi = flag(u);
    let kc = {
        let mut k = gen_keyspec(u);
        if k.eff_sign() < k.eff_min() {
            k.min_mac = k.sign_len;
        }
        k
    };
    let ks = peer_of(u, &kc);
    let ks = KeySpec { min_mac: kc.min_mac, sign_len: kc.sign_len, ..ks };
    let id = u16_(u);
    let mut req = tiny_message(id, 0x0100, byte(u), 0);
    if !multi {
        req[27] = 6; // SOA: the single-response request type refuses AXFR
    }
    // responses
    let mut responses = vec![];
    let n = if multi { 1 + pick(u, 8) } else { 1 };
    for i in 0..n {
        let signed = i == 0 || !multi || !chance(u, 60);
        responses.push((tiny_message(id, 0x8400, byte(u), i % 3), signed));
    }
    let alter = if chance(u, 90) { Some((pick(u, n), pick(u, 2) as u8)) } else { None };
    // retransmissions: the request is composed 1-4 times with changing IDs
    let n_comp = [0usize, 0, 1, 2, 2, 3, 4][pick(u, 7)];
    let compose_ids: Vec<u16> = (0..n_comp).map(|i| if chance(u, 40) { id } else { id.wrapping_add(1 + i as u16 * 7).wrapping_add(byte(u) as u16) }).collect();
    let answer_composition = if n_comp >= 2 && chance(u, 50) { Some(pick(u, n_comp)) } else { None };
    let log = Arc::new(Mutex::new(vec![]));
    let composed = Arc::new(Mutex::new(vec![]));
    // how many more get_response() calls the caller makes after the first error, and a second forged message
    let n_continue = [0usize, 0, 1, 2, 3, 5, 8][pick(u, 7)];
    let alter2 = if n >= 2 && chance(u, 110) { Some((pick(u, n), pick(u, 2) as u8)) } else { None };
    let alter2 = if alter2.map(|a| a.0) == alter.map(|a| a.0) { None } else { alter2 };
    let plan = Plan { server: ks.rk.clone(), mac_len: ks.eff_sign(), responses: responses.clone(), alter, alter2, compose_ids: compose_ids.clone(), answer_composition, log: log.clone(), composed: composed.clone() };
    if n_comp >= 2 {
        ctx.class("client-wrapper/request-composed-again");
    }
    ctx.class(if multi { "client-wrapper/multi" } else { "client-wrapper/single" });
    ctx.sample(|| format!("client wrapper multi={multi} key[{}] pattern {:?} alter {:?}", kc.show(), responses.iter().map(|r| r.1).collect::<Vec<_>>(), alter));
    if responses.iter().any(|r| !r.1) || kc.truncating() {
        ctx.nontrivial(&(&kc, multi, &responses, alter));
    }
    let key = Arc::new(kc.lib());
    // model: what the caller has to see
    // signed message altered -> error at that message; unsigned message altered -> error at the next signed one
    // (or at the end if none follows); last message unsigned -> error when the stream ends
    let results: Vec<Result<Option<Vec<u8>>, String>> = block_on_paused(async {
        let mut res = vec![];
        if multi {
            let conn = ctsig::Connection::new(key.clone(), MockUpMulti(plan));
            let rm = RequestMessageMulti::new(Message::from_octets(req.clone()).unwrap()).unwrap();
            let mut g = SendRequestMulti::send_request(&conn, rm);
            // The caller keeps asking after an error (n_continue more
            // times) but not beyond the end of the upstream stream.
            let mut more = n_continue;
            let mut had_err = false;
            for call in 0..=n {
                if had_err && call >= n {
                    break; // no end-of-stream call on a request that already failed
                }
                match g.get_response().await {
                    Ok(Some(m)) => res.push(Ok(Some(m.as_slice().to_vec()))),
                    Ok(None) => {
                        res.push(Ok(None));
                        break;
                    }
                    Err(e) => {
                        res.push(Err(format!("{e:?}")));
                        had_err = true;
                        if more == 0 || call + 1 >= n {
                            break;
                        }
                        more -= 1;
                    }
                }
            }
        } else {
            let conn = ctsig::Connection::new(key.clone(), MockUp(plan));
            let rm = RequestMessage::new(Message::from_octets(req.clone()).unwrap()).unwrap();
            let mut g = SendRequest::send_request(&conn, rm);
            let mut more = n_continue.min(3);
            loop {
                match g.get_response().await {
                    Ok(m) => {
                        res.push(Ok(Some(m.as_slice().to_vec())));
                        break;
                    }
                    Err(e) => {
                        res.push(Err(format!("{e:?}")));
                        if more == 0 {
                            break;
                        }
                        more -= 1;
                    }
                }
            }
        }
        res
    });
    // the request that went upstream is signed per RFC 8945
    let sent = log.lock().unwrap().clone();
    vensure!(sent.len() == 1, "client-wrapper:request-not-sent-once", "{}", sent.len());
    let sp = rs::split(&sent[0]).map_err(|e| Violation::new("client-wrapper:request-not-signed", format!("{e} {}", hex(&sent[0]))))?;
    let full = rs::full_mac(&kc.rk, &Prior::None, &[], &sp.unsigned, &sp.rr, false);
    vensure!(sp.rr.mac[..] == full[..kc.eff_sign()], "client-wrapper:request-mac-differs-from-rfc8945", "{}", hex(&sent[0]));
    vensure!(sp.rr.time.abs_diff(now48()) <= 120, "client-wrapper:time-signed-not-now", "{}", sp.rr.time);

    // every composition is signed per RFC 8945 with its own ID
    let comps = composed.lock().unwrap().clone();
    for c in &comps {
        let spc = rs::split(c).map_err(|e| Violation::new("client-wrapper:recomposed-request-not-signed", format!("{e} {}", hex(c))))?;
        let full = rs::full_mac(&kc.rk, &Prior::None, &[], &spc.unsigned, &spc.rr, false);
        vensure!(spc.rr.mac[..] == full[..kc.eff_sign()], "client-wrapper:recomposed-request-mac-differs-from-rfc8945", "{}", hex(c));
    }
    // The answer is bound to the request that was last put on the wire: an
    // answer to an earlier, different composition is a stale answer.
    let stale = comps.last().map(|l| l != &sent[0]).unwrap_or(false);
    if stale {
        ctx.class("client-wrapper/answer-to-earlier-composition");
    } else if comps.len() >= 2 && comps.windows(2).any(|w| w[0] != w[1]) {
        ctx.class("client-wrapper/answer-to-last-of-several-compositions");
    }

    // Expected sequence of results up to and including the first rejection
    // (reference model of the chain: a signed message is rejected when it
    // was altered or an unsigned message before it was; the stream must end
    // with a signed message).
    let is_altered = |i: usize| alter.map(|a| a.0 == i).unwrap_or(false) || alter2.map(|a| a.0 == i).unwrap_or(false);
    let mut want: Vec<Result<Option<usize>, ()>> = vec![];
    let mut dirty = stale;
    let mut failed = false;
    for (i, (_, signed)) in responses.iter().enumerate() {
        if *signed {
            if is_altered(i) || dirty {
                want.push(Err(()));
                failed = true;
                break;
            }
            want.push(Ok(Some(i)));
        } else {
            if is_altered(i) {
                dirty = true;
            }
            want.push(Ok(Some(i)));
        }
    }
    if multi && !failed {
        if responses.last().map(|r| r.1) == Some(true) {
            want.push(Ok(None));
        } else {
            want.push(Err(()));
        }
    }
    let show = || format!("pattern {:?} alter {:?} {:?}, {} more calls after an error\ngot {:?}", responses.iter().map(|r| r.1).collect::<Vec<_>>(), alter, alter2, n_continue, results.iter().map(|r| r.as_ref().map(|o| o.as_ref().map(|m| m.len())).map_err(|e| e.clone())).collect::<Vec<_>>());
    vensure!(results.len() >= want.len(), "client-wrapper:number-of-results", "{}", show());
    // Whatever is handed to the caller has been through verification, which
    // strips the TSIG record (module documentation): a delivered message that
    // still carries one was never verified.
    for (i, g) in results.iter().enumerate() {
        if let Ok(Some(m)) = g {
            let (_, t) = rs::locate_tsigs(m);
            vensure!(t.is_empty(), if i < want.len() { "client-wrapper:delivered-message-still-carries-tsig" } else { "client-wrapper:delivered-message-still-carries-tsig-after-earlier-rejection" }, "result {i}\n{}", show());
        }
    }
    for (i, (g, w)) in results.iter().zip(&want).enumerate() {
        match (g, w) {
            (Ok(Some(m)), Ok(Some(j))) => {
                let pre = &responses[*j].0;
                if responses[*j].1 {
                    check_restored("client-wrapper", m, pre)?;
                } else if is_altered(*j) {
                    // altered unsigned message is handed on as received
                } else {
                    vensure!(m == pre, "client-wrapper:unsigned-message-changed", "{}", show());
                }
            }
            (Ok(None), Ok(None)) => {}
            (Err(e), Err(())) => {
                vensure!(e.contains("Authentication"), "client-wrapper:error-is-not-authentication", "{e}");
                ctx.class("client-wrapper/rejected");
            }
            _ => vfail!(
                format!("client-wrapper:result-{}-expected-{}{}", if g.is_ok() { "ok" } else { "error" }, if w.is_ok() { "ok" } else { "error" }, if comps.len() >= 2 { if stale { "-answer-to-earlier-composition" } else { "-answer-to-last-composition" } } else { "" }),
                "position {i}; request composed {} times with IDs {:?}, composition answered: {:?}\n{}",
                comps.len(),
                compose_ids,
                answer_composition,
                show()
            ),
        }
    }
    // After the first rejection the chain of MACs is broken: the rejected
    // message was the server's own (altered in transit), so everything the
    // server signs later builds on a MAC the client never accepted. Once
    // failed, stay failed: no later message that carries a TSIG - forged or
    // genuinely signed - may be handed to the caller. (Unsigned messages are
    // not judged here: RFC 8945 §5.3.1 lets a verifier take them
    // provisionally; they were covered above by "no TSIG in what is
    // delivered".)
    if results.len() > want.len() {
        ctx.class("client-wrapper/continued-after-rejection");
        for (k, g) in results.iter().enumerate().skip(want.len()) {
            // multi: the k-th call consumed the k-th upstream message; single: the same message again
            let idx = if multi { k } else { 0 };
            match (responses.get(idx), g) {
                (Some((_, true)), Ok(_)) => vfail!("client-wrapper:signed-message-accepted-after-earlier-rejection", "call {k}\n{}", show()),
                (Some((_, true)), Err(e)) => {
                    vensure!(e.contains("Authentication"), "client-wrapper:error-is-not-authentication", "{e}");
                    ctx.class("client-wrapper/signed-message-after-rejection-rejected");
                }
                _ => {}
            }
        }
    }
    if !failed && want.iter().all(|w| w.is_ok()) {
        ctx.class("client-wrapper/verified");
    }
    Ok(())
}

//------------ the real datagram transport over a fake network ---------------------------------------------

/// What the fake network does with the n-th socket (the datagram transport
/// opens a new socket and composes the request anew for every attempt).
#[derive(Clone, Copy, Debug, PartialEq, Eq, Hash)]
enum Net {
    /// the datagram is lost
    Lose,
    /// an answer with another ID arrives (the transport ignores it) and nothing else
    WrongId,
    /// the honest answer arrives
    Answer,
    /// the honest answer with one MAC bit flipped arrives
    BadMac,
}

#[derive(Clone)]
struct FakeNet {
    server: RefKey,
    mac_len: usize,
    script: Arc<Vec<Net>>,
    sockets: Arc<std::sync::atomic::AtomicUsize>,
    /// (datagram sent, unsigned answer given to it) per socket that answered
    log: Arc<Mutex<Vec<(Vec<u8>, Vec<u8>)>>>,
    fill: u8,
}

struct FakeSock {
    net: FakeNet,
    what: Net,
    reply: Mutex<Option<Vec<u8>>>,
}

impl AsyncConnect for FakeNet {
    type Connection = FakeSock;
    type Fut = Pin<Box<dyn Future<Output = Result<FakeSock, std::io::Error>> + Send + Sync>>;
    fn connect(&self) -> Self::Fut {
        let n = self.sockets.fetch_add(1, std::sync::atomic::Ordering::SeqCst);
        let what = self.script.get(n).copied().unwrap_or(Net::Answer);
        Box::pin(ready(Ok(FakeSock { net: self.clone(), what, reply: Mutex::new(None) })))
    }
}

impl AsyncDgramSend for FakeSock {
    fn poll_send(&self, _cx: &mut std::task::Context<'_>, buf: &[u8]) -> std::task::Poll<Result<usize, std::io::Error>> {
        if self.what != Net::Lose {
            if let (Ok(sp), Some(w)) = (rs::split(buf), wire::walk(buf)) {
                // answer: header + question of the request, one TXT record
                let qend = w.questions.last().map(|q| q.end).unwrap_or(12);
                let mut a = sp.unsigned[..qend].to_vec();
                a[2] = 0x81;
                a[3] = 0x80;
                a[6..12].copy_from_slice(&[0, 1, 0, 0, 0, 0]);
                a.extend_from_slice(&[0, 0, 16, 0, 1, 0, 0, 0, 60, 0, 3, 2, self.net.fill, self.net.fill]);
                if self.what == Net::WrongId {
                    a[0] ^= 0x55;
                }
                let (mut signed, _) = rs::sign(&self.net.server, &self.net.server.name, &Prior::Mac(&sp.rr.mac), &[], &a, &SignParams { time: sp.rr.time, fudge: 300, error: 0, other: vec![], mac_len: self.net.mac_len }, false);
                if self.what == Net::BadMac {
                    let l = signed.len();
                    signed[l - 7] ^= 1;
                }
                self.net.log.lock().unwrap().push((buf.to_vec(), a));
                *self.reply.lock().unwrap() = Some(signed);
            }
        }
        std::task::Poll::Ready(Ok(buf.len()))
    }
}

impl AsyncDgramRecv for FakeSock {
    fn poll_recv(&self, _cx: &mut std::task::Context<'_>, buf: &mut tokio::io::ReadBuf<'_>) -> std::task::Poll<Result<(), std::io::Error>> {
        match self.reply.lock().unwrap().take() {
            Some(r) => {
                buf.put_slice(&r);
                std::task::Poll::Ready(Ok(()))
            }
            // nothing more arrives; the transport's read timeout ends the attempt
            None => std::task::Poll::Pending,
        }
    }
}

fn run_dgram(u: &mut Unstructured, ctx: &mut Ctx) -> CaseResult {
    let n_before = pick(u, 4);
    let mut script: Vec<Net> = (0..n_before).map(|_| if flag(u) { Net::Lose } else { Net::WrongId }).collect();
    let last = if chance(u, 40) { Net::BadMac } else { Net::Answer };
    script.push(last);
    let fill = byte(u);
    let kc = {
        let mut k = gen_keyspec(u);
        if k.eff_sign() < k.eff_min() {
            k.min_mac = k.sign_len;
        }
        k
    };
    let ks = peer_of(u, &kc);
    let ks = KeySpec { min_mac: kc.min_mac, sign_len: kc.sign_len, ..ks };
    let mut req = tiny_message(u16_(u), 0x0100, fill, 0);
    req[27] = 6;
    ctx.class("dgram-transport");
    ctx.class(format!("dgram-transport/{}-attempts-before-answer", n_before));
    ctx.sample(|| format!("tsig over dgram transport, network script {script:?} key[{}]", kc.show()));
    if n_before > 0 {
        ctx.nontrivial(&(&kc, &script, &req));
    }
    let net = FakeNet { server: ks.rk.clone(), mac_len: ks.eff_sign(), script: Arc::new(script.clone()), sockets: Arc::new(std::sync::atomic::AtomicUsize::new(0)), log: Arc::new(Mutex::new(vec![])), fill };
    let key = Arc::new(kc.lib());
    let res: Result<Vec<u8>, String> = block_on_paused(async {
        let mut config = dgram::Config::new();
        config.set_read_timeout(std::time::Duration::from_millis(50));
        config.set_max_retries(5);
        let udp = dgram::Connection::with_config(net.clone(), config);
        let conn = ctsig::Connection::new(key.clone(), udp);
        let rm = RequestMessage::new(Message::from_octets(req.clone()).unwrap()).unwrap();
        let mut g = SendRequest::send_request(&conn, rm);
        g.get_response().await.map(|m| m.as_slice().to_vec()).map_err(|e| format!("{e:?}"))
    });
    let log = net.log.lock().unwrap().clone();
    let attempts = net.sockets.load(std::sync::atomic::Ordering::SeqCst);
    vensure!(attempts == script.len(), "dgram-transport:number-of-attempts", "{attempts} sockets for script {script:?}: {res:?}");
    // every datagram that went out is signed per RFC 8945
    for (d, _) in &log {
        let sp = rs::split(d).map_err(|e| Violation::new("dgram-transport:request-not-signed", format!("{e} {}", hex(d))))?;
        let full = rs::full_mac(&kc.rk, &Prior::None, &[], &sp.unsigned, &sp.rr, false);
        vensure!(sp.rr.mac[..] == full[..kc.eff_sign()], "dgram-transport:request-mac-differs-from-rfc8945", "{}", hex(d));
    }
    let detail = || format!("network script {script:?}, {attempts} attempts, key {}\nresult {res:?}", kc.show());
    match (last, &res) {
        (Net::Answer, Ok(m)) => {
            let pre = &log.last().ok_or_else(|| Violation::new("dgram-transport:no-datagram-seen", detail()))?.1;
            check_restored("dgram-transport", m, pre)?;
            ctx.class("dgram-transport/verified");
            if n_before > 0 {
                ctx.class("dgram-transport/verified-after-retransmission");
            }
        }
        (Net::BadMac, Err(e)) => {
            vensure!(e.contains("Authentication"), "dgram-transport:error-is-not-authentication", "{}", detail());
            ctx.class("dgram-transport/rejected");
        }
        (Net::Answer, Err(_)) => vfail!(if n_before > 0 { "dgram-transport:honest-answer-after-retransmission-rejected" } else { "dgram-transport:honest-answer-rejected" }, "{}", detail()),
        _ => vfail!("dgram-transport:altered-answer-accepted", "{}", detail()),
    }
    Ok(())
}

pub fn run_wrappers(data: &[u8], ctx: &mut Ctx) -> CaseResult {
    let mut u = Unstructured::new(data);
    match pick(&mut u, 5) {
        0 | 1 => run_client_wrapper(&mut u, ctx),
        2 | 3 => run_middleware(&mut u, ctx),
        _ => run_dgram(&mut u, ctx),
    }
}
