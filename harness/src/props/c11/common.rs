//! Shared pieces of the C11 check: builder target pre-loaded with message
//! octets, key generator, outcome normalisation, conformance oracle.
use super::refsig::{self as rs, Alg, Labels, Prior, RefKey};
use crate::engine::*;
use crate::gen::{self, *};
use crate::{vensure, vfail};
use arbitrary::Unstructured;
use domain::base::iana::TsigRcode;
use domain::base::message_builder::{AdditionalBuilder, MessageBuilder};
use domain::base::name::ToName;
use domain::base::wire::Composer;
use domain::rdata::tsig::Time48;
use domain::tsig::{Algorithm, Key, KeyName, ValidationError};
use octseq::builder::{OctetsBuilder, ShortBuf, Truncate};

//------------ Preload: a Composer that starts out holding a given message -------

/// Builder target that holds an already composed message. `MessageBuilder::
/// from_target` truncates the target and appends an empty header; the first
/// such append is replaced by the staged message, so the resulting
/// `AdditionalBuilder` holds exactly the given octets (header counts
/// included) and further records are appended behind them. `cap` bounds the
/// total size (like a fixed-size buffer) so "TSIG does not fit" is reachable.
#[derive(Clone, Debug)]
pub struct Preload {
    pub buf: Vec<u8>,
    staged: Option<Vec<u8>>,
    pub cap: usize,
}

impl OctetsBuilder for Preload {
    type AppendError = ShortBuf;
    fn append_slice(&mut self, slice: &[u8]) -> Result<(), ShortBuf> {
        if let Some(m) = self.staged.take() {
            debug_assert!(self.buf.is_empty() && slice.len() == 12);
            self.buf = m;
            return Ok(());
        }
        if self.buf.len() + slice.len() > self.cap {
            return Err(ShortBuf);
        }
        self.buf.extend_from_slice(slice);
        Ok(())
    }
}
impl Truncate for Preload {
    fn truncate(&mut self, len: usize) {
        self.buf.truncate(len)
    }
}
impl AsRef<[u8]> for Preload {
    fn as_ref(&self) -> &[u8] {
        &self.buf
    }
}
impl AsMut<[u8]> for Preload {
    fn as_mut(&mut self) -> &mut [u8] {
        &mut self.buf
    }
}
impl Composer for Preload {}

pub fn builder_from(msg: &[u8], cap: usize) -> AdditionalBuilder<Preload> {
    MessageBuilder::from_target(Preload { buf: vec![], staged: Some(msg.to_vec()), cap }).expect("preload").additional()
}

//------------ keys ----------------------------------------------------------------------

#[derive(Clone, Debug, PartialEq, Eq, Hash)]
pub struct KeySpec {
    pub rk: RefKey,
    pub min_mac: Option<usize>,
    pub sign_len: Option<usize>,
}

impl KeySpec {
    pub fn eff_min(&self) -> usize {
        self.min_mac.unwrap_or(self.rk.alg.out_len())
    }
    pub fn eff_sign(&self) -> usize {
        self.sign_len.unwrap_or(self.rk.alg.out_len())
    }
    pub fn truncating(&self) -> bool {
        self.eff_min() < self.rk.alg.out_len() || self.eff_sign() < self.rk.alg.out_len()
    }
    pub fn lib(&self) -> Key {
        Key::new(lib_alg(self.rk.alg), &self.rk.secret, key_name(&self.rk.name), self.min_mac, self.sign_len).expect("valid key parameters rejected")
    }
    pub fn show(&self) -> String {
        format!("{}/{} secret {}B min {:?} sign {:?}", gen::name::show(&self.rk.name), self.rk.alg.text(), self.rk.secret.len(), self.min_mac, self.sign_len)
    }
}

pub fn lib_alg(a: Alg) -> Algorithm {
    match a {
        Alg::Sha1 => Algorithm::Sha1,
        Alg::Sha256 => Algorithm::Sha256,
        Alg::Sha384 => Algorithm::Sha384,
        Alg::Sha512 => Algorithm::Sha512,
    }
}

pub fn key_name(l: &Labels) -> KeyName {
    gen::name::to_name(l).try_to_name().expect("name fits 255 octets")
}

/// A length inside the bounds RFC 8945 allows for this algorithm.
pub fn len_in_bounds(u: &mut Unstructured, alg: Alg) -> Option<usize> {
    let (lo, hi) = (alg.rfc_min_len(), alg.out_len());
    match pick(u, 6) {
        0 | 1 => None,
        2 => Some(lo),
        3 => Some(hi),
        4 => Some((lo + 1).min(hi)),
        _ => Some(range(u, lo, hi)),
    }
}

pub fn gen_secret(u: &mut Unstructured, alg: Alg) -> Vec<u8> {
    let b = alg.block_len();
    let n = match pick(u, 10) {
        0 => 0,
        1 => 1,
        2 => b - 1,
        3 => b,
        4 => b + 1,
        5 => 200,
        6 => alg.out_len(),
        _ => 1 + pick(u, 48),
    };
    (0..n).map(|_| byte(u)).collect()
}

pub fn gen_key_name(u: &mut Unstructured) -> Labels {
    match pick(u, 8) {
        0 => vec![],
        1 => vec![b"TESTKEY".to_vec()],
        2 => vec![b"Key-1".to_vec(), b"Example".to_vec(), b"COM".to_vec()],
        3 => gen::name::name(u, false),
        _ => gen::name::name(u, true),
    }
}

pub fn gen_keyspec(u: &mut Unstructured) -> KeySpec {
    let alg = Alg::ALL[pick(u, 4)];
    let secret = gen_secret(u, alg);
    let name = gen_key_name(u);
    let min_mac = len_in_bounds(u, alg);
    let sign_len = len_in_bounds(u, alg);
    KeySpec { rk: RefKey { alg, secret, name }, min_mac, sign_len }
}

/// The same shared secret as seen by the peer: name in another case, own
/// truncation policy.
pub fn peer_of(u: &mut Unstructured, k: &KeySpec) -> KeySpec {
    let name = if flag(u) { gen::name::swap_case(&k.rk.name, u) } else { k.rk.name.clone() };
    let (min_mac, sign_len) = if chance(u, 100) { (k.min_mac, k.sign_len) } else { (len_in_bounds(u, k.rk.alg), len_in_bounds(u, k.rk.alg)) };
    KeySpec { rk: RefKey { alg: k.rk.alg, secret: k.rk.secret.clone(), name }, min_mac, sign_len }
}

//------------ time ------------------------------------------------------------------------

pub fn gen_fudge(u: &mut Unstructured) -> u16 {
    match pick(u, 8) {
        0 => 0,
        1 => 1,
        2 | 3 | 4 => 300,
        5 => 0xFFFF,
        _ => u16_(u),
    }
}

pub fn gen_time(u: &mut Unstructured) -> u64 {
    match pick(u, 10) {
        0 => 0,
        1 => 1,
        2 => 300,
        3 => rs::T48_MAX,
        4 => rs::T48_MAX - 300,
        5 => 0xFFFF_FFFF,
        6 => 0x1_0000_0000,
        7 | 8 => 1_700_000_000 + u32_(u) as u64 % 100_000_000,
        _ => u64_(u) & rs::T48_MAX,
    }
}

/// Receiver clock for a message signed at `t` with `fudge`: offsets around
/// the window edges. Returns (receiver time, inside window, within 1 s of an edge).
pub fn gen_recv(u: &mut Unstructured, t: u64, fudge: u16) -> (u64, bool, bool) {
    let f = fudge as i128;
    let d: i128 = match pick(u, 14) {
        0 | 1 | 2 | 3 => 0,
        4 => f,
        5 => -f,
        6 => f + 1,
        7 => -(f + 1),
        8 => f - 1,
        9 => -(f - 1),
        10 => 1,
        11 => -1,
        12 => (u16_(u) as i128) - 0x8000,
        _ => {
            let x = (u64_(u) & rs::T48_MAX) as i128;
            if flag(u) { x } else { -x }
        }
    };
    let r = (t as i128 + d).clamp(0, rs::T48_MAX as i128) as u64;
    let diff = (r as i128 - t as i128).abs();
    (r, diff <= f, (diff - f).abs() <= 1)
}

pub fn t48(t: u64) -> Time48 {
    Time48::from_u64(t)
}

//------------ messages ----------------------------------------------------------------------

/// A valid message that carries no TSIG record (a generated record of type
/// TSIG is re-typed to a private-use type: a message that is about to be
/// signed never contains one).
pub fn gen_message(u: &mut Unstructured, max_records: usize) -> Vec<u8> {
    let o = gen::message::MsgOpts { max_records, plain_names: !chance(u, 40), ..Default::default() };
    let g = gen::message::message(u, o);
    let mut b = g.bytes;
    if let Some(w) = crate::refimpl::wire::walk(&b) {
        for r in &w.records {
            if r.rtype == rs::TSIG {
                let tp = r.rd_start - 10;
                b[tp..tp + 2].copy_from_slice(&0xFF46u16.to_be_bytes());
            }
        }
    }
    b
}

/// Cuts the additional section off.
pub fn strip_additional(m: &mut Vec<u8>) {
    if let Some(w) = crate::refimpl::wire::walk(m) {
        if let Some(r) = w.records.iter().find(|r| r.section == 3) {
            m.truncate(r.start);
            m[10] = 0;
            m[11] = 0;
        }
    }
}

/// Small fixed-shape message (for long sequences).
pub fn tiny_message(id: u16, flags: u16, fill: u8, n: usize) -> Vec<u8> {
    let mut a = crate::refimpl::wire::Asm::new(id, flags);
    a.question(&[b"zone".to_vec(), b"example".to_vec()], 252, 1);
    for i in 0..n {
        a.record(1, &[b"zone".to_vec(), b"example".to_vec()], 16, 1, 3600, &[3, fill, i as u8, fill]);
    }
    a.buf
}

pub fn set_id(m: &mut [u8], id: u16) {
    m[0..2].copy_from_slice(&id.to_be_bytes());
}
pub fn get_id(m: &[u8]) -> u16 {
    u16::from_be_bytes([m[0], m[1]])
}
pub fn hex(b: &[u8]) -> String {
    let mut s = String::new();
    for x in b.iter().take(300) {
        s.push_str(&format!("{x:02x}"));
    }
    if b.len() > 300 {
        s.push('…');
    }
    s
}

//------------ outcomes -----------------------------------------------------------------------

#[derive(Clone, Copy, Debug, PartialEq, Eq, Hash)]
pub enum O {
    Accept,
    /// server side: `Ok(None)` — the message is handed on as unsigned
    Unsigned,
    FormErr,
    BadKey,
    BadSig,
    BadTrunc,
    BadTime,
    SrvUnsigned,
    SrvBadKey,
    SrvBadSig,
    SrvBadTime,
    TooMany,
    Other,
}

pub fn o_server(code: TsigRcode) -> O {
    match code.to_int() {
        1 => O::FormErr,
        rs::BADSIG => O::BadSig,
        rs::BADKEY => O::BadKey,
        rs::BADTIME => O::BadTime,
        rs::BADTRUNC => O::BadTrunc,
        _ => O::Other,
    }
}

pub fn o_client(r: &Result<(), ValidationError>) -> O {
    match r {
        Ok(()) => O::Accept,
        Err(e) => match e {
            ValidationError::BadSig => O::BadSig,
            ValidationError::BadTrunc => O::BadTrunc,
            ValidationError::BadKey => O::BadKey,
            ValidationError::BadTime => O::BadTime,
            ValidationError::FormErr => O::FormErr,
            ValidationError::ServerUnsigned => O::SrvUnsigned,
            ValidationError::ServerBadKey => O::SrvBadKey,
            ValidationError::ServerBadSig => O::SrvBadSig,
            ValidationError::ServerBadTime { .. } => O::SrvBadTime,
            ValidationError::TooManyUnsigned => O::TooMany,
            _ => O::Other,
        },
    }
}

//------------ conformance of a library-signed message ----------------------------------------------

pub struct Want<'a> {
    pub what: &'static str,
    pub signer: &'a KeySpec,
    pub prior: Prior<'a>,
    pub between: &'a [Vec<u8>],
    pub timers_only: bool,
    pub time: u64,
    pub fudge: u16,
    pub error: u16,
    pub other: &'a [u8],
}

/// `pre` = octets handed to the signer, `signed` = what it produced.
/// Returns the MAC as it is on the wire.
pub fn conform(pre: &[u8], signed: &[u8], w: &Want) -> Result<Vec<u8>, Violation> {
    let what = w.what;
    let sp = match rs::split(signed) {
        Ok(s) => s,
        Err(e) => vfail!(format!("{what}:signed-message-malformed"), "{e}\npre    {}\nsigned {}", hex(pre), hex(signed)),
    };
    vensure!(sp.start == pre.len(), format!("{what}:tsig-not-appended-at-end"), "TSIG RR at {} but the unsigned message has {} octets", sp.start, pre.len());
    let mut head = pre.to_vec();
    let ar = u16::from_be_bytes([pre[10], pre[11]]).wrapping_add(1);
    head[10..12].copy_from_slice(&ar.to_be_bytes());
    vensure!(signed[..pre.len()] == head[..], format!("{what}:signing-changed-message-octets"), "pre    {}\nsigned {}", hex(pre), hex(signed));
    let rr = &sp.rr;
    vensure!(rr.owner == w.signer.rk.name, format!("{what}:tsig-owner-is-not-key-name"), "owner {} key {}", gen::name::show(&rr.owner), gen::name::show(&w.signer.rk.name));
    vensure!(rr.class == rs::ANY && rr.ttl == 0, format!("{what}:tsig-class-ttl"), "class {} ttl {}", rr.class, rr.ttl);
    vensure!(rr.alg == w.signer.rk.alg.labels(), format!("{what}:tsig-algorithm-name"), "{}", gen::name::show(&rr.alg));
    vensure!(rr.time == w.time && rr.fudge == w.fudge, format!("{what}:tsig-time-fudge"), "time {} fudge {} want {} {}", rr.time, rr.fudge, w.time, w.fudge);
    vensure!(rr.orig_id == get_id(pre), format!("{what}:tsig-original-id"), "{} vs {}", rr.orig_id, get_id(pre));
    vensure!(rr.error == w.error, format!("{what}:tsig-error-field"), "{} want {}", rr.error, w.error);
    vensure!(rr.other == w.other, format!("{what}:tsig-other-data"), "other {} want {}", hex(&rr.other), hex(w.other));
    vensure!(rr.mac.len() == w.signer.eff_sign(), format!("{what}:mac-length-is-not-signing-len"), "{} want {}", rr.mac.len(), w.signer.eff_sign());
    let full = rs::full_mac(&w.signer.rk, &w.prior, w.between, &sp.unsigned, rr, w.timers_only);
    vensure!(
        rr.mac[..] == full[..rr.mac.len()],
        format!("{what}:mac-differs-from-rfc8945"),
        "key {}\nmessage {}\nwire MAC {}\nRFC 8945 {}",
        w.signer.show(),
        hex(signed),
        hex(&rr.mac),
        hex(&full[..rr.mac.len()])
    );
    Ok(rr.mac.clone())
}

/// After a successful verification: the message reads as the pre-signing
/// octets (the library lowers ARCOUNT and restores the ID; the octets of
/// the TSIG RR stay behind the message end, as documented for
/// `Message::remove_last_additional`).
pub fn check_restored(what: &'static str, after: &[u8], pre: &[u8]) -> CaseResult {
    vensure!(after.len() >= pre.len() && after[..pre.len()] == pre[..], format!("{what}:verified-message-differs-from-pre-signing-octets"), "pre   {}\nafter {}", hex(pre), hex(after));
    let w = crate::refimpl::wire::walk(after);
    let ok = w.as_ref().map(|w| w.error.is_none() && w.end == pre.len()).unwrap_or(false);
    vensure!(ok, format!("{what}:verified-message-does-not-end-at-pre-signing-length"), "pre {} octets; after {}", pre.len(), hex(after));
    Ok(())
}
