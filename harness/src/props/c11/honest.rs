//! Sub-check `txn`: honest request/response transactions with generated
//! clocks (window edges included), truncation policies, key stores, buffer
//! limits; MAC conformance of every signed message incl. the signed BADTIME
//! error.
use super::common::*;
use super::refsig::{self as rs, Alg, Prior};
use crate::engine::*;
use crate::gen::*;
use crate::{vensure, vfail};
use arbitrary::Unstructured;
use domain::base::iana::Rcode;
use domain::base::message_builder::MessageBuilder;
use domain::base::Message;
use domain::tsig::{Algorithm, ClientTransaction, Key, KeyName, KeyStore, NewKeyError, ServerTransaction};
use std::collections::HashMap;
use std::sync::Arc;

pub struct SrvRes {
    pub out: O,
    pub after: Vec<u8>,
    /// signed answer (Ok) or push error (Err) when accepted and an answer was requested
    pub answer: Option<Result<Vec<u8>, bool>>,
    /// error response built by `ServerError::build_message`
    pub err_msg: Option<Result<Vec<u8>, String>>,
    pub compose_len: usize,
}

pub struct Ans<'a> {
    pub pre: &'a [u8],
    pub t: u64,
    pub fudge: Option<u16>,
    pub cap: usize,
}

/// Server side of a transaction, generic over the key store.
pub fn srv_txn<S>(store: &S, signed_req: &[u8], now: u64, ans: Option<&Ans>) -> Result<SrvRes, Violation>
where
    S: KeyStore,
    S::Key: AsRef<Key> + Clone,
{
    let mut msg = Message::from_octets(signed_req.to_vec()).map_err(|_| Violation::new("harness:short-message", "short"))?;
    let orig = Message::from_octets(signed_req.to_vec()).unwrap();
    match ServerTransaction::request(store, &mut msg, t48(now)) {
        Ok(None) => Ok(SrvRes { out: O::Unsigned, after: msg.as_slice().to_vec(), answer: None, err_msg: None, compose_len: 0 }),
        Ok(Some(txn)) => {
            let cl = txn.key().compose_len() as usize;
            let answer = ans.map(|a| {
                let mut b = builder_from(a.pre, a.cap);
                let r = match a.fudge {
                    Some(f) => txn.answer_with_fudge(&mut b, t48(a.t), f),
                    None => txn.answer(&mut b, t48(a.t)),
                };
                match r {
                    Ok(()) => Ok(b.as_slice().to_vec()),
                    // Err(true): the failed push changed the builder
                    Err(_) => Err(b.as_slice() != a.pre),
                }
            });
            Ok(SrvRes { out: O::Accept, after: msg.as_slice().to_vec(), answer, err_msg: None, compose_len: cl })
        }
        Err(e) => {
            let out = o_server(e.error());
            let em = match e.build_message(&orig, MessageBuilder::new_vec()) {
                Ok(b) => Ok(b.as_slice().to_vec()),
                Err(x) => Err(format!("{x}")),
            };
            Ok(SrvRes { out, after: msg.as_slice().to_vec(), answer: None, err_msg: Some(em), compose_len: 0 })
        }
    }
}

#[derive(Clone, Copy, Debug, PartialEq, Eq, Hash)]
pub enum StoreKind {
    Single,
    ArcSingle,
    Map,
    ArcMap,
}

/// Runs `srv_txn` against the chosen store flavour holding `keys`
/// (`keys[0]` is the one a Single store holds).
pub fn srv_txn_with(kind: StoreKind, keys: &[KeySpec], signed_req: &[u8], now: u64, ans: Option<&Ans>) -> Result<SrvRes, Violation> {
    match kind {
        StoreKind::Single => srv_txn(&keys[0].lib(), signed_req, now, ans),
        StoreKind::ArcSingle => srv_txn(&Arc::new(keys[0].lib()), signed_req, now, ans),
        StoreKind::Map => {
            let mut m: HashMap<(KeyName, Algorithm), Arc<Key>> = HashMap::new();
            for k in keys {
                m.insert((key_name(&k.rk.name), lib_alg(k.rk.alg)), Arc::new(k.lib()));
            }
            srv_txn(&m, signed_req, now, ans)
        }
        StoreKind::ArcMap => {
            let mut m: HashMap<(KeyName, Algorithm), Key> = HashMap::new();
            for k in keys {
                m.insert((key_name(&k.rk.name), lib_alg(k.rk.alg)), k.lib());
            }
            srv_txn(&Arc::new(m), signed_req, now, ans)
        }
    }
}

pub fn gen_store_kind(u: &mut Unstructured) -> StoreKind {
    [StoreKind::Single, StoreKind::ArcSingle, StoreKind::Map, StoreKind::ArcMap][pick(u, 4)]
}

/// Key::new must accept exactly the lengths RFC 8945 §5.2.2.1 allows.
fn check_key_bounds(u: &mut Unstructured, ctx: &mut Ctx) -> CaseResult {
    let alg = Alg::ALL[pick(u, 4)];
    let cand = [0usize, 1, 9, 10, alg.rfc_min_len() - 1, alg.rfc_min_len(), alg.out_len(), alg.out_len() + 1, 65, 1000, usize::MAX];
    let a = cand[pick(u, cand.len())];
    let b = cand[pick(u, cand.len())];
    let ok = |x: usize| x >= alg.rfc_min_len() && x <= alg.out_len();
    let r = Key::new(lib_alg(alg), b"secret", key_name(&vec![b"k".to_vec()]), Some(a), Some(b));
    match (&r, ok(a), ok(b)) {
        (Ok(k), true, true) => {
            vensure!(k.min_mac_len() == a && k.signing_len() == b && k.native_len() == alg.out_len(), "key-new:lengths-not-kept", "{a} {b}");
        }
        (Err(NewKeyError::BadMinMacLen), false, _) => {}
        (Err(NewKeyError::BadSigningLen), true, false) => {}
        _ => vfail!("key-new:length-bounds", "{} min {a} sign {b}: {:?}", alg.text(), r.as_ref().map(|_| ()).map_err(|e| *e)),
    }
    if !ok(a) || !ok(b) {
        ctx.class("key-new-out-of-bounds-rejected");
    }
    Ok(())
}

pub fn run_txn(data: &[u8], ctx: &mut Ctx) -> CaseResult {
    let mut u = Unstructured::new(data);
    let u = &mut u;
    check_key_bounds(u, ctx)?;
    // control choices first (bulky content last, so short inputs still vary them)
    let kind = gen_store_kind(u);
    let cap_mode = pick(u, 8); // 5: one short (request), 6: one short (answer), 7: exact, else unlimited
    let fudge_req = if chance(u, 60) { None } else { Some(gen_fudge(u)) };
    let f_req = fudge_req.unwrap_or(300);
    let fudge_ans = if chance(u, 60) { None } else { Some(gen_fudge(u)) };
    let f_ans = fudge_ans.unwrap_or(300);
    let t_sign = gen_time(u);
    let (t_srv, in1, edge1) = gen_recv(u, t_sign, f_req);
    let t_ans = if flag(u) { t_srv } else { gen_time(u) };
    let (t_cli, in2, edge2) = gen_recv(u, t_ans, f_ans);
    let new_id_req = if chance(u, 60) { Some(u16_(u)) } else { None };
    let new_id_resp = if chance(u, 60) { Some(u16_(u)) } else { None };
    let kc = gen_keyspec(u);
    let ks = peer_of(u, &kc);
    // other keys in the store (map flavours)
    let mut keys = vec![ks.clone()];
    if matches!(kind, StoreKind::Map | StoreKind::ArcMap) {
        for _ in 0..pick(u, 3) {
            let o = gen_keyspec(u);
            if !(rs::names_equal(&o.rk.name, &ks.rk.name) && o.rk.alg == ks.rk.alg) {
                keys.push(o);
            }
        }
    }
    let maxrec = if ctx.thorough { 12 } else { 5 };
    let req = gen_message(u, maxrec);
    let mut resp = gen_message(u, maxrec);
    if flag(u) {
        set_id(&mut resp, get_id(&req));
    }
    let tsig_len = |k: &KeySpec| rs::name_wire(&k.rk.name).len() + 10 + rs::name_wire(&k.rk.alg.labels()).len() + 16 + k.eff_sign();

    ctx.sample(|| format!("txn client[{}] server[{}] store {kind:?} req {}B resp {}B t_sign {t_sign} fudge {fudge_req:?} t_srv {t_srv} t_ans {t_ans} fudge {fudge_ans:?} t_cli {t_cli}", kc.show(), ks.show(), req.len(), resp.len()));
    ctx.class(format!("alg-{}", kc.rk.alg.text()));
    if kc.truncating() || ks.truncating() {
        ctx.class("truncation");
    }
    if edge1 || edge2 {
        ctx.class("clock-within-1s-of-window-edge");
    }
    if kc.truncating() || ks.truncating() || edge1 || edge2 {
        ctx.nontrivial(&(&kc, &ks, &req, &resp, t_sign, t_srv, t_ans, t_cli, f_req, f_ans));
    }

    //--- client signs the request
    let kcl = kc.lib();
    vensure!(kcl.compose_len() as usize == tsig_len(&kc), "key:compose_len-wrong", "compose_len {} but the TSIG RR takes {}", kcl.compose_len(), tsig_len(&kc));
    let cap_req = match cap_mode {
        5 => req.len() + tsig_len(&kc) - 1,
        7 => req.len() + tsig_len(&kc),
        _ => usize::MAX,
    };
    let mut b = builder_from(&req, cap_req);
    let r = match fudge_req {
        Some(f) => ClientTransaction::request_with_fudge(&kcl, &mut b, t48(t_sign), f),
        None => ClientTransaction::request(&kcl, &mut b, t48(t_sign)),
    };
    let client = match r {
        Ok(c) => {
            vensure!(cap_mode != 5, "request:tsig-pushed-beyond-capacity", "cap {cap_req} len {}", b.as_slice().len());
            c
        }
        Err(_) => {
            vensure!(cap_mode == 5, "request:push-failed-with-room", "cap {cap_req} need {}", req.len() + tsig_len(&kc));
            vensure!(b.as_slice() == &req[..], "request:failed-signing-changed-message", "{} vs {}", hex(b.as_slice()), hex(&req));
            ctx.class("tsig-does-not-fit-request");
            return Ok(());
        }
    };
    if cap_mode == 7 {
        ctx.class("tsig-fits-exactly");
    }
    let signed_req = b.as_slice().to_vec();
    let req_mac = conform(&req, &signed_req, &Want { what: "request", signer: &kc, prior: Prior::None, between: &[], timers_only: false, time: t_sign, fudge: f_req, error: 0, other: &[] })?;

    //--- in transit: the ID may be rewritten (forwarder); original ID is in the RR
    let mut wire_req = signed_req.clone();
    if let Some(id) = new_id_req {
        set_id(&mut wire_req, id);
        ctx.class("request-id-rewritten");
    }

    //--- server
    let cap_ans = match cap_mode {
        6 => resp.len() + tsig_len(&ks) - 1,
        7 => resp.len() + tsig_len(&ks),
        _ => usize::MAX,
    };
    let ans = Ans { pre: &resp, t: t_ans, fudge: fudge_ans, cap: cap_ans };
    let sr = srv_txn_with(kind, &keys, &wire_req, t_srv, Some(&ans))?;
    let trunc_ok = kc.eff_sign() >= ks.eff_min();
    let want1 = if !trunc_ok { O::BadTrunc } else if !in1 { O::BadTime } else { O::Accept };
    vensure!(
        sr.out == want1,
        format!("server-request:honest-request-{:?}-expected-{:?}", sr.out, want1),
        "client key {} server key {} t_sign {t_sign} fudge {f_req} server clock {t_srv}\nrequest {}",
        kc.show(),
        ks.show(),
        hex(&wire_req)
    );
    match want1 {
        O::BadTrunc => {
            ctx.class("policy-badtrunc");
            check_unsigned_error("server-request", &sr, &wire_req, rs::BADTRUNC)?;
            // the client must not accept the unsigned error
            if let Some(Ok(em)) = &sr.err_msg {
                let mut m = Message::from_octets(em.clone()).unwrap();
                let r = client.answer(&mut m, t48(t_srv));
                vensure!(r.is_err(), "client-answer:unsigned-error-accepted", "{}", hex(em));
            }
            return Ok(());
        }
        O::BadTime => {
            ctx.class("server-badtime");
            let em = match &sr.err_msg {
                Some(Ok(m)) => m.clone(),
                other => vfail!("server-request:badtime-error-not-built", "{:?}", other),
            };
            // signed error: request MAC | response | variables with error 18 and 6 octets of server time
            let sp = match rs::split(&em) {
                Ok(s) => s,
                Err(e) => vfail!("badtime-response:signed-message-malformed", "{e} {}", hex(&em)),
            };
            let pre = {
                let mut p = em[..sp.start].to_vec();
                let ar = u16::from_be_bytes([p[10], p[11]]).wrapping_sub(1);
                p[10..12].copy_from_slice(&ar.to_be_bytes());
                p
            };
            let h = crate::refimpl::wire::header(&em).unwrap();
            vensure!(h.rcode() == 9 && h.qr() && h.id == get_id(&wire_req), "badtime-response:header", "rcode {} qr {} id {}", h.rcode(), h.qr(), h.id);
            conform(&pre, &em, &Want { what: "badtime-response", signer: &ks, prior: Prior::Mac(&req_mac), between: &[], timers_only: false, time: t_sign, fudge: f_req, error: rs::BADTIME, other: &rs::t48(t_srv) })?;
            // the client sees the server's complaint, with both clocks
            let mut m = Message::from_octets(em.clone()).unwrap();
            // ... provided its own truncation policy admits the server's MAC
            let r = client.answer(&mut m, t48(t_cli));
            if ks.eff_sign() >= kc.eff_min() {
                match r {
                    Err(domain::tsig::ValidationError::ServerBadTime { client: c, server: s }) => {
                        vensure!(u64::from(c) == t_sign && u64::from(s) == t_srv, "client-answer:badtime-clocks-wrong", "client {} server {} want {t_sign} {t_srv}", u64::from(c), u64::from(s));
                    }
                    other => vfail!("client-answer:signed-badtime-response-not-recognised", "got {:?}", other),
                }
            }
            // and a BADTIME response signed by the reference is understood the same way
            let (ref_em, _) = rs::sign(&ks.rk, &ks.rk.name, &Prior::Mac(&req_mac), &[], &pre, &rs::SignParams { time: t_sign, fudge: f_req, error: rs::BADTIME, other: rs::t48(t_srv).to_vec(), mac_len: ks.eff_sign() }, false);
            let mut m = Message::from_octets(ref_em.clone()).unwrap();
            let r = client.answer(&mut m, t48(t_cli));
            if ks.eff_sign() >= kc.eff_min() {
                vensure!(matches!(r, Err(domain::tsig::ValidationError::ServerBadTime { .. })), "client-answer:rfc-signed-badtime-response-rejected", "got {:?} for {}", r, hex(&ref_em));
            }
            // The complaint is only to be believed when it is authentic (§5.2.3: it is
            // signed so that it can be): the server's own error response with one bit
            // of the MAC, of the server time or of the header changed in transit is a
            // message with a wrong MAC like any other.
            if ks.eff_sign() >= kc.eff_min() {
                let lay = sp.rr.layout();
                let spans = [(sp.start + lay.mac.0, sp.start + lay.mac.1), (sp.start + lay.other.0, sp.start + lay.other.1), (2, 4), (sp.start + lay.time.0, sp.start + lay.time.1)];
                let (lo, hi) = spans[pick(u, 4)];
                let mut alt = em.clone();
                alt[lo + pick(u, hi - lo)] ^= 1u8 << pick(u, 8);
                let mut m = Message::from_octets(alt.clone()).unwrap();
                let got = o_client(&client.answer(&mut m, t48(t_cli)));
                vensure!(got == O::BadSig, format!("client-answer:badtime-response-altered-in-transit-{:?}-expected-BadSig", got), "server's response {}
altered           {}", hex(&em), hex(&alt));
                ctx.class("badtime-response-altered-in-transit-rejected");
            }
            return Ok(());
        }
        _ => {}
    }
    ctx.class("request-verified");
    check_restored("server-request", &sr.after, &req)?;

    //--- server answers
    let signed_resp = match sr.answer {
        Some(Ok(m)) => {
            vensure!(cap_mode != 6, "answer:tsig-pushed-beyond-capacity", "cap {cap_ans}");
            m
        }
        Some(Err(true)) => vfail!("answer:failed-signing-changed-message", "cap {cap_ans}"),
        _ => {
            vensure!(cap_mode == 6, "answer:push-failed-with-room", "cap {cap_ans} need {}", resp.len() + tsig_len(&ks));
            ctx.class("tsig-does-not-fit-answer");
            return Ok(());
        }
    };
    vensure!(sr.compose_len == tsig_len(&ks), "key:compose_len-wrong", "{} vs {}", sr.compose_len, tsig_len(&ks));
    conform(&resp, &signed_resp, &Want { what: "answer", signer: &ks, prior: Prior::Mac(&req_mac), between: &[], timers_only: false, time: t_ans, fudge: f_ans, error: 0, other: &[] })?;
    let mut wire_resp = signed_resp.clone();
    if let Some(id) = new_id_resp {
        set_id(&mut wire_resp, id);
    }

    //--- client verifies
    let mut m = Message::from_octets(wire_resp.clone()).unwrap();
    let r = client.answer(&mut m, t48(t_cli));
    let got = o_client(&r);
    let rcode_notauth = crate::refimpl::wire::header(&resp).unwrap().rcode() == 9;
    let want2 = if ks.eff_sign() < kc.eff_min() { O::BadTrunc } else if !in2 { O::BadTime } else { O::Accept };
    let _ = rcode_notauth;
    vensure!(
        got == want2,
        format!("client-answer:honest-answer-{:?}-expected-{:?}", got, want2),
        "client key {} server key {} t_ans {t_ans} fudge {f_ans} client clock {t_cli}\nanswer {}",
        kc.show(),
        ks.show(),
        hex(&wire_resp)
    );
    if want2 == O::Accept {
        ctx.class("answer-verified");
        check_restored("client-answer", m.as_slice(), &resp)?;
        // the transaction stays usable: the same answer verifies again
        let mut m2 = Message::from_octets(wire_resp.clone()).unwrap();
        vensure!(client.answer(&mut m2, t48(t_cli)).is_ok(), "client-answer:second-verification-fails", "");
    } else if want2 == O::BadTime {
        ctx.class("client-badtime");
    }
    // an unsigned answer is never accepted
    let mut m3 = Message::from_octets(resp.clone()).unwrap();
    let r3 = client.answer(&mut m3, t48(t_cli));
    vensure!(o_client(&r3) == O::SrvUnsigned, "client-answer:unsigned-answer-not-ServerUnsigned", "{:?}", r3);
    // an unsigned request passes as unsigned and untouched
    let ur = srv_txn_with(kind, &keys, &req, t_srv, None)?;
    vensure!(ur.out == O::Unsigned && ur.after == req, "server-request:unsigned-request", "{:?}", ur.out);
    let _ = Rcode::NOTAUTH;
    Ok(())
}

/// RFC 8945 §5.3.2: unsigned error = NOTAUTH, TSIG with empty MAC and the error code.
pub fn check_unsigned_error(what: &'static str, sr: &SrvRes, request: &[u8], code: u16) -> CaseResult {
    let em = match &sr.err_msg {
        Some(Ok(m)) => m,
        other => vfail!(format!("{what}:error-response-not-built"), "{:?}", other),
    };
    let sp = match rs::split(em) {
        Ok(s) => s,
        Err(e) => vfail!(format!("{what}:error-response-malformed"), "{e} {}", hex(em)),
    };
    let h = crate::refimpl::wire::header(em).unwrap();
    vensure!(h.rcode() == 9 && h.qr() && h.id == get_id(request), format!("{what}:error-response-header"), "rcode {} qr {} id {}", h.rcode(), h.qr(), h.id);
    vensure!(sp.rr.error == code && sp.rr.mac.is_empty(), format!("{what}:error-response-tsig"), "error {} mac {}B want error {code} and empty MAC", sp.rr.error, sp.rr.mac.len());
    Ok(())
}
