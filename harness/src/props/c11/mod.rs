//! C11 — TSIG: honest exchanges verify, tampering is rejected, MACs follow RFC 8945.
//!
//! Sub-checks
//! * `txn`      request/answer transactions between the library's client and
//!              server types with generated keys (all algorithms, truncation
//!              policies, key stores), message contents, clocks around the
//!              fudge window, buffer limits; every MAC is compared with the
//!              independent reference in `refsig` (incl. the signed BADTIME
//!              error); verified messages must read as their pre-signing octets.
//! * `seq`      multi-message responses: `ServerSequence` → `ClientSequence`
//!              with the running digest checked message by message, and
//!              reference-signed patterns with unsigned messages (runs of 98,
//!              99, 100, 101), replayed / altered / dropped messages.
//! * `tamper`   one alteration of a conformant signed message (bit flip per
//!              field class incl. each TSIG RR field, MAC length changes, TSIG
//!              moved / duplicated / removed / in another section, another
//!              key's name or algorithm, changed ID) → the outcome RFC 8945
//!              assigns, on the server, the client transaction and the client
//!              sequence (first and later message).
//! * `wrappers` `net::server::middleware::tsig` around a mock service,
//!              `net::client::tsig::Connection` over a mock upstream (which
//!              composes the request several times, like a retransmitting
//!              transport) and over the real `net::client::dgram::Connection`
//!              on a fake network that loses datagrams.
//! * `keygen`   keys made by `Key::generate`: reference keyed with the exported
//!              secret; signing length / minimum MAC length as requested, as
//!              client, server and client sequence; twin made by `Key::new`.
//!
//! `tamper` applies every alteration both to ordinary answers and (client
//! sides, 1 case in 4) to signed BADTIME error responses, whose untampered
//! outcome is `ServerBadTime` with the signed clocks; `txn` alters one bit of
//! the server's own BADTIME response.
use crate::engine::*;
use std::collections::BTreeMap;

pub mod common;
pub mod honest;
pub mod keygen;
pub mod refsig;
pub mod seq;
pub mod tamper;
pub mod wrappers;

const NEEDED: &[&str] = &[
    "request-verified",
    "answer-verified",
    "truncation",
    "clock-within-1s-of-window-edge",
    "server-badtime",
    "client-badtime",
    "policy-badtrunc",
    "tsig-does-not-fit-request",
    "tsig-fits-exactly",
    "lib-signed-sequence-verified",
    "lib-signed-sequence-2+",
    "rfc-signed-sequence-verified",
    "sequence-with-unsigned",
    "signed-after-99-unsigned-verified",
    "100th-unsigned-rejected",
    "last-unsigned-rejected-by-done",
    "fault-replay-signed",
    "altered-unsigned-detected-by-next-mac",
    "outcome-exactly-predicted",
    "tampered-but-legitimately-accepted",
    "tsig-hidden-detected-by-next-mac",
    "tamper/flip-message-id",
    "tamper/flip-header-flags",
    "tamper/flip-body-rdata",
    "tamper/tsig-owner-content-flip",
    "tamper/tsig-owner-case-flip",
    "tamper/tsig-type-flip",
    "tamper/tsig-class-flip",
    "tamper/tsig-ttl-flip",
    "tamper/tsig-rdlength-flip",
    "tamper/tsig-algorithm-content-flip",
    "tamper/tsig-time-flip",
    "tamper/tsig-fudge-flip",
    "tamper/tsig-mac-size-flip",
    "tamper/tsig-mac-flip",
    "tamper/tsig-original-id-flip",
    "tamper/tsig-error-flip",
    "tamper/tsig-other-len-flip",
    "tamper/mac-shorter-than-rfc-minimum",
    "tamper/mac-shorter-than-local-minimum",
    "tamper/mac-truncated-to-allowed-length",
    "tamper/mac-longer-than-hash-output",
    "tamper/record-after-tsig",
    "tamper/tsig-swapped-with-previous-record",
    "tamper/tsig-duplicated",
    "tamper/tsig-removed",
    "tamper/tsig-in-other-section",
    "tamper/other-keys-name",
    "tamper/other-algorithm-of-same-name",
    "tamper/unknown-algorithm",
    "tamper/algorithm-name-with-extra-labels",
    "tamper/algorithm-label-with-valid-prefix",
    "unsigned-after-rejected-first-still-rejected",
    "genuine-answer-after-rejected-answer-verified",
    "second-rejected-message-before-first-answer",
    "sequence-answer-after-failed-push",
    "client-wrapper/answer-to-last-of-several-compositions",
    "client-wrapper/answer-to-earlier-composition",
    "dgram-transport/verified-after-retransmission",
    "dgram-transport/rejected",
    "tamper/other-data-of-other-length-added",
    "client-wrapper/continued-after-rejection",
    "client-wrapper/signed-message-after-rejection-rejected",
    "tamper/signed-badtime-response",
    "tamper/signed-badtime-response-exact-rejection",
    "tampered-badtime-response-legitimately-reported",
    "genuine-badtime-response-after-rejected-answer-reported",
    "badtime-response-altered-in-transit-rejected",
    "keygen/min-and-signing-length-differ",
    "keygen/request-of-generated-key-conforms",
    "keygen/answer-of-generated-key-conforms",
    "keygen/sequence-verified-by-generated-key",
    "keygen/short-mac-refused-by-generated-key",
    "keygen/truncated-mac-accepted-by-generated-key",
    "keygen/exchange-with-twin-verified",
    "keygen/out-of-bounds-rejected",
    "middleware-exchange-verified",
    "client-wrapper/verified",
    "client-wrapper/rejected",
];

fn health(c: &BTreeMap<String, u64>, _thorough: bool) -> Result<(), String> {
    for k in NEEDED {
        if c.get(*k).copied().unwrap_or(0) == 0 {
            return Err(format!("class {k} is empty: the check would be vacuous there"));
        }
    }
    // after a rejection a client sequence may go on (and then has to accept
    // the genuine first answer) or fail for good: either way the case ran
    for (a, b) in [("genuine-first-after-rejected-first-verified", "sequence-fails-for-good-after-rejection"), ("history-continues-after-rejected-first", "sequence-fails-for-good-after-rejection")] {
        if c.get(a).copied().unwrap_or(0) == 0 && c.get(b).copied().unwrap_or(0) == 0 {
            return Err(format!("classes {a} and {b} are both empty: the check would be vacuous there"));
        }
    }
    for a in ["hmac-sha1", "hmac-sha256", "hmac-sha384", "hmac-sha512"] {
        if c.get(&format!("alg-{a}")).copied().unwrap_or(0) == 0 {
            return Err(format!("algorithm {a} never used"));
        }
    }
    for side in ["Server", "CliTxn", "SeqFirst", "SeqSub"] {
        if !c.keys().any(|k| k.starts_with(&format!("{side}/"))) {
            return Err(format!("no tampering delivered to {side}"));
        }
    }
    for side in ["CliTxn", "SeqFirst", "SeqSub"] {
        if c.get(&format!("badtime-response/{side}")).copied().unwrap_or(0) == 0 {
            return Err(format!("no tampered signed BADTIME response delivered to {side}"));
        }
    }
    Ok(())
}

pub fn prop() -> Option<Prop> {
    Some(Prop {
        id: "C11",
        rule: "case = keys (algorithm, secret, name in two cases, min_mac_len, signing_len per side; made by Key::new or Key::generate) + messages + clocks (+ signed/unsigned pattern, + one tampering); non-trivial = a truncating key policy is involved, or a sequence contains at least one unsigned message, or a receiver clock is within 1 s of a fudge-window edge, or the tampering hits a TSIG RR field / the TSIG position (not just a payload bit); distinct by the decoded case",
        assumptions: &[
            "independent reference props/c11/refsig.rs: HMAC built on ring::digest (hash primitive shared with the library, HMAC construction not), RFC 8945 digest layout; cross-checked against RFC 4231 / RFC 2202 vectors, the signed exchange in test-data/server/tsig.rpl and vectors from a separate Python implementation",
            "expected error codes are RFC 8945 sections 5.2-5.3 as read by the harness author (FORMERR for misplaced/duplicate/uninterpretable TSIG and MAC sizes outside 5.2.2.1, BADKEY, BADSIG, BADTRUNC, BADTIME signed with 6 octets of server time)",
            "after verification the message must read as the pre-signing octets (prefix equality + record walk ends there); the TSIG octets stay behind the message end as documented for Message::remove_last_additional",
            "sub-check wrappers uses the wall clock through Time48::now() inside the library; the mock peers echo the time they see, so results only assume a case takes less than the 300 s fudge",
            "messages enter the signing calls through a custom Composer target pre-loaded with generated message octets (AdditionalBuilder has no public constructor from octets)",
        ],
        subchecks: vec![
            SubCheck::new("txn", honest::run_txn, 200_000, 2_500_000, 1200),
            SubCheck::new("seq", seq::run_seq, 100_000, 600_000, 1200),
            SubCheck::new("tamper", tamper::run_tamper, 500_000, 6_000_000, 1000),
            SubCheck::new("wrappers", wrappers::run_wrappers, 60_000, 600_000, 600),
            SubCheck::new("keygen", keygen::run_keygen, 40_000, 400_000, 500),
        ],
        health: Some(health),
        extra: None,
    })
}
