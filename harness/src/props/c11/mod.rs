//! C11 — stub (not built yet).
use crate::engine::*;

pub fn prop() -> Option<Prop> {
    None
}
