//! Sub-check `tamper`: one alteration of an RFC-conformant signed message
//! (request to a server, answer to a client transaction, first or later
//! message of a client sequence) and the outcome RFC 8945 assigns to it.
use super::common::*;
use super::honest::{check_unsigned_error, srv_txn_with, Ans, StoreKind};
use super::refsig::{self as rs, Alg, Labels, Prior, RefKey, RefSeq, SignParams, TsigRr};
use crate::engine::*;
use crate::gen::*;
use crate::refimpl::wire;
use crate::{vensure, vfail};
use arbitrary::Unstructured;
use domain::base::Message;
use domain::tsig::{ClientSequence, ClientTransaction};

#[derive(Clone, Copy, Debug, PartialEq, Eq, Hash)]
pub enum Side {
    Server,
    CliTxn,
    SeqFirst,
    SeqSub,
}

/// Per-octet role inside an unsigned message, from frame walking only.
#[derive(Clone, Copy, Debug, PartialEq, Eq)]
enum Role {
    Header,
    NameFrame,
    NameContent,
    Type,
    Fixed,
    RdLen,
    Rdata,
}

fn mark_name(msg: &[u8], mut p: usize, roles: &mut [Role]) -> Option<usize> {
    loop {
        let b = *msg.get(p)?;
        match b & 0xC0 {
            0 => {
                roles[p] = Role::NameFrame;
                if b == 0 {
                    return Some(p + 1);
                }
                for q in p + 1..p + 1 + b as usize {
                    *roles.get_mut(q)? = Role::NameContent;
                }
                p += 1 + b as usize;
            }
            0xC0 => {
                roles[p] = Role::NameFrame;
                *roles.get_mut(p + 1)? = Role::NameFrame;
                return Some(p + 2);
            }
            _ => return None,
        }
    }
}

fn roles_of(msg: &[u8]) -> Option<Vec<Role>> {
    let h = wire::header(msg)?;
    let mut r = vec![Role::Header; msg.len()];
    let mut p = 12;
    for _ in 0..h.counts[0] {
        p = mark_name(msg, p, &mut r)?;
        for q in p..p + 4 {
            *r.get_mut(q)? = Role::Fixed;
        }
        p += 4;
    }
    let n: usize = h.counts[1..].iter().map(|c| *c as usize).sum();
    for _ in 0..n {
        p = mark_name(msg, p, &mut r)?;
        if p + 10 > msg.len() {
            return None;
        }
        r[p] = Role::Type;
        r[p + 1] = Role::Type;
        for q in p + 2..p + 8 {
            r[q] = Role::Fixed;
        }
        r[p + 8] = Role::RdLen;
        r[p + 9] = Role::RdLen;
        let l = u16::from_be_bytes([msg[p + 8], msg[p + 9]]) as usize;
        for q in p + 10..p + 10 + l {
            *r.get_mut(q)? = Role::Rdata;
        }
        p += 10 + l;
    }
    if p == msg.len() {
        Some(r)
    } else {
        None
    }
}

struct Env<'a> {
    side: Side,
    /// (name, alg) pairs the server store knows, with the secret
    store: &'a [KeySpec],
    /// the key the receiver uses for this exchange
    recv: &'a KeySpec,
    signer: &'a RefKey,
    prior: Prior<'a>,
    between: &'a [Vec<u8>],
    timers_only: bool,
    /// what the receiver has to say to the message as signed: `Accept`, or
    /// `SrvBadTime` when the message is a signed BADTIME error response
    base: O,
}

struct Expect {
    allowed: Vec<O>,
    label: &'static str,
    tsig_field: bool,
}

fn miss(side: Side) -> O {
    match side {
        Side::Server => O::Unsigned,
        // in the middle of a sequence a message without TSIG is counted as
        // unsigned (the follow-up in run_tamper checks the next MAC then)
        _ => O::SrvUnsigned,
    }
}

fn any_reject(side: Side) -> Vec<O> {
    vec![O::FormErr, O::BadSig, O::BadKey, O::BadTrunc, miss(side)]
}

/// What a server has to answer to a wrong MAC of `mac_len` octets that names (name, alg).
fn srv_wrong_mac(store: &[KeySpec], name: &Labels, alg: Alg, mac_len: usize) -> O {
    match store.iter().find(|k| rs::names_equal(&k.rk.name, name) && k.rk.alg == alg) {
        None => O::BadKey,
        Some(_) if mac_len > alg.out_len() || mac_len < alg.rfc_min_len() => O::FormErr,
        Some(k) if mac_len < k.eff_min() => O::BadTrunc,
        Some(_) => O::BadSig,
    }
}

fn rebuild(pre_part: &[u8], rr: &TsigRr) -> Vec<u8> {
    // pre_part = signed[..tsig_start] (ARCOUNT already counts the TSIG)
    let mut v = pre_part.to_vec();
    v.extend_from_slice(&rr.to_wire());
    v
}

fn bump(m: &mut [u8], idx: usize, d: i32) {
    let i = 4 + 2 * idx;
    let v = (u16::from_be_bytes([m[i], m[i + 1]]) as i32 + d) as u16;
    m[i..i + 2].copy_from_slice(&v.to_be_bytes());
}

/// Applies one tampering and says what RFC 8945 allows as the outcome.
fn tamper(u: &mut Unstructured, kind: usize, signed: &[u8], env: &Env) -> Option<(Vec<u8>, Expect)> {
    let (m, mut e) = tamper_inner(u, kind, signed, env)?;
    if env.base != O::Accept {
        // The message as signed is not "accepted" but reported as the
        // server's (authenticated) complaint: an alteration the RFC lets
        // pass leaves that outcome as it is.
        for o in e.allowed.iter_mut() {
            if *o == O::Accept {
                *o = env.base;
            }
        }
    }
    if env.timers_only && env.base != O::Accept && matches!(e.label, "tsig-error-flip" | "tsig-class-flip" | "tsig-ttl-flip" | "other-data-added" | "other-data-of-other-length-added" | "tsig-other-data-flip") {
        e.allowed.push(env.base);
    }
    if env.timers_only && matches!(e.label, "tsig-error-flip" | "tsig-class-flip" | "tsig-ttl-flip" | "other-data-added" | "other-data-of-other-length-added" | "tsig-other-data-flip") {
        // RFC 8945 §5.3.1: from the second message of a sequence on only the
        // TSIG timers are digested; class, TTL, error and other data of the
        // TSIG RR are not covered by the MAC, so a conformant verifier may
        // accept the message.
        e.allowed.push(O::Accept);
    }
    Some((m, e))
}

fn tamper_inner(u: &mut Unstructured, kind: usize, signed: &[u8], env: &Env) -> Option<(Vec<u8>, Expect)> {
    let sp = rs::split(signed).ok()?;
    let start = sp.start;
    let lay = sp.rr.layout();
    let side = env.side;
    let mut m = signed.to_vec();
    let bit = if chance(u, 48) { 0x20 } else { 1u8 << pick(u, 8) };
    let ex = |allowed: Vec<O>, label: &'static str, tsig_field: bool| Expect { allowed, label, tsig_field };
    let h = wire::header(signed)?;
    match kind {
        0 => {
            m[pick(u, 2)] ^= bit;
            Some((m, ex(vec![O::Accept], "flip-message-id", false)))
        }
        1 => {
            m[2 + pick(u, 2)] ^= bit;
            Some((m, ex(vec![O::BadSig], "flip-header-flags", false)))
        }
        2 => {
            m[4 + pick(u, 8)] ^= bit;
            Some((m, ex(any_reject(side), "flip-header-counts", false)))
        }
        3 => {
            if start <= 12 {
                return None;
            }
            let mut unsigned = signed[..start].to_vec();
            bump(&mut unsigned, 3, -1);
            let roles = roles_of(&unsigned)?;
            let p = 12 + pick(u, start - 12);
            m[p] ^= bit;
            let e = match roles[p] {
                Role::NameFrame => ex(any_reject(side), "flip-body-name-framing", false),
                Role::RdLen => ex(any_reject(side), "flip-body-rdlength", false),
                Role::Type => ex(vec![O::BadSig, O::FormErr], "flip-body-type", false),
                Role::NameContent => ex(vec![O::BadSig], "flip-body-name-content", false),
                Role::Fixed => ex(vec![O::BadSig], "flip-body-class-ttl-qtype", false),
                Role::Rdata => {
                    // An owner or question name may be compressed against a
                    // name inside some RDATA; a flip there can make that
                    // name unreadable, which is a format error before any
                    // MAC is looked at.
                    let into_rdata = (12..start.min(roles.len())).any(|q| {
                        roles[q] == Role::NameFrame && unsigned[q] & 0xC0 == 0xC0 && q + 1 < unsigned.len() && roles[q + 1] == Role::NameFrame && {
                            let t = (((unsigned[q] & 0x3F) as usize) << 8) | unsigned[q + 1] as usize;
                            roles.get(t).map(|r| *r == Role::Rdata).unwrap_or(true)
                        }
                    });
                    if into_rdata {
                        ex(vec![O::BadSig, O::FormErr], "flip-body-rdata-with-pointers-into-rdata", false)
                    } else {
                        ex(vec![O::BadSig], "flip-body-rdata", false)
                    }
                }
                Role::Header => return None,
            };
            Some((m, e))
        }
        4 => {
            // a TSIG RR field
            let fields: [((usize, usize), u8); 14] = [
                (lay.owner, 0),
                (lay.rtype, 1),
                (lay.class, 2),
                (lay.ttl, 3),
                (lay.rdlen, 4),
                (lay.alg, 5),
                (lay.time, 6),
                (lay.fudge, 7),
                (lay.mac_size, 8),
                (lay.mac, 9),
                (lay.orig_id, 10),
                (lay.error, 11),
                (lay.other_len, 12),
                (lay.other, 13),
            ];
            let (span, f) = fields[pick(u, 14)];
            if span.1 == span.0 {
                return None;
            }
            let p = start + span.0 + pick(u, span.1 - span.0);
            let old = m[p];
            m[p] ^= bit;
            let case_only = old.is_ascii_alphabetic() && bit == 0x20;
            // role of the octet inside a name
            let name_role = |labels: &Labels, off: usize| -> Role {
                let mut q = 0;
                for l in labels {
                    if off == q {
                        return Role::NameFrame;
                    }
                    if off <= q + l.len() {
                        return Role::NameContent;
                    }
                    q += 1 + l.len();
                }
                Role::NameFrame
            };
            let e = match f {
                0 => match name_role(&sp.rr.owner, p - start - span.0) {
                    Role::NameContent if case_only => ex(vec![O::Accept], "tsig-owner-case-flip", true),
                    Role::NameContent => {
                        let new = rs::split(&m).ok()?.rr.owner;
                        let alg = Alg::from_labels(&sp.rr.alg)?;
                        match side {
                            Side::Server => ex(vec![srv_wrong_mac(env.store, &new, alg, sp.rr.mac.len())], "tsig-owner-content-flip", true),
                            _ => ex(vec![O::BadKey], "tsig-owner-content-flip", true),
                        }
                    }
                    _ => ex(any_reject(side), "tsig-owner-framing-flip", true),
                },
                1 => ex(vec![miss(side)], "tsig-type-flip", true),
                2 => ex(vec![O::BadSig, O::FormErr], "tsig-class-flip", true),
                3 => ex(vec![O::BadSig, O::FormErr], "tsig-ttl-flip", true),
                4 => ex(vec![O::FormErr], "tsig-rdlength-flip", true),
                5 => match name_role(&sp.rr.alg, p - start - span.0) {
                    Role::NameContent if case_only => ex(vec![O::Accept, O::BadKey], "tsig-algorithm-case-flip", true),
                    Role::NameContent => ex(vec![O::BadKey], "tsig-algorithm-content-flip", true),
                    _ => ex(any_reject(side), "tsig-algorithm-framing-flip", true),
                },
                6 => ex(vec![O::BadSig], "tsig-time-flip", true),
                7 => ex(vec![O::BadSig], "tsig-fudge-flip", true),
                8 => ex(vec![O::FormErr, O::BadSig, O::BadTrunc], "tsig-mac-size-flip", true),
                9 => ex(vec![O::BadSig], "tsig-mac-flip", true),
                10 => ex(vec![O::BadSig], "tsig-original-id-flip", true),
                11 => {
                    let new = u16::from_be_bytes([m[start + lay.error.0], m[start + lay.error.0 + 1]]);
                    if side != Side::Server && h.rcode() == 9 && new == rs::BADKEY {
                        ex(vec![O::SrvBadKey, O::BadSig], "tsig-error-flip", true)
                    } else if side != Side::Server && h.rcode() == 9 && new == rs::BADSIG {
                        ex(vec![O::SrvBadSig, O::BadSig], "tsig-error-flip", true)
                    } else {
                        ex(vec![O::BadSig], "tsig-error-flip", true)
                    }
                }
                12 => ex(vec![O::FormErr], "tsig-other-len-flip", true),
                _ => ex(vec![O::BadSig, O::FormErr], "tsig-other-data-flip", true),
            };
            Some((m, e))
        }
        5 => {
            // MAC length
            let alg = Alg::from_labels(&sp.rr.alg)?;
            let (native, rfc_min, rmin, cur) = (alg.out_len(), alg.rfc_min_len(), env.recv.eff_min(), sp.rr.mac.len());
            let cand = [0usize, 1, 9, rfc_min - 1, rfc_min, rmin.saturating_sub(1), rmin, cur.saturating_sub(1), cur + 1, native, native + 1, native + 16];
            let l = cand[pick(u, cand.len())];
            if l == cur {
                return None;
            }
            let full = rs::full_mac(env.signer, &env.prior, env.between, &sp.unsigned, &sp.rr, env.timers_only);
            let genuine = !chance(u, 100);
            let mut rr = sp.rr.clone();
            if l <= cur {
                rr.mac.truncate(l);
            } else {
                for i in cur..l {
                    let good = full.get(i).copied();
                    rr.mac.push(match (genuine, good) {
                        (true, Some(g)) => g,
                        (_, Some(g)) => g ^ 0x5a,
                        (_, None) => byte(u),
                    });
                }
            }
            let e = if l > native {
                ex(vec![O::FormErr], "mac-longer-than-hash-output", true)
            } else if l < rfc_min {
                ex(vec![O::FormErr], "mac-shorter-than-rfc-minimum", true)
            } else if l < rmin {
                ex(vec![O::BadTrunc], "mac-shorter-than-local-minimum", true)
            } else if l <= cur || genuine {
                ex(vec![O::Accept], if l <= cur { "mac-truncated-to-allowed-length" } else { "mac-extended-with-genuine-octets" }, true)
            } else {
                ex(vec![O::BadSig], "mac-extended-with-wrong-octets", true)
            };
            Some((rebuild(&signed[..start], &rr), e))
        }
        _ => {
            // structural
            let tsig = signed[start..].to_vec();
            let alg = Alg::from_labels(&sp.rr.alg)?;
            let sub = pick(u, 12);
            match sub {
                0 | 1 => {
                    // TSIG no longer last: a record behind it, or swapped with the record in front
                    let w = wire::walk(signed)?;
                    let prev = w.records.iter().rev().nth(1).filter(|r| r.section == 3).map(|r| r.start);
                    if let (1, Some(ps)) = (sub, prev) {
                        let mut v = signed[..ps].to_vec();
                        v.extend_from_slice(&tsig);
                        v.extend_from_slice(&signed[ps..start]);
                        Some((v, ex(vec![O::FormErr], "tsig-swapped-with-previous-record", true)))
                    } else {
                        let mut v = signed.to_vec();
                        // an OPT or an A record
                        if flag(u) {
                            v.extend_from_slice(&[0, 0, 41, 4, 208, 0, 0, 0, 0, 0, 0]);
                        } else {
                            v.extend_from_slice(&[1, b'a', 0, 0, 1, 0, 1, 0, 0, 0, 60, 0, 4, 192, 0, 2, 1]);
                        }
                        bump(&mut v, 3, 1);
                        Some((v, ex(vec![O::FormErr], "record-after-tsig", true)))
                    }
                }
                2 => {
                    let mut v = signed.to_vec();
                    v.extend_from_slice(&tsig);
                    bump(&mut v, 3, 1);
                    Some((v, ex(vec![O::FormErr], "tsig-duplicated", true)))
                }
                3 => {
                    let mut v = signed[..start].to_vec();
                    bump(&mut v, 3, -1);
                    Some((v, ex(vec![miss(side)], "tsig-removed", true)))
                }
                4 => {
                    // TSIG in another section (possible when the sections behind are empty)
                    if h.counts[3] != 1 {
                        return None;
                    }
                    let mut v = signed.to_vec();
                    bump(&mut v, 3, -1);
                    if h.counts[2] == 0 && flag(u) {
                        bump(&mut v, 1, 1);
                    } else {
                        bump(&mut v, 2, 1);
                    }
                    Some((v, ex(vec![O::FormErr], "tsig-in-other-section", true)))
                }
                5 => {
                    // another key's name
                    let other = env.store.iter().find(|k| !rs::names_equal(&k.rk.name, &sp.rr.owner))?;
                    let mut rr = sp.rr.clone();
                    rr.owner = other.rk.name.clone();
                    let e = match side {
                        Side::Server => ex(vec![srv_wrong_mac(env.store, &rr.owner, alg, rr.mac.len())], "other-keys-name", true),
                        _ => ex(vec![O::BadKey], "other-keys-name", true),
                    };
                    Some((rebuild(&signed[..start], &rr), e))
                }
                6 => {
                    // another valid algorithm
                    let a2 = Alg::ALL[(Alg::ALL.iter().position(|a| *a == alg)? + 1 + pick(u, 3)) % 4];
                    let mut rr = sp.rr.clone();
                    rr.alg = a2.labels();
                    if flag(u) {
                        rr.mac.resize(a2.out_len(), 0x11);
                    }
                    let e = match side {
                        Side::Server => ex(vec![srv_wrong_mac(env.store, &rr.owner, a2, rr.mac.len())], "other-algorithm-of-same-name", true),
                        _ => ex(vec![O::BadKey], "other-algorithm-of-same-name", true),
                    };
                    Some((rebuild(&signed[..start], &rr), e))
                }
                7 => {
                    let mut rr = sp.rr.clone();
                    let valid = sp.rr.alg[0].clone();
                    let other_valid = Alg::ALL[(Alg::ALL.iter().position(|a| *a == alg)? + 1 + pick(u, 3)) % 4].text().as_bytes().to_vec();
                    let (a, label): (Labels, &'static str) = match pick(u, 7) {
                        0 => (vec![b"hmac-md5".to_vec(), b"sig-alg".to_vec(), b"reg".to_vec(), b"int".to_vec()], "unknown-algorithm"),
                        1 => (vec![b"gss-tsig".to_vec()], "unknown-algorithm"),
                        // the key's own algorithm label followed by more labels: a different name
                        2 => (vec![valid, b"sig-alg".to_vec(), b"reg".to_vec(), b"int".to_vec()], "algorithm-name-with-extra-labels"),
                        3 => (vec![valid, b"x".to_vec()], "algorithm-name-with-extra-labels"),
                        4 => (vec![other_valid, b"sig-alg".to_vec(), b"reg".to_vec(), b"int".to_vec()], "algorithm-name-with-extra-labels"),
                        // a label that only starts with / ends with a valid name
                        5 => (vec![[&valid[..], b"x"].concat()], "algorithm-label-with-valid-prefix"),
                        _ => (vec![b"x".to_vec(), valid], "algorithm-name-with-extra-labels"),
                    };
                    rr.alg = a;
                    Some((rebuild(&signed[..start], &rr), ex(vec![O::BadKey], label, true)))
                }
                8 => {
                    // a record added to the signed content
                    let mut v = signed[..start].to_vec();
                    v.extend_from_slice(&[1, b'x', 0, 0, 16, 0, 1, 0, 0, 0, 60, 0, 2, 1, b'y']);
                    v.extend_from_slice(&tsig);
                    bump(&mut v, 3, 1);
                    Some((v, ex(vec![O::BadSig], "record-added-to-signed-content", false)))
                }
                9 => {
                    // last signed record removed
                    let w = wire::walk(signed)?;
                    let r = w.records.iter().rev().nth(1)?;
                    let mut v = signed[..r.start].to_vec();
                    v.extend_from_slice(&tsig);
                    bump(&mut v, r.section as usize, -1);
                    Some((v, ex(vec![O::BadSig], "record-removed-from-signed-content", false)))
                }
                10 => {
                    // signed by somebody who does not have the secret
                    let mut k = env.signer.clone();
                    k.secret.push(0);
                    let mut rr = sp.rr.clone();
                    let mut mac = rs::full_mac(&k, &env.prior, env.between, &sp.unsigned, &rr, env.timers_only);
                    mac.truncate(rr.mac.len());
                    rr.mac = mac;
                    Some((rebuild(&signed[..start], &rr), ex(vec![O::BadSig], "signed-with-other-secret", true)))
                }
                _ => {
                    // non-empty other data on a message without error: not what was signed
                    // RFC 8945 §4.3.3 digests Other Len and Other Data, whatever their length.
                    let mut rr = sp.rr.clone();
                    let l = [6usize, 1, 2, 3, 4, 5, 7, 8, 12, 16][pick(u, 10)];
                    if l == 6 {
                        rr.other = vec![0, 0, 0, 0, 0, 1];
                        Some((rebuild(&signed[..start], &rr), ex(vec![O::BadSig, O::FormErr], "other-data-added", true)))
                    } else {
                        let seed = byte(u);
                        rr.other = (0..l).map(|i| seed.wrapping_mul(31).wrapping_add(i as u8 * 17)).collect();
                        Some((rebuild(&signed[..start], &rr), ex(vec![O::BadSig, O::FormErr], "other-data-of-other-length-added", true)))
                    }
                }
            }
        }
    }
}

/// `ServerBadTime` carries the time signed of the request and the server's
/// clock from the (authenticated) other data.
fn check_badtime_clocks(what: &'static str, r: &Result<(), domain::tsig::ValidationError>, t_client: u64, t_server: u64) -> CaseResult {
    match r {
        Err(domain::tsig::ValidationError::ServerBadTime { client, server }) => {
            vensure!(u64::from(*client) == t_client && u64::from(*server) == t_server, format!("{what}:badtime-clocks-wrong"), "client {} server {}, signed were {t_client} {t_server}", u64::from(*client), u64::from(*server));
            Ok(())
        }
        other => vfail!(format!("{what}:signed-badtime-response-not-recognised"), "got {:?}", other),
    }
}

pub fn run_tamper(data: &[u8], ctx: &mut Ctx) -> CaseResult {
    let mut u = Unstructured::new(data);
    let u = &mut u;
    let side = [Side::Server, Side::CliTxn, Side::SeqFirst, Side::SeqSub][pick(u, 4)];
    let kind = [4usize, 4, 4, 5, 5, 6, 6, 6, 3, 3, 0, 1, 2][pick(u, 13)];
    let mut tu_bytes = [0u8; 12];
    for b in tu_bytes.iter_mut() {
        *b = byte(u);
    }
    let skind = [StoreKind::Map, StoreKind::ArcMap, StoreKind::Single, StoreKind::ArcSingle][pick(u, 4)];
    let n_between = pick(u, 4);
    // `n_between` only uses the two top bits of its octet; the six low bits
    // choose (1 in 4) a signed BADTIME error response as the message that is
    // tampered with on the client sides (decoded this way so that every other
    // draw — and every stored replay — keeps its meaning).
    let err_sel = data.get(15).copied().unwrap_or(0) & 0x3f;
    let err_resp = side != Side::Server && err_sel >= 48;
    let strip = pick(u, 4) == 3;
    let fudge = gen_fudge(u);
    let t = gen_time(u);
    // keys: the shared one (same policy on both ends), one with another name, one with the same name and another algorithm
    let mut kc = gen_keyspec(u);
    if flag(u) {
        // make room for truncation experiments
        kc.min_mac = Some(range(u, kc.rk.alg.rfc_min_len(), kc.rk.alg.out_len()));
        kc.sign_len = Some(range(u, kc.min_mac.unwrap(), kc.rk.alg.out_len()));
    } else if kc.eff_sign() < kc.eff_min() {
        kc.sign_len = kc.min_mac;
    }
    let ks = KeySpec { rk: RefKey { name: if flag(u) { crate::gen::name::swap_case(&kc.rk.name, u) } else { kc.rk.name.clone() }, ..kc.rk.clone() }, ..kc.clone() };
    let mut store = vec![ks.clone()];
    if matches!(skind, StoreKind::Map | StoreKind::ArcMap) {
        let mut k2 = gen_keyspec(u);
        k2.rk.alg = kc.rk.alg;
        k2.min_mac = len_in_bounds(u, kc.rk.alg);
        k2.sign_len = None;
        if rs::names_equal(&k2.rk.name, &kc.rk.name) {
            k2.rk.name = vec![b"other".to_vec(), b"key".to_vec()];
        }
        if !rs::names_equal(&k2.rk.name, &kc.rk.name) {
            store.push(k2);
        }
        if flag(u) {
            let a3 = Alg::ALL[(Alg::ALL.iter().position(|a| *a == kc.rk.alg).unwrap() + 1 + pick(u, 3)) % 4];
            store.push(KeySpec { rk: RefKey { alg: a3, secret: gen_secret(u, a3), name: ks.rk.name.clone() }, min_mac: len_in_bounds(u, a3), sign_len: None });
        }
    }
    let mut req = gen_message(u, 4);
    let mut resp = gen_message(u, 4);
    if strip {
        strip_additional(&mut req);
        strip_additional(&mut resp);
    }
    // RFC 8945 §5.2.3: the server's complaint about the request's time is a
    // *signed* response: RCODE NOTAUTH, TSIG error BADTIME, time signed as in
    // the request, the server's clock in 6 octets of other data.
    let t_srv = (t.wrapping_add(fudge as u64 + 1 + (err_sel as u64 - 47 * err_resp as u64) * 1000)) & rs::T48_MAX;
    if err_resp {
        resp[3] = (resp[3] & 0xF0) | 9;
    }
    let base = if err_resp { O::SrvBadTime } else { O::Accept };
    let infix = if err_resp { "badtime-response:" } else { "" };

    //--- the conformant signed request (library and reference must agree octet for octet)
    let kcl = kc.lib();
    let p_req = SignParams { time: t, fudge, error: 0, other: vec![], mac_len: kc.eff_sign() };
    let (signed_req, req_mac) = rs::sign(&kc.rk, &kc.rk.name, &Prior::None, &[], &req, &p_req, false);

    let mut tu = Unstructured::new(&tu_bytes);
    let (tampered, exp, pre_of_tampered, signed_of_tampered): (Vec<u8>, Expect, Vec<u8>, Vec<u8>);
    let mut cli_txn = None;
    let mut cli_seq = None;
    let mut refseq = RefSeq::new(ks.rk.clone(), &req_mac);
    let mut between: Vec<Vec<u8>> = vec![];
    match side {
        Side::Server => {
            let env = Env { side, store: &store, recv: &ks, signer: &kc.rk, prior: Prior::None, between: &[], timers_only: false, base: O::Accept };
            let Some((m, e)) = tamper(&mut tu, kind, &signed_req, &env) else {
                ctx.class("tamper-not-applicable");
                return Ok(());
            };
            tampered = m;
            exp = e;
            pre_of_tampered = req.clone();
            signed_of_tampered = signed_req.clone();
        }
        _ => {
            // the client signs with the library; same octets as the reference
            let mut b = builder_from(&req, usize::MAX);
            if side == Side::CliTxn {
                cli_txn = Some(ClientTransaction::request_with_fudge(&kcl, &mut b, t48(t), fudge).map_err(|_| Violation::new("request:push-failed-with-room", ""))?);
            } else {
                cli_seq = Some(ClientSequence::request_with_fudge(&kcl, &mut b, t48(t), fudge).map_err(|_| Violation::new("sequence-request:push-failed-with-room", ""))?);
            }
            vensure!(b.as_slice() == &signed_req[..], "request:signed-octets-differ-from-rfc8945", "library {}\nRFC     {}", hex(b.as_slice()), hex(&signed_req));
            let p = SignParams { time: t, fudge, error: 0, other: vec![], mac_len: ks.eff_sign() };
            if side == Side::SeqSub {
                // honest first message, then some unsigned ones
                let first = refseq.sign(&ks.rk.name, &tiny_message(get_id(&req), 0x8400, 1, 1), &p);
                let mut m = Message::from_octets(first).unwrap();
                let r = cli_seq.as_mut().unwrap().answer(&mut m, t48(t));
                vensure!(r.is_ok(), "client-sequence:first-rfc-signed-message-rejected", "{:?}", r);
                for i in 0..n_between {
                    let um = tiny_message(get_id(&req), 0x8400, 2 + i as u8, i % 2);
                    refseq.unsigned(&um);
                    between.push(um.clone());
                    let mut m = Message::from_octets(um).unwrap();
                    let r = cli_seq.as_mut().unwrap().answer(&mut m, t48(t));
                    vensure!(r.is_ok(), "client-sequence:unsigned-message-rejected", "{:?}", r);
                }
            }
            let prior_mac = refseq.prior_mac.clone();
            let timers_only = side == Side::SeqSub;
            let p_t = if err_resp { SignParams { error: rs::BADTIME, other: rs::t48(t_srv).to_vec(), ..p.clone() } } else { p.clone() };
            let signed = refseq.sign(&ks.rk.name, &resp, &p_t);
            let env = Env { side, store: &store, recv: &kc, signer: &ks.rk, prior: Prior::Mac(&prior_mac), between: &between, timers_only, base };
            let Some((m, e)) = tamper(&mut tu, kind, &signed, &env) else {
                ctx.class("tamper-not-applicable");
                return Ok(());
            };
            tampered = m;
            exp = e;
            pre_of_tampered = resp.clone();
            signed_of_tampered = signed;
        }
    }
    if tampered == signed_of_tampered {
        ctx.class("tamper-not-applicable");
        return Ok(());
    }
    let exact = exp.allowed.len() == 1;
    ctx.class(format!("{:?}/{}", side, exp.label));
    ctx.class(format!("tamper/{}", exp.label));
    if exact {
        ctx.class("outcome-exactly-predicted");
    }
    if err_resp {
        ctx.class("tamper/signed-badtime-response");
        ctx.class(format!("badtime-response/{:?}", side));
        if exact && exp.allowed[0] != base {
            ctx.class("tamper/signed-badtime-response-exact-rejection");
        }
    }
    if exp.tsig_field {
        ctx.nontrivial(&(side, exp.label, &tampered));
    }
    ctx.sample(|| format!("tamper {:?} {infix}{} key[{}] store {} keys; expect {:?}\n  signed   {}\n  tampered {}", side, exp.label, kc.show(), store.len(), exp.allowed, hex(&signed_of_tampered), hex(&tampered)));

    //--- deliver
    let detail = |got: O| format!("{:?}: {infix}{} -> {:?}, RFC 8945 allows {:?}\nkey {}\nsigned   {}\ntampered {}", side, exp.label, got, exp.allowed, kc.show(), hex(&signed_of_tampered), hex(&tampered));
    match side {
        Side::Server => {
            let ans = Ans { pre: &resp, t, fudge: Some(fudge), cap: usize::MAX };
            let sr = srv_txn_with(skind, &store, &tampered, t, Some(&ans))?;
            vensure!(exp.allowed.contains(&sr.out), format!("server-request:{}:{:?}{}", exp.label, sr.out, if exact { format!("-expected-{:?}", exp.allowed[0]) } else { String::new() }), "{}", detail(sr.out));
            match sr.out {
                O::Accept => {
                    ctx.class("tampered-but-legitimately-accepted");
                    check_restored("server-request", &sr.after, &pre_of_tampered)?;
                    // the answer is bound to the MAC as received
                    let wire_mac = rs::split(&tampered).map_err(|e| Violation::new("harness:split", e))?.rr.mac;
                    match sr.answer {
                        Some(Ok(a)) => {
                            conform(&resp, &a, &Want { what: "answer", signer: &ks, prior: Prior::Mac(&wire_mac), between: &[], timers_only: false, time: t, fudge, error: 0, other: &[] })?;
                        }
                        _ => vfail!("answer:push-failed-with-room", ""),
                    }
                }
                O::Unsigned => {
                    vensure!(sr.after == tampered, "server-request:unsigned-message-changed", "{}", detail(sr.out));
                }
                O::FormErr => {
                    // RFC 8945 §5.2: "a response with RCODE 1 (FORMERR) MUST be returned"
                    let em = match &sr.err_msg {
                        Some(Ok(m)) => m,
                        other => vfail!("server-request:error-response-not-built", "{:?}", other),
                    };
                    let hh = wire::header(em).unwrap();
                    vensure!(hh.rcode() == 1 && hh.qr() && hh.id == get_id(&tampered), "server-request:formerr-response-header", "rcode {} qr {} id {} for {}", hh.rcode(), hh.qr(), hh.id, detail(sr.out));
                }
                O::BadKey => check_unsigned_error("server-request", &sr, &tampered, rs::BADKEY)?,
                O::BadSig => check_unsigned_error("server-request", &sr, &tampered, rs::BADSIG)?,
                O::BadTrunc => check_unsigned_error("server-request", &sr, &tampered, rs::BADTRUNC)?,
                _ => {}
            }
        }
        Side::CliTxn => {
            let c = cli_txn.unwrap();
            let mut m = Message::from_octets(tampered.clone()).unwrap();
            let r = c.answer(&mut m, t48(t));
            let got = o_client(&r);
            vensure!(exp.allowed.contains(&got), format!("client-answer:{infix}{}:{:?}{}", exp.label, got, if exact { format!("-expected-{:?}", exp.allowed[0]) } else { String::new() }), "{}", detail(got));
            if got == O::Accept {
                ctx.class("tampered-but-legitimately-accepted");
                check_restored("client-answer", m.as_slice(), &pre_of_tampered)?;
            } else if got == O::SrvBadTime {
                // the complaint passed authentication although the message
                // was altered (ID, letter case, permitted MAC length): the
                // clocks it reports are the signed ones
                ctx.class("tampered-badtime-response-legitimately-reported");
                check_badtime_clocks("client-answer", &r, t, t_srv)?;
            } else {
                // "you can drop it and try with the next answer. The
                // transaction will remain valid."
                let mut gm = Message::from_octets(signed_of_tampered.clone()).unwrap();
                let gr = c.answer(&mut gm, t48(t));
                let g = o_client(&gr);
                vensure!(g == base, format!("client-answer:{infix}genuine-answer-after-rejected-message-{:?}-expected-{:?}", g, base), "after {}", detail(got));
                if err_resp {
                    check_badtime_clocks("client-answer", &gr, t, t_srv)?;
                    ctx.class("genuine-badtime-response-after-rejected-answer-reported");
                } else {
                    check_restored("client-answer", gm.as_slice(), &pre_of_tampered)?;
                    ctx.class("genuine-answer-after-rejected-answer-verified");
                }
            }
        }
        Side::SeqFirst | Side::SeqSub => {
            let mut c = cli_seq.unwrap();
            let mut m = Message::from_octets(tampered.clone()).unwrap();
            let r = c.answer(&mut m, t48(t));
            let got = o_client(&r);
            let (ok, tsigs) = rs::locate_tsigs(&tampered);
            let visible = ok && tsigs.iter().any(|t| t.0 == 3 && t.2);
            let hidden_ok = side == Side::SeqSub && exp.allowed.contains(&O::SrvUnsigned) && !visible;
            vensure!(exp.allowed.contains(&got) || (got == O::Accept && hidden_ok), format!("client-sequence:{infix}{}:{:?}{}", exp.label, got, if exact { format!("-expected-{:?}", exp.allowed[0]) } else { String::new() }), "{}", detail(got));
            if got == O::SrvBadTime {
                ctx.class("tampered-badtime-response-legitimately-reported");
                if side == Side::SeqFirst {
                    // (from the second message on, error and other data are
                    // not covered by the MAC: nothing to demand there)
                    check_badtime_clocks("client-sequence", &r, t, t_srv)?;
                }
            }
            if side == Side::SeqFirst && got != O::Accept {
                // A rejected first message does not open the sequence: an
                // unsigned message still is not acceptable (RFC 8945 §5.3.1,
                // the first message MUST be signed) ...
                for _ in 0..2 {
                    let mut um = Message::from_octets(tiny_message(get_id(&req), 0x8400, 3, 1)).unwrap();
                    let g = o_client(&c.answer(&mut um, t48(t)));
                    // (a sequence that fails for good may report the stored
                    // earlier error instead of judging the message afresh)
                    vensure!(g != O::Accept, "client-sequence:unsigned-message-after-rejected-first-accepted", "an unsigned message was accepted after {}", detail(got));
                }
                ctx.class("unsigned-after-rejected-first-still-rejected");
                // ... and when the rejection happened before any digest work
                // (no TSIG, format error in the record, other key), the
                // genuine first answer still verifies.
                let before_digest = matches!(got, O::SrvUnsigned | O::BadKey) || (got == O::FormErr && !matches!(exp.label, "tsig-mac-size-flip" | "mac-longer-than-hash-output" | "mac-shorter-than-rfc-minimum" | "other-algorithm-of-same-name"));
                if before_digest {
                    let mut gm = Message::from_octets(signed_of_tampered.clone()).unwrap();
                    let gr = c.answer(&mut gm, t48(t));
                    let g = o_client(&gr);
                    // No documentation promises that a ClientSequence stays
                    // usable after a rejection (unlike ClientTransaction): a
                    // refusal here is a fail-stop sequence, not a violation.
                    if err_resp {
                        vensure!(g != O::Accept, "client-sequence:badtime-response:genuine-first-after-rejected-first-accepted", "after {}", detail(got));
                        if g == O::SrvBadTime {
                            check_badtime_clocks("client-sequence", &gr, t, t_srv)?;
                            ctx.class("genuine-badtime-first-after-rejected-first-reported");
                        }
                    } else if g == O::Accept {
                        check_restored("client-sequence", gm.as_slice(), &pre_of_tampered)?;
                        ctx.class("genuine-first-after-rejected-first-verified");
                    } else {
                        ctx.class("sequence-fails-for-good-after-rejection");
                    }
                }
            }
            if got == O::Accept {
                if !exp.allowed.contains(&O::Accept) {
                    // taken as an unsigned message of the sequence: the next signed message exposes it
                    vensure!(side == Side::SeqSub, "client-sequence:first-message-without-tsig-accepted", "{}", detail(got));
                    let p = SignParams { time: t, fudge, error: 0, other: vec![], mac_len: ks.eff_sign() };
                    let next = refseq.sign(&ks.rk.name, &tiny_message(7, 0x8400, 9, 1), &p);
                    let mut m2 = Message::from_octets(next).unwrap();
                    let got2 = o_client(&c.answer(&mut m2, t48(t)));
                    vensure!(got2 == O::BadSig, format!("client-sequence:{}:next-signed-message-{:?}-expected-BadSig", exp.label, got2), "{}", detail(got));
                    ctx.class("tsig-hidden-detected-by-next-mac");
                } else {
                    ctx.class("tampered-but-legitimately-accepted");
                    check_restored("client-sequence", m.as_slice(), &pre_of_tampered)?;
                    // the sequence goes on from the MAC as received
                    let wire_mac = rs::split(&tampered).map_err(|e| Violation::new("harness:split", e))?.rr.mac;
                    refseq.advance(&wire_mac);
                    let p = SignParams { time: t, fudge, error: 0, other: vec![], mac_len: ks.eff_sign() };
                    let next = refseq.sign(&ks.rk.name, &tiny_message(7, 0x8400, 9, 1), &p);
                    let mut m2 = Message::from_octets(next).unwrap();
                    let r2 = c.answer(&mut m2, t48(t));
                    vensure!(r2.is_ok(), "client-sequence:message-after-accepted-variant-rejected", "{:?} after {}", r2, detail(got));
                }
            }
        }
    }
    Ok(())
}
