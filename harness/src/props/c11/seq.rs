//! Sub-check `seq`: multi-message responses. Mode A: the library's
//! `ServerSequence` signs every message, `ClientSequence` verifies, every MAC
//! is compared with the reference running digest. Mode B: the reference
//! signer produces signed/unsigned patterns (runs of exactly 99 and 100
//! unsigned messages included), optional replay or alteration of a message,
//! and a small model predicts what `ClientSequence` has to answer.
use super::common::*;
use super::honest::{gen_store_kind, StoreKind};
use super::refsig::{self as rs, Prior, RefSeq, SignParams};
use crate::engine::*;
use crate::gen::*;
use crate::{vensure, vfail};
use arbitrary::Unstructured;
use domain::base::Message;
use domain::tsig::{Algorithm, ClientSequence, Key, KeyName, KeyStore, ServerSequence, ServerTransaction};
use std::collections::HashMap;
use std::sync::Arc;

pub struct AnsSpec {
    pub pre: Vec<u8>,
    pub t: u64,
    pub fudge: Option<u16>,
    /// before this answer is signed, a signing attempt into a buffer that is
    /// this many octets too small fails (the caller then retries, like the
    /// middleware does with a truncated response)
    pub failed_attempt_short_by: Option<usize>,
}

/// Server side of a sequence; `via_txn` converts a `ServerTransaction` into a
/// `ServerSequence` (the documented `From` impl).
pub fn srv_seq<S>(store: &S, signed_req: &[u8], now: u64, via_txn: bool, answers: &[AnsSpec]) -> Result<(O, Vec<u8>, Vec<Vec<u8>>), Violation>
where
    S: KeyStore,
    S::Key: AsRef<Key> + Clone,
{
    let mut msg = Message::from_octets(signed_req.to_vec()).map_err(|_| Violation::new("harness:short-message", "short"))?;
    let seq = if via_txn {
        match ServerTransaction::request(store, &mut msg, t48(now)) {
            Ok(Some(t)) => Ok(Some(ServerSequence::from(t))),
            Ok(None) => Ok(None),
            Err(e) => Err(e),
        }
    } else {
        ServerSequence::request(store, &mut msg, t48(now))
    };
    match seq {
        Ok(None) => Ok((O::Unsigned, msg.as_slice().to_vec(), vec![])),
        Err(e) => Ok((o_server(e.error()), msg.as_slice().to_vec(), vec![])),
        Ok(Some(mut seq)) => {
            let mut out = vec![];
            for a in answers {
                if let Some(short) = a.failed_attempt_short_by {
                    let need = a.pre.len() + seq.key().compose_len() as usize;
                    let mut b = builder_from(&a.pre, need - 1 - short.min(need - 1 - a.pre.len()));
                    let r = seq.answer_with_fudge(&mut b, t48(a.t), a.fudge.unwrap_or(300));
                    vensure!(r.is_err(), "server-sequence:tsig-pushed-beyond-capacity", "need {need}");
                    vensure!(b.as_slice() == &a.pre[..], "server-sequence:failed-signing-changed-message", "{} vs {}", hex(b.as_slice()), hex(&a.pre));
                }
                let mut b = builder_from(&a.pre, usize::MAX);
                let r = match a.fudge {
                    Some(f) => seq.answer_with_fudge(&mut b, t48(a.t), f),
                    None => seq.answer(&mut b, t48(a.t)),
                };
                if r.is_err() {
                    vfail!("server-sequence:push-failed-with-room", "unlimited buffer");
                }
                out.push(b.as_slice().to_vec());
            }
            Ok((O::Accept, msg.as_slice().to_vec(), out))
        }
    }
}

fn srv_seq_with(kind: StoreKind, ks: &KeySpec, signed_req: &[u8], now: u64, via_txn: bool, answers: &[AnsSpec]) -> Result<(O, Vec<u8>, Vec<Vec<u8>>), Violation> {
    match kind {
        StoreKind::Single => srv_seq(&ks.lib(), signed_req, now, via_txn, answers),
        StoreKind::ArcSingle => srv_seq(&Arc::new(ks.lib()), signed_req, now, via_txn, answers),
        StoreKind::Map => {
            let mut m: HashMap<(KeyName, Algorithm), Arc<Key>> = HashMap::new();
            m.insert((key_name(&ks.rk.name), lib_alg(ks.rk.alg)), Arc::new(ks.lib()));
            srv_seq(&m, signed_req, now, via_txn, answers)
        }
        StoreKind::ArcMap => {
            let mut m: HashMap<(KeyName, Algorithm), Key> = HashMap::new();
            m.insert((key_name(&ks.rk.name), lib_alg(ks.rk.alg)), ks.lib());
            srv_seq(&Arc::new(m), signed_req, now, via_txn, answers)
        }
    }
}

fn answer_msg(u: &mut Unstructured, i: usize, id: u16, pool: &[Vec<u8>]) -> Vec<u8> {
    if !pool.is_empty() && chance(u, 90) {
        let mut m = pool[pick(u, pool.len())].clone();
        if flag(u) {
            set_id(&mut m, id);
        }
        m
    } else {
        tiny_message(id, 0x8400, byte(u), i % 3)
    }
}

pub fn run_seq(data: &[u8], ctx: &mut Ctx) -> CaseResult {
    let mut u = Unstructured::new(data);
    let u = &mut u;
    let mode_b = !chance(u, 100); // ~60 % reference-signed patterns
    let kind = gen_store_kind(u);
    let via_txn = flag(u);
    let fudge_req = if chance(u, 100) { None } else { Some(gen_fudge(u)) };
    let f_req = fudge_req.unwrap_or(300);
    let t_sign = gen_time(u);
    let thorough = ctx.thorough;
    let max_n = if thorough { 150 } else { 8 };
    let n_a = 1 + match pick(u, 6) {
        0 => 0,
        5 => pick(u, max_n),
        _ => pick(u, 4),
    };
    #[derive(Clone, Copy, PartialEq, Debug)]
    enum Fault {
        None,
        Replay,
        AlterUnsigned,
        DropUnsigned,
    }
    let fault = match pick(u, 8) {
        5 => Fault::Replay,
        6 => Fault::AlterUnsigned,
        7 => Fault::DropUnsigned,
        _ => Fault::None,
    };
    let fault_at = pick(u, 12);
    // messages that arrive (and are rejected) before the genuine first answer
    let n_junk = [0usize, 0, 0, 1, 2, 3][pick(u, 6)];
    let junk: Vec<usize> = (0..n_junk).map(|_| pick(u, 4)).collect();
    // pattern: true = signed
    let mut pat: Vec<bool> = vec![];
    let first_unsigned = pick(u, 25) == 24;
    pat.push(!first_unsigned);
    let nseg = 1 + pick(u, 5);
    for _ in 0..nseg {
        match pick(u, 10) {
            0 | 1 | 2 => pat.push(true),
            3 => pat.extend(std::iter::repeat(false).take(99)),
            4 => pat.extend(std::iter::repeat(false).take(100)),
            5 => pat.extend(std::iter::repeat(false).take(98)),
            6 => pat.extend(std::iter::repeat(false).take(if thorough { 101 + pick(u, 50) } else { 101 })),
            _ => pat.extend(std::iter::repeat(false).take(1 + pick(u, 4))),
        }
        if !chance(u, 40) {
            pat.push(true);
        }
    }
    let kc = gen_keyspec(u);
    let ks = peer_of(u, &kc);
    let req = gen_message(u, 3);
    let npool = pick(u, 3);
    let pool: Vec<Vec<u8>> = (0..npool).map(|_| gen_message(u, 4)).collect();

    //--- client signs the request
    let kcl = kc.lib();
    let mut b = builder_from(&req, usize::MAX);
    let r = match fudge_req {
        Some(f) => ClientSequence::request_with_fudge(&kcl, &mut b, t48(t_sign), f),
        None => ClientSequence::request(&kcl, &mut b, t48(t_sign)),
    };
    let mut client = match r {
        Ok(c) => c,
        Err(_) => vfail!("sequence-request:push-failed-with-room", "unlimited buffer"),
    };
    let signed_req = b.as_slice().to_vec();
    let req_mac = conform(&req, &signed_req, &Want { what: "sequence-request", signer: &kc, prior: Prior::None, between: &[], timers_only: false, time: t_sign, fudge: f_req, error: 0, other: &[] })?;
    let mut refseq = RefSeq::new(ks.rk.clone(), &req_mac);
    let id = get_id(&req);
    ctx.class(format!("alg-{}", kc.rk.alg.text()));
    if kc.truncating() || ks.truncating() {
        ctx.class("truncation");
    }

    if !mode_b {
        //--- mode A: library server signs everything
        let n = n_a;
        let mut answers = vec![];
        for i in 0..n {
            let t = if chance(u, 200) { t_sign.saturating_add(i as u64).min(rs::T48_MAX) } else { gen_time(u) };
            let fudge = if chance(u, 128) { None } else { Some(gen_fudge(u)) };
            let failed_attempt_short_by = if chance(u, 40) { Some(pick(u, 3)) } else { None };
            answers.push(AnsSpec { pre: answer_msg(u, i, id, &pool), t, fudge, failed_attempt_short_by });
        }
        ctx.sample(|| format!("seq/A client[{}] server[{}] store {kind:?} via_txn {via_txn} {n} signed answers", kc.show(), ks.show()));
        if n >= 2 {
            ctx.class("lib-signed-sequence-2+");
        }
        if kc.truncating() || ks.truncating() {
            ctx.nontrivial(&(&kc, &ks, &req, n, t_sign));
        }
        let trunc_ok = kc.eff_sign() >= ks.eff_min();
        let (out, after, signed) = srv_seq_with(kind, &ks, &signed_req, t_sign, via_txn, &answers)?;
        let want = if trunc_ok { O::Accept } else { O::BadTrunc };
        vensure!(out == want, format!("server-sequence-request:honest-request-{:?}-expected-{:?}", out, want), "client {} server {}", kc.show(), ks.show());
        if !trunc_ok {
            return Ok(());
        }
        check_restored("server-sequence-request", &after, &req)?;
        for (i, (a, s)) in answers.iter().zip(&signed).enumerate() {
            // conformance with the running digest
            let what: &'static str = if i == 0 { "seq-first" } else { "seq-subsequent" };
            let prior = refseq.prior_mac.clone();
            let what: &'static str = match (a.failed_attempt_short_by.is_some(), i == 0) {
                (false, _) => what,
                (true, true) => "seq-first-after-failed-push",
                (true, false) => "seq-subsequent-after-failed-push",
            };
            if a.failed_attempt_short_by.is_some() {
                ctx.class("sequence-answer-after-failed-push");
            }
            let mac = conform(&a.pre, s, &Want { what, signer: &ks, prior: Prior::Mac(&prior), between: &[], timers_only: i > 0, time: a.t, fudge: a.fudge.unwrap_or(300), error: 0, other: &[] })?;
            refseq.advance(&mac);
            let mut m = Message::from_octets(s.clone()).unwrap();
            let r = client.answer(&mut m, t48(a.t));
            let got = o_client(&r);
            let want = if ks.eff_sign() < kc.eff_min() { O::BadTrunc } else { O::Accept };
            vensure!(
                got == want,
                format!("client-sequence:{}-honest-answer-{:?}-expected-{:?}", if i == 0 { "first" } else { "subsequent" }, got, want),
                "message {i} of {n}; client {} server {}\n{}",
                kc.show(),
                ks.show(),
                hex(s)
            );
            if want != O::Accept {
                return Ok(());
            }
            check_restored("client-sequence", m.as_slice(), &a.pre)?;
        }
        vensure!(client.done().is_ok(), "client-sequence:done-fails-after-signed-last", "");
        ctx.class("lib-signed-sequence-verified");
        return Ok(());
    }

    //--- mode B: reference signer, signed/unsigned pattern (decoded above)
    let max_run = pat.split(|s| *s).map(|r| r.len()).max().unwrap_or(0);
    let n_unsigned = pat.iter().filter(|s| !**s).count();
    ctx.sample(|| {
        let mut s = String::new();
        let mut i = 0;
        while i < pat.len() {
            let j = (i..pat.len()).take_while(|k| pat[*k] == pat[i]).count();
            s.push_str(&format!("{}{} ", if pat[i] { "S" } else { "u" }, j));
            i += j;
        }
        format!("seq/B client[{}] server[{}] pattern {s}fault {fault:?}@{fault_at}", kc.show(), ks.show())
    });
    if n_unsigned > 0 {
        ctx.class("sequence-with-unsigned");
        ctx.nontrivial(&(&kc, &ks, &pat, fault_at, t_sign, fault as u8 as usize));
    }
    if max_run == 99 {
        ctx.class("unsigned-run-99");
    }
    if max_run >= 100 {
        ctx.class("unsigned-run-100+");
    }
    if first_unsigned {
        ctx.class("first-unsigned");
    }

    // History before the first genuine answer: rejected messages must not
    // change the state of the sequence. While no signed first answer has
    // been accepted every unsigned message is refused (RFC 8945 §5.3.1: the
    // first message MUST be signed), however many arrive; after rejections
    // that happen before any digest work (no TSIG, duplicate TSIG, another
    // key's name) the genuine first answer still verifies (the loop below).
    for (j, kind) in junk.iter().enumerate() {
        let p = SignParams { time: t_sign, fudge: 300, error: 0, other: vec![], mac_len: ks.eff_sign() };
        let base = tiny_message(id, 0x8400, 0x40 + j as u8, j % 2);
        let (wire, want): (Vec<u8>, O) = match kind {
            0 => (base, O::SrvUnsigned),
            1 => {
                let mut other = ks.rk.clone();
                other.name = vec![b"not".to_vec(), b"this".to_vec(), b"key".to_vec()];
                if rs::names_equal(&other.name, &kc.rk.name) {
                    other.name.push(b"x".to_vec());
                }
                (rs::sign(&other, &other.name, &Prior::Mac(&req_mac), &[], &base, &p, false).0, O::BadKey)
            }
            2 => {
                let s1 = rs::sign(&ks.rk, &ks.rk.name, &Prior::Mac(&req_mac), &[], &base, &p, false).0;
                let sp = rs::split(&s1).unwrap();
                let mut v = s1.clone();
                v.extend_from_slice(&s1[sp.start..]);
                let ar = u16::from_be_bytes([v[10], v[11]]) + 1;
                v[10..12].copy_from_slice(&ar.to_be_bytes());
                (v, O::FormErr)
            }
            _ => {
                // wrong MAC: rejected; only the "still no unsigned messages" rule is checked afterwards
                let mut bad = ks.rk.clone();
                bad.secret.push(1);
                (rs::sign(&bad, &ks.rk.name, &Prior::Mac(&req_mac), &[], &base, &p, false).0, if ks.eff_sign() < kc.eff_min() { O::BadTrunc } else { O::BadSig })
            }
        };
        let mut m = Message::from_octets(wire.clone()).unwrap();
        let got = o_client(&client.answer(&mut m, t48(t_sign)));
        if j == 0 {
            vensure!(got == want, format!("client-sequence:message-before-first-answer-{:?}-expected-{:?}", got, want), "junk message {j} (kind {kind}) of {junk:?}: {}", hex(&wire));
        } else {
            // The sequence has already rejected a message. The RFC assigns an
            // error to a message judged on an intact exchange; a sequence that
            // fails for good after its first rejection (and keeps reporting
            // that first error) is as good as one that judges every message
            // afresh. What must hold is that nothing is accepted.
            vensure!(got != O::Accept, format!("client-sequence:message-before-first-answer-accepted-after-rejection-expected-{:?}", want), "junk message {j} (kind {kind}) of {junk:?}: {}", hex(&wire));
            if got != want {
                ctx.class("sequence-reports-earlier-error-after-rejection");
            }
        }
        ctx.class("rejected-message-before-first-answer");
        if j >= 1 {
            ctx.class("second-rejected-message-before-first-answer");
        }
        if *kind == 3 {
            let mut um = Message::from_octets(tiny_message(id, 0x8400, 0x50, 0)).unwrap();
            let g = o_client(&client.answer(&mut um, t48(t_sign)));
            vensure!(g != O::Accept, "client-sequence:unsigned-message-after-rejected-first-accepted", "an unsigned message was accepted after the first message had been rejected; junk {junk:?}");
            return Ok(());
        }
    }
    if !junk.is_empty() {
        ctx.class("history-continues-after-rejected-first");
    }

    // model state
    let mut first = true;
    let mut run = 0usize;
    let mut corrupted = false;
    let mut sent_signed: Vec<Vec<u8>> = vec![];
    let mut fault_done = fault == Fault::None;
    let mut k_unsigned = 0usize;
    let mut k_signed = 0usize;
    for (i, &signed) in pat.iter().enumerate() {
        if signed {
            // replay of an earlier signed message in front of this one
            if fault == Fault::Replay && !fault_done && !sent_signed.is_empty() && k_signed >= fault_at % 4 {
                fault_done = true;
                ctx.class("fault-replay-signed");
                let rep = sent_signed[pick(u, sent_signed.len())].clone();
                let mut m = Message::from_octets(rep.clone()).unwrap();
                let sp = rs::split(&rep).unwrap();
                let got = o_client(&client.answer(&mut m, t48(sp.rr.time)));
                let want = if ks.eff_sign() < kc.eff_min() { O::BadTrunc } else { O::BadSig };
                vensure!(got == want, format!("client-sequence:replayed-message-{:?}-expected-{:?}", got, want), "position {i}: {}", hex(&rep));
                return Ok(());
            }
            k_signed += 1;
            let pre = answer_msg(u, i, id, &pool);
            let t = if chance(u, 200) { t_sign.saturating_add(i as u64).min(rs::T48_MAX) } else { gen_time(u) };
            let fudge = gen_fudge(u);
            let (now, inside, edge) = if chance(u, 180) { (t, true, fudge == 0) } else { gen_recv(u, t, fudge) };
            if edge {
                ctx.class("clock-within-1s-of-window-edge");
            }
            let owner = if flag(u) { ks.rk.name.clone() } else { kc.rk.name.clone() };
            let mut wire = refseq.sign(&owner, &pre, &SignParams { time: t, fudge, error: 0, other: vec![], mac_len: ks.eff_sign() });
            sent_signed.push(wire.clone());
            if chance(u, 40) {
                set_id(&mut wire, u16_(u));
            }
            let mut m = Message::from_octets(wire.clone()).unwrap();
            let got = o_client(&client.answer(&mut m, t48(now)));
            let want = if ks.eff_sign() < kc.eff_min() {
                O::BadTrunc
            } else if corrupted {
                O::BadSig
            } else if !inside {
                O::BadTime
            } else {
                O::Accept
            };
            if first && !junk.is_empty() && got != O::Accept && got != want {
                // fail-stop after an earlier rejection: allowed (see above);
                // the honest-sequence clause is decided by the cases without
                // injected messages
                ctx.class("sequence-fails-for-good-after-rejection");
                return Ok(());
            }
            vensure!(
                got == want,
                format!("client-sequence:{}-rfc-signed-message-{:?}-expected-{:?}{}", if first { "first" } else { "subsequent" }, got, want, if corrupted { "-after-altered-unsigned" } else { "" }),
                "position {i} after {run} unsigned; signed at {t} fudge {fudge} client clock {now}; client {} server {}\n{}",
                kc.show(),
                ks.show(),
                hex(&wire)
            );
            if want != O::Accept {
                if corrupted {
                    ctx.class("altered-unsigned-detected-by-next-mac");
                }
                return Ok(());
            }
            check_restored("client-sequence", m.as_slice(), &pre)?;
            if run > 0 {
                ctx.class("signed-after-unsigned-run-verified");
            }
            if run == 99 {
                ctx.class("signed-after-99-unsigned-verified");
            }
            first = false;
            run = 0;
        } else {
            let pre = tiny_message(if flag(u) { id } else { u16_(u) }, 0x8400, byte(u), i % 2);
            let mut wire = pre.clone();
            refseq.unsigned(&pre);
            let mut skip = false;
            if !fault_done && !first && k_unsigned >= fault_at {
                match fault {
                    Fault::AlterUnsigned => {
                        // framing stays intact: ID, flags, label content, qtype/qclass
                        let p = [0usize, 1, 2, 3, 13, 14, 15, 16, 26, 27, 28, 29][pick(u, 12)];
                        wire[p] ^= 1 << pick(u, 8);
                        corrupted = true;
                        fault_done = true;
                        ctx.class("fault-alter-unsigned");
                    }
                    Fault::DropUnsigned => {
                        skip = true;
                        corrupted = true;
                        fault_done = true;
                        ctx.class("fault-drop-unsigned");
                    }
                    _ => {}
                }
            }
            k_unsigned += 1;
            if skip {
                continue;
            }
            let mut m = Message::from_octets(wire.clone()).unwrap();
            let got = o_client(&client.answer(&mut m, t48(t_sign)));
            let want = if first {
                O::SrvUnsigned
            } else if run >= 99 {
                O::TooMany
            } else {
                O::Accept
            };
            if first && !junk.is_empty() && got != O::Accept {
                // an unsigned first message after earlier rejections: refused,
                // possibly with the stored earlier error (fail-stop sequence)
                ctx.class("sequence-fails-for-good-after-rejection");
                return Ok(());
            }
            vensure!(got == want, format!("client-sequence:unsigned-message-{:?}-expected-{:?}", got, want), "position {i}, {run} unsigned before it");
            if want != O::Accept {
                if want == O::TooMany {
                    ctx.class("100th-unsigned-rejected");
                }
                return Ok(());
            }
            vensure!(m.as_slice() == &wire[..], "client-sequence:unsigned-message-changed", "");
            run += 1;
        }
    }
    let d = client.done();
    if run == 0 {
        vensure!(d.is_ok(), "client-sequence:done-fails-after-signed-last", "{:?}", d);
        ctx.class("rfc-signed-sequence-verified");
    } else {
        vensure!(o_client(&d) == O::TooMany, "client-sequence:done-accepts-unsigned-last", "{:?} after {run} trailing unsigned", d);
        ctx.class("last-unsigned-rejected-by-done");
    }
    Ok(())
}
