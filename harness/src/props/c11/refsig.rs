//! Independent RFC 8945 reference for C11.
//!
//! * HMAC (RFC 2104) built on `ring::digest` only — the library uses
//!   `ring::hmac`, so only the hash primitive is shared.
//! * The digest input of RFC 8945 §4.3: request, response (request MAC
//!   prefixed with its 2-octet length), first/subsequent message of a
//!   multi-message response (§5.3.1: timers only, unsigned messages included
//!   in the running digest), signed error responses (§5.3.2, BADTIME with
//!   6-octet other data).
//! * A TSIG RR writer/reader that does not call into the library (uses the
//!   shared independent wire walker for framing).
use crate::refimpl::rdata::read_name;
use crate::refimpl::wire;
use ring::digest;

pub type Labels = Vec<Vec<u8>>;

pub const TSIG: u16 = 250;
pub const ANY: u16 = 255;
pub const BADSIG: u16 = 16;
pub const BADKEY: u16 = 17;
pub const BADTIME: u16 = 18;
pub const BADTRUNC: u16 = 22;
pub const T48_MAX: u64 = (1 << 48) - 1;

#[derive(Clone, Copy, Debug, PartialEq, Eq, Hash)]
pub enum Alg {
    Sha1,
    Sha256,
    Sha384,
    Sha512,
}

impl Alg {
    pub const ALL: [Alg; 4] = [Alg::Sha1, Alg::Sha256, Alg::Sha384, Alg::Sha512];
    fn dalg(self) -> &'static digest::Algorithm {
        match self {
            Alg::Sha1 => &digest::SHA1_FOR_LEGACY_USE_ONLY,
            Alg::Sha256 => &digest::SHA256,
            Alg::Sha384 => &digest::SHA384,
            Alg::Sha512 => &digest::SHA512,
        }
    }
    /// Block size B of RFC 2104 (FIPS 180-4: 512 bits for SHA-1/256, 1024 for SHA-384/512)
    pub fn block_len(self) -> usize {
        match self {
            Alg::Sha1 | Alg::Sha256 => 64,
            Alg::Sha384 | Alg::Sha512 => 128,
        }
    }
    pub fn out_len(self) -> usize {
        match self {
            Alg::Sha1 => 20,
            Alg::Sha256 => 32,
            Alg::Sha384 => 48,
            Alg::Sha512 => 64,
        }
    }
    /// RFC 8945 §5.2.2.1: a MAC shorter than max(10, half the hash length) is a format error.
    pub fn rfc_min_len(self) -> usize {
        (self.out_len() / 2).max(10)
    }
    pub fn text(self) -> &'static str {
        match self {
            Alg::Sha1 => "hmac-sha1",
            Alg::Sha256 => "hmac-sha256",
            Alg::Sha384 => "hmac-sha384",
            Alg::Sha512 => "hmac-sha512",
        }
    }
    pub fn labels(self) -> Labels {
        vec![self.text().as_bytes().to_vec()]
    }
    pub fn from_labels(l: &Labels) -> Option<Alg> {
        if l.len() != 1 {
            return None;
        }
        Alg::ALL.into_iter().find(|a| a.text().as_bytes().eq_ignore_ascii_case(&l[0]))
    }
}

//------------ HMAC -----------------------------------------------------------

/// RFC 2104: H(K xor opad, H(K xor ipad, text)); keys longer than the block
/// are hashed first.
#[derive(Clone)]
pub struct Hmac {
    alg: Alg,
    inner: digest::Context,
    okey: Vec<u8>,
}

impl Hmac {
    pub fn new(alg: Alg, key: &[u8]) -> Self {
        let b = alg.block_len();
        let mut k = if key.len() > b { digest::digest(alg.dalg(), key).as_ref().to_vec() } else { key.to_vec() };
        k.resize(b, 0);
        let ikey: Vec<u8> = k.iter().map(|x| x ^ 0x36).collect();
        let okey: Vec<u8> = k.iter().map(|x| x ^ 0x5c).collect();
        let mut inner = digest::Context::new(alg.dalg());
        inner.update(&ikey);
        Hmac { alg, inner, okey }
    }
    pub fn update(&mut self, d: &[u8]) {
        self.inner.update(d);
    }
    pub fn finish(self) -> Vec<u8> {
        let ih = self.inner.finish();
        let mut outer = digest::Context::new(self.alg.dalg());
        outer.update(&self.okey);
        outer.update(ih.as_ref());
        outer.finish().as_ref().to_vec()
    }
}

pub fn hmac(alg: Alg, key: &[u8], chunks: &[&[u8]]) -> Vec<u8> {
    let mut h = Hmac::new(alg, key);
    for c in chunks {
        h.update(c);
    }
    h.finish()
}

//------------ names -----------------------------------------------------------

pub fn name_wire(l: &Labels) -> Vec<u8> {
    let mut v = vec![];
    for x in l {
        v.push(x.len() as u8);
        v.extend_from_slice(x);
    }
    v.push(0);
    v
}

pub fn name_canon(l: &Labels) -> Vec<u8> {
    let mut v = name_wire(l);
    v.make_ascii_lowercase(); // length octets are <= 63 and unaffected
    v
}

pub fn names_equal(a: &Labels, b: &Labels) -> bool {
    a.len() == b.len() && a.iter().zip(b).all(|(x, y)| x.eq_ignore_ascii_case(y))
}

pub fn t48(t: u64) -> [u8; 6] {
    let b = t.to_be_bytes();
    [b[2], b[3], b[4], b[5], b[6], b[7]]
}

//------------ TSIG RR ------------------------------------------------------------

#[derive(Clone, Debug, PartialEq, Eq)]
pub struct TsigRr {
    pub owner: Labels,
    pub class: u16,
    pub ttl: u32,
    pub alg: Labels,
    pub time: u64,
    pub fudge: u16,
    pub mac: Vec<u8>,
    pub orig_id: u16,
    pub error: u16,
    pub other: Vec<u8>,
}

/// Byte offsets of the fields of a TSIG RR relative to the RR start (for an
/// RR whose owner and algorithm names are not compressed).
#[derive(Clone, Debug, Default)]
pub struct TsigLayout {
    pub owner: (usize, usize),
    pub rtype: (usize, usize),
    pub class: (usize, usize),
    pub ttl: (usize, usize),
    pub rdlen: (usize, usize),
    pub alg: (usize, usize),
    pub time: (usize, usize),
    pub fudge: (usize, usize),
    pub mac_size: (usize, usize),
    pub mac: (usize, usize),
    pub orig_id: (usize, usize),
    pub error: (usize, usize),
    pub other_len: (usize, usize),
    pub other: (usize, usize),
    pub end: usize,
}

impl TsigRr {
    pub fn rdata(&self) -> Vec<u8> {
        let mut v = name_wire(&self.alg);
        v.extend_from_slice(&t48(self.time));
        v.extend_from_slice(&self.fudge.to_be_bytes());
        v.extend_from_slice(&(self.mac.len() as u16).to_be_bytes());
        v.extend_from_slice(&self.mac);
        v.extend_from_slice(&self.orig_id.to_be_bytes());
        v.extend_from_slice(&self.error.to_be_bytes());
        v.extend_from_slice(&(self.other.len() as u16).to_be_bytes());
        v.extend_from_slice(&self.other);
        v
    }
    pub fn to_wire(&self) -> Vec<u8> {
        let mut v = name_wire(&self.owner);
        v.extend_from_slice(&TSIG.to_be_bytes());
        v.extend_from_slice(&self.class.to_be_bytes());
        v.extend_from_slice(&self.ttl.to_be_bytes());
        let rd = self.rdata();
        v.extend_from_slice(&(rd.len() as u16).to_be_bytes());
        v.extend_from_slice(&rd);
        v
    }
    pub fn layout(&self) -> TsigLayout {
        let mut p = 0usize;
        let mut f = |n: usize| {
            let r = (p, p + n);
            p += n;
            r
        };
        let l = TsigLayout {
            owner: f(name_wire(&self.owner).len()),
            rtype: f(2),
            class: f(2),
            ttl: f(4),
            rdlen: f(2),
            alg: f(name_wire(&self.alg).len()),
            time: f(6),
            fudge: f(2),
            mac_size: f(2),
            mac: f(self.mac.len()),
            orig_id: f(2),
            error: f(2),
            other_len: f(2),
            other: f(self.other.len()),
            end: 0,
        };
        TsigLayout { end: p, ..l }
    }
}

/// TSIG variables of RFC 8945 §4.3.3 (name and algorithm in canonical form).
pub fn variables(key_name: &Labels, class: u16, ttl: u32, alg: &Labels, time: u64, fudge: u16, error: u16, other: &[u8]) -> Vec<u8> {
    let mut v = name_canon(key_name);
    v.extend_from_slice(&class.to_be_bytes());
    v.extend_from_slice(&ttl.to_be_bytes());
    v.extend_from_slice(&name_canon(alg));
    v.extend_from_slice(&t48(time));
    v.extend_from_slice(&fudge.to_be_bytes());
    v.extend_from_slice(&error.to_be_bytes());
    v.extend_from_slice(&(other.len() as u16).to_be_bytes());
    v.extend_from_slice(other);
    v
}

pub fn timers(time: u64, fudge: u16) -> Vec<u8> {
    let mut v = t48(time).to_vec();
    v.extend_from_slice(&fudge.to_be_bytes());
    v
}

/// §4.3.1: MAC size (16 bit) followed by the MAC octets as they went over the wire.
pub fn mac_prefix(mac: &[u8]) -> Vec<u8> {
    let mut v = (mac.len() as u16).to_be_bytes().to_vec();
    v.extend_from_slice(mac);
    v
}

//------------ keys, signing ----------------------------------------------------------

#[derive(Clone, Debug, PartialEq, Eq, Hash)]
pub struct RefKey {
    pub alg: Alg,
    pub secret: Vec<u8>,
    pub name: Labels,
}

/// What precedes the message in the digest.
#[derive(Clone, Debug)]
pub enum Prior<'a> {
    /// a request: nothing
    None,
    /// a response (or first message of a sequence): the request MAC
    /// a subsequent message: the MAC of the previous signed message
    Mac(&'a [u8]),
}

/// Full (untruncated) MAC over `prior | extra messages | message | variables`
/// (`timers_only` selects §5.3.1 subsequent-message form).
#[allow(clippy::too_many_arguments)]
pub fn full_mac(key: &RefKey, prior: &Prior, unsigned_between: &[Vec<u8>], msg_unsigned: &[u8], rr: &TsigRr, timers_only: bool) -> Vec<u8> {
    let mut h = Hmac::new(key.alg, &key.secret);
    if let Prior::Mac(m) = prior {
        h.update(&mac_prefix(m));
    }
    for m in unsigned_between {
        h.update(m);
    }
    h.update(msg_unsigned);
    if timers_only {
        h.update(&timers(rr.time, rr.fudge));
    } else {
        h.update(&variables(&rr.owner, rr.class, rr.ttl, &rr.alg, rr.time, rr.fudge, rr.error, &rr.other));
    }
    h.finish()
}

/// Appends the RR to the additional section (ARCOUNT + 1); the message ID
/// is left as it is.
pub fn append_rr(msg: &[u8], rr_wire: &[u8]) -> Vec<u8> {
    let mut v = msg.to_vec();
    let ar = u16::from_be_bytes([v[10], v[11]]).wrapping_add(1);
    v[10..12].copy_from_slice(&ar.to_be_bytes());
    v.extend_from_slice(rr_wire);
    v
}

#[derive(Clone, Debug)]
pub struct SignParams {
    pub time: u64,
    pub fudge: u16,
    pub error: u16,
    pub other: Vec<u8>,
    /// length the MAC is truncated to on the wire
    pub mac_len: usize,
}

/// Signs `msg` (an unsigned message) the way RFC 8945 says. Returns the
/// signed message and the MAC as it is on the wire.
pub fn sign(key: &RefKey, owner_as_sent: &Labels, prior: &Prior, unsigned_between: &[Vec<u8>], msg: &[u8], p: &SignParams, timers_only: bool) -> (Vec<u8>, Vec<u8>) {
    let id = u16::from_be_bytes([msg[0], msg[1]]);
    let mut rr = TsigRr {
        owner: owner_as_sent.clone(),
        class: ANY,
        ttl: 0,
        alg: key.alg.labels(),
        time: p.time,
        fudge: p.fudge,
        mac: vec![],
        orig_id: id,
        error: p.error,
        other: p.other.clone(),
    };
    let mut mac = full_mac(key, prior, unsigned_between, msg, &rr, timers_only);
    mac.truncate(p.mac_len);
    rr.mac = mac.clone();
    (append_rr(msg, &rr.to_wire()), mac)
}

//------------ reading a signed message ---------------------------------------------------

#[derive(Clone, Debug)]
pub struct Split {
    /// the message as it has to enter the digest: TSIG removed, ARCOUNT
    /// decremented, ID replaced by the original ID
    pub unsigned: Vec<u8>,
    pub rr: TsigRr,
    /// offset of the TSIG RR
    pub start: usize,
}

fn parse_tsig_rdata(msg: &[u8], start: usize, end: usize) -> Result<(Labels, u64, u16, Vec<u8>, u16, u16, Vec<u8>), String> {
    let (alg, mut p, _) = read_name(msg, start, end).map_err(|e| format!("algorithm name: {e:?}"))?;
    let need = |p: usize, n: usize| if p + n <= end { Ok(()) } else { Err(format!("rdata short at {p}+{n} > {end}")) };
    need(p, 10)?;
    let mut t = 0u64;
    for i in 0..6 {
        t = (t << 8) | msg[p + i] as u64;
    }
    p += 6;
    let g16 = |p: usize| u16::from_be_bytes([msg[p], msg[p + 1]]);
    let fudge = g16(p);
    let ms = g16(p + 2) as usize;
    p += 4;
    need(p, ms + 6)?;
    let mac = msg[p..p + ms].to_vec();
    p += ms;
    let orig = g16(p);
    let err = g16(p + 2);
    let ol = g16(p + 4) as usize;
    p += 6;
    need(p, ol)?;
    let other = msg[p..p + ol].to_vec();
    p += ol;
    if p != end {
        return Err(format!("trailing octets in TSIG rdata: {} left", end - p));
    }
    Ok((alg, t, fudge, mac, orig, err, other))
}

/// Finds the TSIG RR of a signed message: it must be the last record, sit in
/// the additional section and end exactly at the end of the message, and no
/// other record may have type TSIG.
pub fn split(signed: &[u8]) -> Result<Split, String> {
    let w = wire::walk(signed).ok_or("shorter than a header")?;
    if let Some((i, e)) = &w.error {
        return Err(format!("walk error at item {i}: {e:?}"));
    }
    if w.end != signed.len() {
        return Err(format!("{} trailing octets after the last record", signed.len() - w.end));
    }
    let n250 = w.records.iter().filter(|r| r.rtype == TSIG).count();
    let last = w.records.last().ok_or("no records")?;
    if last.rtype != TSIG || last.section != 3 {
        return Err(format!("last record is type {} in section {}", last.rtype, last.section));
    }
    if n250 != 1 {
        return Err(format!("{n250} records of type TSIG"));
    }
    let owner = last.owner.clone().map_err(|e| format!("owner: {e:?}"))?;
    let (alg, time, fudge, mac, orig_id, error, other) = parse_tsig_rdata(signed, last.rd_start, last.rd_end)?;
    let mut unsigned = signed[..last.start].to_vec();
    unsigned[0..2].copy_from_slice(&orig_id.to_be_bytes());
    let ar = w.header.counts[3].wrapping_sub(1);
    unsigned[10..12].copy_from_slice(&ar.to_be_bytes());
    Ok(Split { unsigned, rr: TsigRr { owner, class: last.class, ttl: last.ttl, alg, time, fudge, mac, orig_id, error, other }, start: last.start })
}

/// Where TSIG-typed records sit in a message, by frame walking only:
/// (walk ok, Vec<(section, record index in walk order, is_last_record)>).
pub fn locate_tsigs(msg: &[u8]) -> (bool, Vec<(u8, usize, bool)>) {
    let Some(w) = wire::walk(msg) else { return (false, vec![]) };
    let n = w.records.len();
    let v = w.records.iter().enumerate().filter(|(_, r)| r.rtype == TSIG).map(|(i, r)| (r.section, i, i + 1 == n)).collect();
    (w.error.is_none(), v)
}

//------------ running state of a multi-message response ---------------------------------------

/// Reference signer/verifier state for a sequence of response messages
/// (§5.3.1).
#[derive(Clone, Debug)]
pub struct RefSeq {
    pub key: RefKey,
    pub prior_mac: Vec<u8>,
    pub pending: Vec<Vec<u8>>,
    pub first: bool,
}

impl RefSeq {
    pub fn new(key: RefKey, request_mac: &[u8]) -> Self {
        RefSeq { key, prior_mac: request_mac.to_vec(), pending: vec![], first: true }
    }
    pub fn unsigned(&mut self, msg: &[u8]) {
        self.pending.push(msg.to_vec());
    }
    /// Full MAC a signed message at this point of the sequence must carry.
    pub fn expected(&self, unsigned_msg: &[u8], rr: &TsigRr) -> Vec<u8> {
        full_mac(&self.key, &Prior::Mac(&self.prior_mac), &self.pending, unsigned_msg, rr, !self.first)
    }
    /// Registers that a signed message with this wire MAC was sent/accepted.
    pub fn advance(&mut self, wire_mac: &[u8]) {
        self.prior_mac = wire_mac.to_vec();
        self.pending.clear();
        self.first = false;
    }
    pub fn sign(&mut self, owner_as_sent: &Labels, msg: &[u8], p: &SignParams) -> Vec<u8> {
        let (signed, mac) = sign(&self.key, owner_as_sent, &Prior::Mac(&self.prior_mac), &self.pending, msg, p, !self.first);
        self.advance(&mac);
        signed
    }
}

//------------ unit tests ----------------------------------------------------------------------------

#[cfg(test)]
mod test {
    use super::*;

    fn hx(s: &str) -> Vec<u8> {
        (0..s.len()).step_by(2).map(|i| u8::from_str_radix(&s[i..i + 2], 16).unwrap()).collect()
    }
    fn labels(s: &str) -> Labels {
        s.split('.').filter(|l| !l.is_empty()).map(|l| l.as_bytes().to_vec()).collect()
    }

    /// RFC 4231 test cases 1-4, 6, 7 (SHA-256/384/512) and RFC 2202 §3 test
    /// cases 1-4, 6, 7 (SHA-1).
    #[test]
    fn hmac_rfc_vectors() {
        let k4231: Vec<(Vec<u8>, Vec<u8>)> = vec![
            (vec![0x0b; 20], b"Hi There".to_vec()),
            (b"Jefe".to_vec(), b"what do ya want for nothing?".to_vec()),
            (vec![0xaa; 20], vec![0xdd; 50]),
            ((1u8..=25).collect(), vec![0xcd; 50]),
            (vec![0xaa; 131], b"Test Using Larger Than Block-Size Key - Hash Key First".to_vec()),
            (vec![0xaa; 131], b"This is a test using a larger than block-size key and a larger than block-size data. The key needs to be hashed before being used by the HMAC algorithm.".to_vec()),
        ];
        let want: [[&str; 3]; 6] = [
            ["b0344c61d8db38535ca8afceaf0bf12b881dc200c9833da726e9376c2e32cff7", "afd03944d84895626b0825f4ab46907f15f9dadbe4101ec682aa034c7cebc59cfaea9ea9076ede7f4af152e8b2fa9cb6", "87aa7cdea5ef619d4ff0b4241a1d6cb02379f4e2ce4ec2787ad0b30545e17cdedaa833b7d6b8a702038b274eaea3f4e4be9d914eeb61f1702e696c203a126854"],
            ["5bdcc146bf60754e6a042426089575c75a003f089d2739839dec58b964ec3843", "af45d2e376484031617f78d2b58a6b1b9c7ef464f5a01b47e42ec3736322445e8e2240ca5e69e2c78b3239ecfab21649", "164b7a7bfcf819e2e395fbe73b56e0a387bd64222e831fd610270cd7ea2505549758bf75c05a994a6d034f65f8f0e6fdcaeab1a34d4a6b4b636e070a38bce737"],
            ["773ea91e36800e46854db8ebd09181a72959098b3ef8c122d9635514ced565fe", "88062608d3e6ad8a0aa2ace014c8a86f0aa635d947ac9febe83ef4e55966144b2a5ab39dc13814b94e3ab6e101a34f27", "fa73b0089d56a284efb0f0756c890be9b1b5dbdd8ee81a3655f83e33b2279d39bf3e848279a722c806b485a47e67c807b946a337bee8942674278859e13292fb"],
            ["82558a389a443c0ea4cc819899f2083a85f0faa3e578f8077a2e3ff46729665b", "3e8a69b7783c25851933ab6290af6ca77a9981480850009cc5577c6e1f573b4e6801dd23c4a7d679ccf8a386c674cffb", "b0ba465637458c6990e5a8c5f61d4af7e576d97ff94b872de76f8050361ee3dba91ca5c11aa25eb4d679275cc5788063a5f19741120c4f2de2adebeb10a298dd"],
            ["60e431591ee0b67f0d8a26aacbf5b77f8e0bc6213728c5140546040f0ee37f54", "4ece084485813e9088d2c63a041bc5b44f9ef1012a2b588f3cd11f05033ac4c60c2ef6ab4030fe8296248df163f44952", "80b24263c7c1a3ebb71493c1dd7be8b49b46d1f41b4aeec1121b013783f8f3526b56d037e05f2598bd0fd2215d6a1e5295e64f73f63f0aec8b915a985d786598"],
            ["9b09ffa71b942fcb27635fbcd5b0e944bfdc63644f0713938a7f51535c3a35e2", "6617178e941f020d351e2f254e8fd32c602420feb0b8fb9adccebb82461e99c5a678cc31e799176d3860e6110c46523e", "e37b6a775dc87dbaa4dfa9f96e5e3ffddebd71f8867289865df5a32d20cdc944b6022cac3c4982b10d5eeb55c3e4de15134676fb6de0446065c97440fa8c6a58"],
        ];
        for (i, (k, d)) in k4231.iter().enumerate() {
            assert_eq!(hmac(Alg::Sha256, k, &[d]), hx(want[i][0]), "4231 case {i} sha256");
            assert_eq!(hmac(Alg::Sha384, k, &[d]), hx(want[i][1]), "4231 case {i} sha384");
            assert_eq!(hmac(Alg::Sha512, k, &[d]), hx(want[i][2]), "4231 case {i} sha512");
            // chunked updates give the same result
            let (a, b) = d.split_at(d.len() / 3);
            assert_eq!(hmac(Alg::Sha256, k, &[a, b]), hx(want[i][0]));
        }
        let k2202: Vec<(Vec<u8>, Vec<u8>, &str)> = vec![
            (vec![0x0b; 20], b"Hi There".to_vec(), "b617318655057264e28bc0b6fb378c8ef146be00"),
            (b"Jefe".to_vec(), b"what do ya want for nothing?".to_vec(), "effcdf6ae5eb2fa2d27416d5f184df9c259a7c79"),
            (vec![0xaa; 20], vec![0xdd; 50], "125d7342b9ac11cd91a39af48aa17b4f63f175d3"),
            ((1u8..=25).collect(), vec![0xcd; 50], "4c9007f4026250c6bc8414f9bf50c86c2d7235da"),
            (vec![0xaa; 80], b"Test Using Larger Than Block-Size Key - Hash Key First".to_vec(), "aa4ae5e15272d00e95705637ce8a3b55ed402112"),
            (vec![0xaa; 80], b"Test Using Larger Than Block-Size Key and Larger Than One Block-Size Data".to_vec(), "e8e99d0f45237d786d6bbaa7965c7808bbff1a91"),
        ];
        for (k, d, w) in k2202 {
            assert_eq!(hmac(Alg::Sha1, &k, &[&d]), hx(w));
        }
    }

    /// The signed query and the signed reply of /repo/test-data/server/tsig.rpl
    /// (key TESTKEY, 32 zero octets, hmac-sha256, time 0, fudge 300). The
    /// message octets were reconstructed from the scenario text (ID 0, no
    /// compression) and confirmed with an independent Python (hashlib/hmac)
    /// computation.
    #[test]
    fn tsig_rpl_exchange() {
        let key = RefKey { alg: Alg::Sha256, secret: vec![0; 32], name: labels("TESTKEY") };
        let q = hx("000000000001000000000000076578616d706c6503636f6d0000060001");
        let p = SignParams { time: 0, fudge: 300, error: 0, other: vec![], mac_len: 32 };
        let (signed, mac) = sign(&key, &key.name, &Prior::None, &[], &q, &p, false);
        assert_eq!(mac, hx("a1c86ced1815d60903129a525a14494516895d99ea94bf0b5b04338126a4d625"));
        // RDATA as in the scenario file
        let s = split(&signed).unwrap();
        assert_eq!(s.unsigned, q);
        assert_eq!(s.rr.rdata(), hx("0b686d61632d73686132353600000000000000012c0020a1c86ced1815d60903129a525a14494516895d99ea94bf0b5b04338126a4d625000000000000"));
        assert_eq!(s.rr.rdata().len(), 61);
        let r = hx("000084000001000100000000076578616d706c6503636f6d0000060001076578616d706c6503636f6d000006000100000e10003c026e73076578616d706c6503636f6d000a686f73746d6173746572076578616d706c6503636f6d000000000100000e10000003840001518000000e10");
        let (_, rmac) = sign(&key, &key.name, &Prior::Mac(&mac), &[], &r, &p, false);
        assert_eq!(rmac, hx("4780eaf3410a852578f71c9b5f57cd4cfd0fff73273cf88aed3541014c63d905"));
    }

    /// Vectors produced by a second, separately written implementation
    /// (Python hashlib/hmac, /verif/notes/C11.md): truncated SHA-1 request,
    /// first and later message of a sequence with two unsigned messages in
    /// between, SHA-384 BADTIME error, SHA-512 request at the 48-bit limit.
    #[test]
    fn tsig_second_implementation_vectors() {
        let secret = b"0123456789abcdefghij-secret".to_vec();
        let name = labels("Key.Example");
        let req = hx("123400000001000000000000045a6f6e65074578616d706c650000fc0001");
        let k1 = RefKey { alg: Alg::Sha1, secret: secret.clone(), name: name.clone() };
        let (_, rm) = sign(&k1, &name, &Prior::None, &[], &req, &SignParams { time: 0x0123456789ab, fudge: 300, error: 0, other: vec![], mac_len: 10 }, false);
        assert_eq!(rm, hx("0911a3cc712059b2da59"));
        let mut seq = RefSeq::new(k1.clone(), &rm);
        let m1 = hx("123484000001000000000000045a6f6e65074578616d706c650000fc0001");
        let s1 = seq.sign(&name, &m1, &SignParams { time: 0x0123456789ac, fudge: 301, error: 0, other: vec![], mac_len: 10 });
        assert_eq!(split(&s1).unwrap().rr.mac, hx("7fe6fbe988c2955bb015"));
        seq.unsigned(&hx("123484000000000000000000"));
        seq.unsigned(&hx("123584000001000000000000045a6f6e65074578616d706c650000fc0001"));
        let s4 = seq.sign(&name, &hx("123484000000000000000000"), &SignParams { time: 0x0123456789ad, fudge: 302, error: 0, other: vec![], mac_len: 10 });
        assert_eq!(split(&s4).unwrap().rr.mac, hx("9d46f4ae339c8c59f4d0"));
        // BADTIME
        let k3 = RefKey { alg: Alg::Sha384, secret: secret.clone(), name: name.clone() };
        let (_, rm) = sign(&k3, &name, &Prior::None, &[], &req, &SignParams { time: 1000, fudge: 300, error: 0, other: vec![], mac_len: 48 }, false);
        assert_eq!(rm, hx("206e700b9f0cea04148b5b18f32c0c936363aee3a60b1f96de312281be496d94832c3f5422f10577eb89eb66df6483cd"));
        let er = hx("123480090001000000000000045a6f6e65074578616d706c650000fc0001");
        let (es, em) = sign(&k3, &name, &Prior::Mac(&rm), &[], &er, &SignParams { time: 1000, fudge: 300, error: BADTIME, other: t48(0xFFFF_FFFF_FFFE).to_vec(), mac_len: 48 }, false);
        assert_eq!(em, hx("c497cea1a23a426eeadd025f79f0c7d521857443b7986107db5180eae186afce02dd77335f50bfeb2297224cefda6eb8"));
        let sp = split(&es).unwrap();
        assert_eq!(sp.rr.other.len(), 6);
        assert_eq!(sp.unsigned, er);
        let k5 = RefKey { alg: Alg::Sha512, secret, name: name.clone() };
        let (_, m) = sign(&k5, &name, &Prior::None, &[], &req, &SignParams { time: T48_MAX, fudge: 0xFFFF, error: 0, other: vec![], mac_len: 64 }, false);
        assert_eq!(m, hx("ddebb18cd744add3d6b4ecc522e3d591c98df3d26b9ba3a015e3633bb4dcc32a45517deac2ce462616ead33b9c8449f6cd92ba27d1118519d68c2929e56d1fff"));
    }

    #[test]
    fn layout_matches_wire() {
        let rr = TsigRr { owner: labels("a.bc"), class: ANY, ttl: 0, alg: Alg::Sha1.labels(), time: 5, fudge: 6, mac: vec![1, 2, 3], orig_id: 7, error: 0, other: vec![9; 6] };
        let w = rr.to_wire();
        let l = rr.layout();
        assert_eq!(l.end, w.len());
        assert_eq!(&w[l.rtype.0..l.rtype.1], &[0, 250]);
        assert_eq!(&w[l.mac.0..l.mac.1], &[1, 2, 3]);
        assert_eq!(&w[l.other.0..l.other.1], &[9; 6]);
        assert_eq!(&w[l.mac_size.0..l.mac_size.1], &[0, 3]);
        assert_eq!(u16::from_be_bytes([w[l.rdlen.0], w[l.rdlen.0 + 1]]) as usize, w.len() - l.rdlen.1);
    }
}
