//! C14: fault scripts applied to the message under validation or to the
//! replies of the DS / DNSKEY lookups the validator issues.
use super::auth::*;
use super::refsec::{self, keys};
use super::wire::*;
use super::world::*;

#[derive(Clone, Copy, Debug, PartialEq, Eq, Hash, PartialOrd, Ord)]
pub enum Effect {
    /// verdict must stay within the model's expectation
    Harmless,
    /// no claim beyond "not upgraded to Secure" and totality
    Neutral,
    /// data / signature / key chain / proof broken: verdict must not be Secure
    Breaking,
    /// a secure delegation or signed answer stripped of its DNSSEC material
    /// without signed proof: RFC 4033 §5 allows only Bogus
    Downgrade,
}

#[derive(Clone, Copy, Debug, PartialEq, Eq, Hash)]
pub enum SKind {
    DropSig,
    CorruptSig,
    MutSigField,
    Expired,
    NotYetValid,
    WrongSigner,
    UnknownKey,
    UnknownKeySameTag,
    CorruptRdata,
    AddRecord,
    RemoveRecord,
    DropSetKeepSig,
    DropSet,
    ExtraValidSig,
    KskSigned,
    ExtraBadSig,
    DupRecord,
    UnrelatedSigned,
    UnrelatedUnsigned,
    HostileAdd,
    HostileReplace,
    StripDnssec,
    Counts,
    Truncate,
    FlipByte,
    UpstreamError,
    KeyMalformed,
    /// the classic forgery: data re-signed with the attacker's key, and the
    /// zone's DNSKEY RRset replaced by a self-signed set holding that key
    ForgedKey,
    ForgedDnskey,
    /// the answer RRset replaced by a genuine, signed RRset of another name
    Substitute,
}

pub const SKINDS_ANSWER: &[SKind] = &[
    SKind::DropSig,
    SKind::CorruptSig,
    SKind::MutSigField,
    SKind::Expired,
    SKind::NotYetValid,
    SKind::WrongSigner,
    SKind::UnknownKey,
    SKind::UnknownKeySameTag,
    SKind::CorruptRdata,
    SKind::AddRecord,
    SKind::RemoveRecord,
    SKind::DropSetKeepSig,
    SKind::DropSet,
    SKind::DropSet,
    SKind::ForgedKey,
    SKind::ForgedKey,
    SKind::Substitute,
    SKind::ExtraValidSig,
    SKind::KskSigned,
    SKind::ExtraBadSig,
    SKind::DupRecord,
    SKind::UnrelatedSigned,
    SKind::UnrelatedUnsigned,
    SKind::HostileAdd,
    SKind::HostileAdd,
    SKind::HostileReplace,
    SKind::StripDnssec,
    SKind::Counts,
    SKind::Truncate,
    SKind::FlipByte,
];

pub const SKINDS_LOOKUP: &[SKind] = &[
    SKind::DropSig,
    SKind::CorruptSig,
    SKind::MutSigField,
    SKind::Expired,
    SKind::NotYetValid,
    SKind::WrongSigner,
    SKind::UnknownKey,
    SKind::UnknownKeySameTag,
    SKind::CorruptRdata,
    SKind::AddRecord,
    SKind::RemoveRecord,
    SKind::DropSetKeepSig,
    SKind::DropSet,
    SKind::ExtraValidSig,
    SKind::ExtraBadSig,
    SKind::DupRecord,
    SKind::UnrelatedSigned,
    SKind::HostileAdd,
    SKind::HostileReplace,
    SKind::StripDnssec,
    SKind::StripDnssec,
    SKind::Counts,
    SKind::Truncate,
    SKind::FlipByte,
    SKind::UpstreamError,
    SKind::UpstreamError,
    SKind::KeyMalformed,
    SKind::KeyMalformed,
];

#[derive(Clone, Copy, Debug, PartialEq, Eq, Hash)]
pub enum CKind {
    Reorder,
    TtlDown,
    TtlZero,
    TtlUp,
    CaseOwner,
    Compress,
    AdditionalJunk,
}
pub const CKINDS: &[CKind] = &[CKind::Reorder, CKind::TtlDown, CKind::TtlZero, CKind::TtlUp, CKind::CaseOwner, CKind::Compress, CKind::AdditionalJunk];

#[derive(Clone, Debug, PartialEq, Eq, Hash)]
pub struct FaultSpec {
    pub structural: Option<(SKind, u8, u16)>,
    pub cosmetic: Vec<(CKind, u8, u16)>,
}

#[derive(Clone, Debug)]
pub struct Applied {
    pub effect: Effect,
    pub label: String,
    /// the fault touched an object that carries or needs a signature
    pub touches_signed: bool,
    /// ForgedKey: the zone whose DNSKEY lookup has to be forged as well
    pub forged_zone: Option<usize>,
}

/// What leaves the fault stage: either message octets or an upstream error.
pub enum Wire {
    Bytes(Vec<u8>),
    Error,
}

//------------ helpers ------------------------------------------------------------------

fn sec_mut(m: &mut Msg, section: u8) -> &mut Vec<Rec> {
    if section == 0 {
        &mut m.answer
    } else {
        &mut m.authority
    }
}
fn sec(m: &Msg, section: u8) -> &Vec<Rec> {
    if section == 0 {
        &m.answer
    } else {
        &m.authority
    }
}

fn data_of(m: &Msg, s: &SetInfo) -> Vec<Rec> {
    sec(m, s.section).iter().filter(|r| r.rtype == s.rtype && name_eq(&r.owner, &s.owner)).cloned().collect()
}
fn is_sig_of(r: &Rec, s: &SetInfo) -> bool {
    r.rtype == T_RRSIG && r.covered() == s.rtype && name_eq(&r.owner, &s.owner)
}
fn sigs_of(m: &Msg, s: &SetInfo) -> Vec<Rec> {
    sec(m, s.section).iter().filter(|r| is_sig_of(r, s)).cloned().collect()
}

/// Craft an RRSIG over `rrset` (as it appears in the message).
#[allow(clippy::too_many_arguments)]
pub fn craft_sig(key_idx: usize, dnskey_rdata: &[u8], signer: &[u8], rrset: &[Rec], labels: u8, orig_ttl: u32, inception: u32, expiration: u32, tag: Option<u16>) -> Rec {
    let mut f = SigFields {
        covered: rrset[0].rtype,
        alg: dnskey_rdata[3],
        labels,
        orig_ttl,
        expiration,
        inception,
        key_tag: tag.unwrap_or_else(|| refsec::key_tag(dnskey_rdata)),
        signer: signer.to_vec(),
        signature: vec![],
    };
    let data = refsec::signed_data(&f, rrset);
    f.signature = keys()[key_idx].sign(&data);
    Rec { owner: rrset[0].owner.clone(), rtype: T_RRSIG, class: 1, ttl: rrset[0].ttl, rdata: f.rdata() }
}

/// Labels / original TTL to use when re-signing the set: taken from the
/// genuine RRSIG when there is one (keeps wildcard expansions intact).
fn sig_params(m: &Msg, s: &SetInfo) -> (u8, u32) {
    if let Some(f) = sigs_of(m, s).first().and_then(|r| parse_rrsig(&r.rdata)) {
        return (f.labels, f.orig_ttl);
    }
    let lc = label_count(&s.owner) - usize::from(s.owner.starts_with(b"\x01*"));
    (lc as u8, 3600)
}

fn zone_signing(z: &Zone, rtype: u16) -> (usize, Vec<u8>) {
    if rtype == T_DNSKEY {
        (z.ksk, z.dnskey_rdata(true))
    } else {
        (z.zsk, z.dnskey_rdata(false))
    }
}

/// Flip something inside RDATA while keeping it parseable.
fn tweak_rdata(rtype: u16, rd: &mut Vec<u8>) -> bool {
    if rd.is_empty() {
        return false;
    }
    match rtype {
        T_NS | T_CNAME | T_MX => {
            // last octet is the root label; change the last character before it
            if rd.len() >= 3 {
                let i = rd.len() - 2;
                rd[i] = if rd[i] == b'q' { b'r' } else { b'q' };
                true
            } else {
                false
            }
        }
        T_NSEC => {
            // toggle a bit in the last bitmap octet (types present change)
            let i = rd.len() - 1;
            rd[i] ^= 0x02;
            if rd[i] == 0 {
                rd[i] = 0x04;
            }
            true
        }
        T_NSEC3 => {
            let i = rd.len() - 1;
            rd[i] ^= 0x02;
            if rd[i] == 0 {
                rd[i] = 0x04;
            }
            true
        }
        _ => {
            let i = rd.len() - 1;
            rd[i] ^= 0x01;
            true
        }
    }
}

//------------ structural faults -------------------------------------------------------------

/// Applies one structural fault to the message. Returns None when the fault
/// has no object to act on (then the message is untouched).
pub fn apply_structural(w: &World, m: &mut Msg, sets: &mut Vec<SetInfo>, kind: SKind, sel: u8, param: u16, lookup_of: Option<(usize, u16)>, final_qtype: u16) -> Option<Applied> {
    let secure_zone = |zi: usize| w.zones[zi].status == Status::Secure && w.zones[zi].shape.signed;
    let signed_sets: Vec<usize> = (0..sets.len()).filter(|&i| !sigs_of(m, &sets[i]).is_empty()).collect();
    let pick = |v: &Vec<usize>| -> Option<usize> {
        if v.is_empty() {
            None
        } else {
            Some(v[sel as usize % v.len()])
        }
    };
    let all: Vec<usize> = (0..sets.len()).collect();
    let breaking_if = |zi: usize| if secure_zone(zi) { Effect::Breaking } else { Effect::Neutral };
    // Courtesy data in the authority section of a positive answer (the
    // zone's NS RRset) is not part of what RFC 4035 §3.2.3 calls authentic.
    let breaking_set = |s: &SetInfo| if lookup_of.is_none() && s.section == 1 && s.roles == [Role::Extra] { Effect::Neutral } else { breaking_if(s.zone) };
    let label = |k: &str, s: &SetInfo| format!("{k}:{}", tname(s.rtype));
    match kind {
        SKind::DropSig => {
            let i = pick(&signed_sets)?;
            let s = sets[i].clone();
            sec_mut(m, s.section).retain(|r| !is_sig_of(r, &s));
            Some(Applied { effect: breaking_set(&s), label: label("drop-sig", &s), touches_signed: true, forged_zone: None })
        }
        SKind::CorruptSig => {
            let i = pick(&signed_sets)?;
            let s = sets[i].clone();
            for r in sec_mut(m, s.section).iter_mut().filter(|r| is_sig_of(r, &s)) {
                let f = parse_rrsig(&r.rdata)?;
                let off = r.rdata.len() - f.signature.len();
                let pos = off + (param as usize % f.signature.len().max(1));
                r.rdata[pos] ^= 1 << (param >> 13);
            }
            Some(Applied { effect: breaking_set(&s), label: label("corrupt-sig", &s), touches_signed: true, forged_zone: None })
        }
        SKind::MutSigField => {
            let i = pick(&signed_sets)?;
            let s = sets[i].clone();
            let field = param % 8;
            let names = ["labels", "orig-ttl", "expiration", "inception", "key-tag", "algorithm", "signer", "type-covered"];
            for r in sec_mut(m, s.section).iter_mut().filter(|r| is_sig_of(r, &s)) {
                let mut f = parse_rrsig(&r.rdata)?;
                match field {
                    0 => f.labels = if param & 0x100 != 0 { f.labels.wrapping_add(1) } else { f.labels.wrapping_sub(1) },
                    1 => f.orig_ttl = f.orig_ttl.wrapping_add(1 + (param >> 8) as u32),
                    2 => f.expiration = f.expiration.wrapping_add(3600),
                    3 => f.inception = f.inception.wrapping_sub(3600),
                    4 => f.key_tag = f.key_tag.wrapping_add(1),
                    5 => f.alg = if f.alg == 13 { 14 } else { 13 },
                    6 => f.signer = parent(&f.signer).unwrap_or_else(|| nm("tld.")),
                    _ => f.covered = if f.covered == T_TXT { T_A } else { T_TXT },
                }
                r.rdata = f.rdata();
            }
            Some(Applied { effect: breaking_set(&s), label: format!("mut-sig-{}:{}", names[field as usize], tname(s.rtype)), touches_signed: true, forged_zone: None })
        }
        SKind::Expired | SKind::NotYetValid | SKind::UnknownKey | SKind::UnknownKeySameTag | SKind::KskSigned | SKind::ExtraValidSig | SKind::ExtraBadSig => {
            let i = pick(&signed_sets)?;
            let s = sets[i].clone();
            let z = &w.zones[s.zone];
            let rrset = data_of(m, &s);
            let (labels, ottl) = sig_params(m, &s);
            let (kidx, krd) = zone_signing(z, s.rtype);
            let day = 86400u32;
            let (eff, name, rec, replace) = match kind {
                SKind::Expired => {
                    let r = craft_sig(kidx, &krd, &z.apex, &rrset, labels, ottl, w.inception.wrapping_sub(9 * day), w.inception, None);
                    (breaking_set(&s), "expired", r, true)
                }
                SKind::NotYetValid => {
                    let r = craft_sig(kidx, &krd, &z.apex, &rrset, labels, ottl, w.expiration, w.expiration.wrapping_add(9 * day), None);
                    (breaking_set(&s), "not-yet-valid", r, true)
                }
                SKind::UnknownKey | SKind::UnknownKeySameTag => {
                    // a P-256 key that is in no DNSKEY RRset of this zone
                    let other = (0..refsec::K_P256_COUNT).find(|k| *k != z.ksk && *k != z.zsk)?;
                    let ord = keys()[other].dnskey_rdata(256);
                    let tag = if kind == SKind::UnknownKeySameTag { Some(refsec::key_tag(&krd)) } else { None };
                    // with the same tag the algorithm must match as well for the
                    // validator to even try the key
                    if kind == SKind::UnknownKeySameTag && krd[3] != 13 {
                        return None;
                    }
                    let r = craft_sig(other, &ord, &z.apex, &rrset, labels, ottl, w.inception, w.expiration, tag);
                    (breaking_set(&s), if tag.is_some() { "unknown-key-same-tag" } else { "unknown-key" }, r, true)
                }
                SKind::KskSigned => {
                    if z.ksk == z.zsk || s.rtype == T_DNSKEY {
                        return None;
                    }
                    let r = craft_sig(z.ksk, &z.dnskey_rdata(true), &z.apex, &rrset, labels, ottl, w.inception, w.expiration, None);
                    (Effect::Harmless, "signed-by-ksk", r, true)
                }
                SKind::ExtraValidSig => {
                    let r = craft_sig(kidx, &krd, &z.apex, &rrset, labels, ottl, w.inception.wrapping_sub(60), w.expiration.wrapping_sub(60), None);
                    (Effect::Harmless, "extra-valid-sig", r, false)
                }
                _ => {
                    let mut r = craft_sig(kidx, &krd, &z.apex, &rrset, labels, ottl, w.inception.wrapping_sub(60), w.expiration.wrapping_sub(60), None);
                    let n = r.rdata.len();
                    r.rdata[n - 1] ^= 0x55;
                    (Effect::Neutral, "extra-bad-sig", r, false)
                }
            };
            let v = sec_mut(m, s.section);
            if replace {
                v.retain(|r| !is_sig_of(r, &s));
            }
            // keep it next to its RRset
            let pos = v.iter().rposition(|r| name_eq(&r.owner, &s.owner) && (r.rtype == s.rtype || is_sig_of(r, &s))).map(|p| p + 1).unwrap_or(v.len());
            let at_front = !replace && param & 1 == 1;
            let pos = if at_front { v.iter().position(|r| is_sig_of(r, &s)).unwrap_or(pos) } else { pos };
            v.insert(pos, rec);
            Some(Applied { effect: eff, label: label(name, &s), touches_signed: true, forged_zone: None })
        }
        SKind::WrongSigner => {
            let i = pick(&signed_sets)?;
            let s = sets[i].clone();
            // candidate signer zones: secure, signed, not the set's own zone
            let cands: Vec<usize> = (0..w.zones.len()).filter(|&j| j != s.zone && secure_zone(j)).collect();
            if cands.is_empty() {
                return None;
            }
            let j = cands[param as usize % cands.len()];
            let sz = &w.zones[j];
            let rrset = data_of(m, &s);
            let (labels, ottl) = sig_params(m, &s);
            let rec = craft_sig(sz.zsk, &sz.dnskey_rdata(false), &sz.apex, &rrset, labels, ottl, w.inception, w.expiration, None);
            let ancestor = ends_with(&s.owner, &sz.apex);
            let v = sec_mut(m, s.section);
            let pos = v.iter().position(|r| is_sig_of(r, &s)).unwrap_or(v.len());
            v.retain(|r| !is_sig_of(r, &s));
            v.insert(pos.min(v.len()), rec);
            // A signer at or above the owner still chains to the anchor: the
            // statement makes no claim. Anything else is a wrong signer.
            let eff = if ancestor { Effect::Neutral } else { breaking_set(&s) };
            Some(Applied { effect: eff, label: format!("wrong-signer-{}:{}", if ancestor { "ancestor" } else { "foreign" }, tname(s.rtype)), touches_signed: true, forged_zone: None })
        }
        SKind::CorruptRdata | SKind::AddRecord | SKind::RemoveRecord => {
            let i = pick(&all)?;
            let s = sets[i].clone();
            let v = sec_mut(m, s.section);
            let idxs: Vec<usize> = (0..v.len()).filter(|&k| v[k].rtype == s.rtype && name_eq(&v[k].owner, &s.owner)).collect();
            if idxs.is_empty() {
                return None;
            }
            let k = idxs[param as usize % idxs.len()];
            let name = match kind {
                SKind::CorruptRdata => {
                    let t = v[k].rtype;
                    if !tweak_rdata(t, &mut v[k].rdata) {
                        return None;
                    }
                    "corrupt-rdata"
                }
                SKind::AddRecord => {
                    let mut r = v[k].clone();
                    if !tweak_rdata(r.rtype, &mut r.rdata) {
                        return None;
                    }
                    if v.iter().any(|x| *x == r) {
                        return None;
                    }
                    v.insert(k + 1, r);
                    "add-record"
                }
                _ => {
                    if idxs.len() < 2 {
                        return None;
                    }
                    v.remove(k);
                    "remove-record"
                }
            };
            let signed = !sigs_of(m, &s).is_empty();
            // the CNAME that accompanies a DNAME is covered by the DNAME's
            // signature only as long as it is exactly the synthesised one
            let synth = s.roles.contains(&Role::SynthCname);
            Some(Applied { effect: if signed || synth { breaking_set(&s) } else { Effect::Neutral }, label: label(if synth { "tamper-synthesized-cname" } else { name }, &s), touches_signed: signed || synth, forged_zone: None })
        }
        SKind::DropSetKeepSig | SKind::DropSet => {
            let i = pick(&all)?;
            let s = sets[i].clone();
            let signed = !sigs_of(m, &s).is_empty();
            let keep = kind == SKind::DropSetKeepSig;
            sec_mut(m, s.section).retain(|r| !((r.rtype == s.rtype && name_eq(&r.owner, &s.owner)) || (!keep && is_sig_of(r, &s))));
            let necessary = s.roles.iter().any(|r| r.necessary());
            let eff = if !necessary {
                Effect::Neutral
            } else if lookup_of.is_some() {
                // a lookup reply that lost its DS/DNSKEY/proof set
                breaking_set(&s)
            } else if s.roles.iter().any(|r| r.is_proof()) || s.roles.contains(&Role::Data) || s.roles.contains(&Role::Cname) {
                breaking_set(&s)
            } else {
                Effect::Neutral
            };
            let roles: Vec<String> = s.roles.iter().map(|r| format!("{r:?}")).collect();
            if !keep {
                sets.remove(i);
            }
            Some(Applied { effect: eff, label: format!("{}:{}:{}", if keep { "drop-set-keep-sig" } else { "drop-set" }, tname(s.rtype), roles.join("+")), touches_signed: signed, forged_zone: None })
        }
        SKind::DupRecord => {
            let i = pick(&all)?;
            let s = sets[i].clone();
            let v = sec_mut(m, s.section);
            let k = v.iter().position(|r| r.rtype == s.rtype && name_eq(&r.owner, &s.owner))?;
            let r = v[k].clone();
            let at = if param & 1 == 1 { v.len() } else { k + 1 };
            v.insert(at, r);
            Some(Applied { effect: Effect::Neutral, label: label("dup-record", &s), touches_signed: false, forged_zone: None })
        }
        SKind::UnrelatedSigned | SKind::UnrelatedUnsigned => {
            // a genuine RRset of some other zone of the world
            let cands: Vec<usize> = (0..w.zones.len()).filter(|&j| w.zones[j].nodes.len() > 3).collect();
            let j = cands[param as usize % cands.len()];
            let z = &w.zones[j];
            let owner = {
                let mut n = z.apex.clone();
                n = prepend(b"ns", &n);
                n
            };
            if sets.iter().any(|s| name_eq(&s.owner, &owner)) {
                return None;
            }
            let node = z.node(&owner)?;
            let rr = node.rrsets.get(&T_A)?;
            let section = (param >> 8) as u8 & 1;
            let v = sec_mut(m, section);
            for r in rr {
                v.push(r.clone());
            }
            let signed = kind == SKind::UnrelatedSigned;
            if signed {
                for r in node.sigs.get(&T_A).into_iter().flatten() {
                    v.push(r.clone());
                }
            }
            // RFC 4035 §3.2.3: every RRset of the *answer* section has to be
            // authentic; unrelated authority data is outside the claim.
            let _ = secure_zone(j);
            let eff = if signed || section == 1 { Effect::Neutral } else { Effect::Breaking };
            Some(Applied { effect: eff, label: format!("unrelated-{}-{}", if signed { "signed" } else { "unsigned" }, if section == 0 { "answer" } else { "authority" }), touches_signed: secure_zone(j), forged_zone: None })
        }
        SKind::HostileAdd | SKind::HostileReplace => hostile(w, m, sets, kind == SKind::HostileReplace, sel, param),
        SKind::StripDnssec => {
            // plain-DNS view of the reply: no RRSIG / NSEC / NSEC3 / DS
            let had_sig = m.answer.iter().chain(m.authority.iter()).any(|r| r.rtype == T_RRSIG);
            if !had_sig {
                return None;
            }
            let variant = param % 4;
            let zi = sets.first().map(|s| s.zone)?;
            match variant {
                0 => {
                    // everything gone but the question
                    m.answer.clear();
                    m.authority.clear();
                }
                1 => {
                    for v in [&mut m.answer, &mut m.authority] {
                        v.retain(|r| !matches!(r.rtype, T_RRSIG | T_NSEC | T_NSEC3 | T_DS | T_DNSKEY));
                    }
                }
                2 => {
                    // signatures only
                    for v in [&mut m.answer, &mut m.authority] {
                        v.retain(|r| r.rtype != T_RRSIG);
                    }
                }
                _ => {
                    // proofs stay, their signatures are damaged
                    for v in [&mut m.answer, &mut m.authority] {
                        for r in v.iter_mut().filter(|r| r.rtype == T_RRSIG) {
                            let n = r.rdata.len();
                            r.rdata[n - 1] ^= 0x80;
                        }
                    }
                }
            }
            let eff = if !secure_zone(zi) {
                Effect::Neutral
            } else if lookup_of.is_some() || variant != 0 {
                Effect::Downgrade
            } else {
                // an empty final answer carries nothing to call secure
                Effect::Breaking
            };
            Some(Applied { effect: eff, label: format!("strip-dnssec-v{variant}"), touches_signed: true, forged_zone: None })
        }
        SKind::KeyMalformed => {
            // only meaningful for DNSKEY lookups: a DNSKEY RRset, validly
            // re-signed by the KSK, in which the ZSK (or an extra key) carries
            // a malformed public key
            let (zi, qt) = lookup_of?;
            if qt != T_DNSKEY {
                return None;
            }
            let z = &w.zones[zi];
            if !z.shape.signed {
                return None;
            }
            let i = sets.iter().position(|s| s.rtype == T_DNSKEY)?;
            let s = sets[i].clone();
            let variant = param % 6;
            let replace_zsk = (param >> 8) & 1 == 1 && z.ksk != z.zsk;
            let zsk_rd = z.dnskey_rdata(false);
            let mut bad = zsk_rd.clone();
            match variant {
                0 => bad.truncate(4),                 // empty public key
                1 => bad.truncate(5),                 // one octet
                2 => bad.truncate(4 + 31),            // short by design
                3 => bad.extend_from_slice(&[0; 7]),  // too long
                4 => {
                    for b in bad[4..].iter_mut() {
                        *b = 0xff; // not on the curve / not a modulus
                    }
                }
                _ => {
                    bad[2] = 2; // protocol field must be 3
                }
            }
            if !replace_zsk {
                // additional key; make it RSA-flavoured now and then
                if (param >> 9) & 1 == 1 {
                    bad[3] = 8;
                }
            }
            let v = sec_mut(m, s.section);
            if v.iter().any(|r| r.rtype == T_DNSKEY && r.rdata == bad) {
                return None;
            }
            if replace_zsk {
                v.retain(|r| !(r.rtype == T_DNSKEY && r.rdata == zsk_rd));
            }
            let at = v.iter().position(|r| r.rtype == T_DNSKEY).unwrap_or(0);
            v.insert(if (param >> 10) & 1 == 1 { at } else { at + 1 }, Rec::new(&z.apex, T_DNSKEY, 3600, bad));
            // re-sign with the KSK so that the set itself is authentic
            v.retain(|r| !is_sig_of(r, &s));
            let rrset: Vec<Rec> = v.iter().filter(|r| r.rtype == T_DNSKEY).cloned().collect();
            let rec = craft_sig(z.ksk, &z.dnskey_rdata(true), &z.apex, &rrset, label_count(&z.apex) as u8, 3600, w.inception, w.expiration, None);
            v.push(rec);
            // a DNSKEY query is answered by the KSK-signed set alone
            let eff = if replace_zsk && final_qtype != T_DNSKEY { breaking_if(zi) } else { Effect::Neutral };
            Some(Applied { effect: eff, label: format!("dnskey-malformed-v{variant}-{}", if replace_zsk { "replaces-zsk" } else { "extra" }), touches_signed: true, forged_zone: None })
        }
        SKind::Substitute => {
            let i = sets.iter().position(|s| s.section == 0 && s.roles.contains(&Role::Data))?;
            let s = sets[i].clone();
            let z = &w.zones[s.zone];
            if !secure_zone(s.zone) {
                return None;
            }
            let other_owner = prepend(b"ns", &z.apex);
            if name_eq(&other_owner, &s.owner) {
                return None;
            }
            let node = z.node(&other_owner)?;
            let rr = node.rrsets.get(&T_A)?;
            let v = sec_mut(m, 0);
            v.retain(|r| !((r.rtype == s.rtype && name_eq(&r.owner, &s.owner)) || is_sig_of(r, &s)));
            for r in rr.iter().chain(node.sigs.get(&T_A).into_iter().flatten()) {
                v.push(r.clone());
            }
            sets.remove(i);
            Some(Applied { effect: Effect::Breaking, label: label("substitute-answer", &s), touches_signed: true, forged_zone: None })
        }
        SKind::ForgedKey => {
            let i = pick(&signed_sets)?;
            let zi = sets[i].zone;
            if !secure_zone(zi) {
                return None;
            }
            let z = &w.zones[zi];
            let other = (0..refsec::K_P256_COUNT).find(|k| *k != z.ksk && *k != z.zsk)?;
            let ord = keys()[other].dnskey_rdata(257);
            for s in sets.iter().filter(|s| s.zone == zi) {
                let s = s.clone();
                if sigs_of(m, &s).is_empty() {
                    continue;
                }
                let rrset = data_of(m, &s);
                let (labels, ottl) = sig_params(m, &s);
                let rec = craft_sig(other, &ord, &z.apex, &rrset, labels, ottl, w.inception, w.expiration, None);
                let v = sec_mut(m, s.section);
                let pos = v.iter().position(|r| is_sig_of(r, &s)).unwrap_or(v.len());
                v.retain(|r| !is_sig_of(r, &s));
                v.insert(pos.min(v.len()), rec);
            }
            Some(Applied { effect: Effect::Breaking, label: "forged-zone-key".into(), touches_signed: true, forged_zone: Some(zi) })
        }
        SKind::ForgedDnskey => {
            let (zi, qt) = lookup_of?;
            if qt != T_DNSKEY {
                return None;
            }
            let z = &w.zones[zi];
            let i = sets.iter().position(|s| s.rtype == T_DNSKEY)?;
            let s = sets[i].clone();
            let other = (0..refsec::K_P256_COUNT).find(|k| *k != z.ksk && *k != z.zsk)?;
            let ord = keys()[other].dnskey_rdata(257);
            let v = sec_mut(m, s.section);
            v.retain(|r| !is_sig_of(r, &s));
            if param & 1 == 0 {
                v.retain(|r| r.rtype != T_DNSKEY);
            }
            v.insert(0, Rec::new(&z.apex, T_DNSKEY, 3600, ord.clone()));
            let rrset: Vec<Rec> = v.iter().filter(|r| r.rtype == T_DNSKEY).cloned().collect();
            let rec = craft_sig(other, &ord, &z.apex, &rrset, label_count(&z.apex) as u8, 3600, w.inception, w.expiration, None);
            v.push(rec);
            Some(Applied { effect: breaking_if(zi), label: format!("forged-dnskey-set-{}", if param & 1 == 0 { "replaced" } else { "extended" }), touches_signed: true, forged_zone: None })
        }
        // wire-level kinds are handled by `finish`
        SKind::Counts | SKind::Truncate | SKind::FlipByte | SKind::UpstreamError => None,
    }
}

/// Validly signed but hostile denial records (the zone operator, or whoever
/// holds the zone key, is the adversary).
fn hostile(w: &World, m: &mut Msg, sets: &mut Vec<SetInfo>, replace: bool, sel: u8, param: u16) -> Option<Applied> {
    // zone: that of an existing proof record, else of the first set
    let proof_idx: Vec<usize> = (0..sets.len()).filter(|&i| sets[i].section == 1 && sets[i].roles.iter().any(|r| r.is_proof())).collect();
    let (zi, victim) = if proof_idx.is_empty() {
        if replace {
            return None;
        }
        (sets.first()?.zone, None)
    } else {
        let i = proof_idx[sel as usize % proof_idx.len()];
        (sets[i].zone, Some(i))
    };
    let z = &w.zones[zi];
    if !z.shape.signed {
        return None;
    }
    let variant = param % 12;
    let salt = z.salt.clone();
    let n3_rdata = |alg: u8, flags: u8, iters: u16, next: &[u8]| -> Vec<u8> {
        let mut v = vec![alg, flags];
        v.extend_from_slice(&iters.to_be_bytes());
        v.push(salt.len() as u8);
        v.extend_from_slice(&salt);
        v.push(next.len() as u8);
        v.extend_from_slice(next);
        // bitmap: A RRSIG
        v.extend_from_slice(&[0, 6, 0x40, 0, 0, 0, 0, 0x02]);
        v
    };
    let it = z.shape.iterations;
    let full: Vec<u8> = vec![0xff; 20];
    let (owner_label, rtype, rdata, name): (Vec<u8>, u16, Vec<u8>, &str) = match variant {
        0 => (b"zzzzzzzzzzzzzzzzzzzzzzzzzzzzzzzz".to_vec(), T_NSEC3, n3_rdata(1, 0, it, &full), "nsec3-owner-not-base32hex"),
        1 => (b"wxyz".to_vec(), T_NSEC3, n3_rdata(1, 0, it, &full), "nsec3-owner-short-not-base32hex"),
        2 => (vec![0xff, 0xfe, 0x80, 0x81], T_NSEC3, n3_rdata(1, 0, it, &full), "nsec3-owner-not-utf8"),
        3 => (b"00000000".to_vec(), T_NSEC3, n3_rdata(1, 0, it, &[0xff; 5]), "nsec3-owner-wrong-length"),
        4 => (b"00000000000000000000000000000000".to_vec(), T_NSEC3, n3_rdata(1, 0, it, &[0xff; 10]), "nsec3-hash-length-mismatch"),
        5 => (b"00000000000000000000000000000000".to_vec(), T_NSEC3, n3_rdata(1, 0, 65535, &full), "nsec3-huge-iterations"),
        6 => (b"00000000000000000000000000000000".to_vec(), T_NSEC3, n3_rdata(2, 0, it, &full), "nsec3-unknown-hash-alg"),
        7 => (b"0000000000000000000000000000000".to_vec(), T_NSEC3, n3_rdata(1, 1, it, &full), "nsec3-owner-31-chars"),
        8 => {
            // NSEC whose next name sorts before its owner although it is not
            // the last of the chain
            let mut rd = prepend(b"aaa", &z.apex);
            rd.extend_from_slice(&[0, 6, 0x40, 0, 0, 0, 0, 0x03]);
            (b"mmm".to_vec(), T_NSEC, rd, "nsec-next-before-owner")
        }
        9 => {
            // 63-octet owner label full of base32hex characters
            (vec![b'v'; 63], T_NSEC3, n3_rdata(1, 0, it, &full), "nsec3-owner-63-chars")
        }
        _ => {
            // owner label drawn from a hostile alphabet
            const AL: &[u8] = b"0123456789abcdefghijklmnopqrstuvABCDEFV=wxyzWZ-_ \x00\x7f\x80\xc3\xa9\xff";
            let mut x = (param as u32) << 8 | sel as u32 | 0x1000000;
            let mut next = || {
                x = x.wrapping_mul(1664525).wrapping_add(1013904223);
                (x >> 16) as usize
            };
            let len = [1usize, 2, 7, 8, 16, 31, 32, 33, 40, 63][next() % 10];
            let l: Vec<u8> = (0..len).map(|_| AL[next() % AL.len()]).collect();
            let nx: Vec<u8> = vec![0xff; [20usize, 20, 1, 255, 5][next() % 5]];
            (l, T_NSEC3, n3_rdata(1, (next() & 1) as u8, it, &nx), "nsec3-owner-arbitrary-label")
        }
    };
    let owner = prepend(&owner_label, &z.apex);
    if sets.iter().any(|s| name_eq(&s.owner, &owner)) {
        return None;
    }
    let rec = Rec::new(&owner, rtype, 300, rdata);
    let sig = craft_sig(z.zsk, &z.dnskey_rdata(false), &z.apex, std::slice::from_ref(&rec), label_count(&owner) as u8, 300, w.inception, w.expiration, None);
    let mut eff = Effect::Neutral;
    if replace {
        let i = victim?;
        let s = sets[i].clone();
        m.authority.retain(|r| !((r.rtype == s.rtype && name_eq(&r.owner, &s.owner)) || is_sig_of(r, &s)));
        sets.remove(i);
        // only records that cannot possibly serve as the lost proof
        if s.roles.iter().any(|r| r.necessary()) && matches!(variant, 0 | 1 | 2 | 6) && w.zones[zi].status == Status::Secure {
            eff = Effect::Breaking;
        }
    }
    let at_front = (param >> 8) & 1 == 1;
    if at_front {
        m.authority.insert(0, sig);
        m.authority.insert(0, rec);
    } else {
        m.authority.push(rec);
        m.authority.push(sig);
    }
    Some(Applied { effect: eff, label: format!("hostile-{}-{name}", if replace { "replace" } else { "add" }), touches_signed: true, forged_zone: None })
}

//------------ cosmetic faults -----------------------------------------------------------------

pub fn apply_cosmetic(m: &mut Msg, sets: &[SetInfo], opts: &mut WriteOpts, kind: CKind, sel: u8, param: u16) -> Option<String> {
    match kind {
        CKind::Reorder => {
            // deterministic shuffle of answer and authority
            for v in [&mut m.answer, &mut m.authority] {
                let n = v.len();
                if n < 2 {
                    continue;
                }
                let mut x = param as u32 | ((sel as u32) << 16) | 1;
                for i in (1..n).rev() {
                    x = x.wrapping_mul(1664525).wrapping_add(1013904223);
                    let j = (x >> 8) as usize % (i + 1);
                    v.swap(i, j);
                }
            }
            Some("reorder".into())
        }
        CKind::TtlDown => {
            let cap = 1 + (param as u32 % 300);
            for r in m.answer.iter_mut().chain(m.authority.iter_mut()) {
                r.ttl = r.ttl.min(cap);
            }
            Some("ttl-down".into())
        }
        CKind::TtlZero => {
            if sets.is_empty() {
                return None;
            }
            let s = &sets[sel as usize % sets.len()];
            let mode = param % 3;
            for r in sec_mut(m, s.section).iter_mut() {
                let data = r.rtype == s.rtype && name_eq(&r.owner, &s.owner);
                let sig = is_sig_of(r, s);
                if (data && mode != 1) || (sig && mode != 0) {
                    r.ttl = 0;
                }
            }
            Some(format!("ttl-zero:{}", tname(s.rtype)))
        }
        CKind::TtlUp => {
            for r in m.answer.iter_mut().chain(m.authority.iter_mut()) {
                r.ttl = r.ttl.saturating_add(1000 + param as u32);
            }
            Some("ttl-up".into())
        }
        CKind::CaseOwner => {
            let mut x = param as u32 | 0x10000;
            let mut flip = |n: &mut Nm| {
                let mut p = 0;
                while p < n.len() && n[p] != 0 {
                    let l = n[p] as usize;
                    for b in n[p + 1..p + 1 + l].iter_mut() {
                        x = x.wrapping_mul(1664525).wrapping_add(1013904223);
                        if (x >> 16) & 1 == 1 && b.is_ascii_alphabetic() {
                            *b ^= 0x20;
                        }
                    }
                    p += 1 + l;
                }
            };
            for r in m.answer.iter_mut().chain(m.authority.iter_mut()) {
                // NSEC3 owner labels are base32hex: case-insensitive as well
                flip(&mut r.owner);
            }
            if sel & 1 == 1 {
                flip(&mut m.qname);
            }
            Some("owner-case".into())
        }
        CKind::Compress => {
            opts.compress = true;
            Some("compress".into())
        }
        CKind::AdditionalJunk => {
            // OPT (DO), a glue-like A record, and something unparsed-looking
            let opt_rdata: Vec<u8> = match (param >> 9) % 8 {
                0 | 1 => vec![],
                2 => vec![0, 3, 0, 2, b'n', b's'],                    // NSID
                3 => vec![0, 10, 0, 1, 0xaa],                         // COOKIE of one octet
                4 => vec![0, 8, 0, 3, 0, 1, 24],                      // client subnet cut short
                5 => vec![0, 15, 0, 1, 0],                            // extended error cut short
                6 => vec![0, 11, 0, 1, 9],                            // tcp-keepalive with one octet
                _ => vec![0xfd, 0xe9, 0, 4, 1, 2, 3, 4],              // unknown option
            };
            m.additional.push(Rec { owner: vec![0], rtype: T_OPT, class: 1232, ttl: 0x8000, rdata: opt_rdata });
            m.additional.push(Rec::new(&nm("ns.junk.example."), T_A, 60, vec![203, 0, 113, (param & 0xff) as u8]));
            if param & 0x100 != 0 {
                m.additional.push(Rec::new(&nm("junk.example."), 65280, 60, vec![1, 2, 3]));
            }
            Some("additional-junk".into())
        }
    }
}

/// Wire-level stage: serialise and apply the octet-level faults.
pub fn finish(m: &Msg, opts: &WriteOpts, kind: Option<(SKind, u8, u16)>) -> (Wire, Option<Applied>) {
    let mut o = WriteOpts { compress: opts.compress, counts: opts.counts };
    let true_counts = [1u16, m.answer.len() as u16, m.authority.len() as u16, m.additional.len() as u16];
    let mut applied = None;
    if let Some((SKind::Counts, sel, param)) = kind {
        let mut c = true_counts;
        let which = 1 + (sel as usize % 3);
        let val = match param % 6 {
            0 => 0,
            1 => c[which].wrapping_add(1),
            2 => c[which].wrapping_sub(1),
            3 => 0xFFFF,
            4 => c[which].wrapping_add(2),
            _ => c[which] / 2,
        };
        if val != c[which] {
            c[which] = val;
            if param & 0x100 != 0 {
                c[0] = (param >> 9) & 3;
            }
            o.counts = Some(c);
            applied = Some(Applied { effect: Effect::Neutral, label: format!("header-count-{}", ["qd", "an", "ns", "ar"][which]), touches_signed: false, forged_zone: None });
        }
    }
    let mut bytes = write_msg(m, &o);
    match kind {
        Some((SKind::Truncate, _, param)) => {
            let n = 12 + (param as usize % (bytes.len() - 11).max(1));
            if n < bytes.len() {
                bytes.truncate(n);
                applied = Some(Applied { effect: Effect::Neutral, label: "truncated".into(), touches_signed: false, forged_zone: None });
            }
        }
        Some((SKind::FlipByte, sel, param)) => {
            let n = bytes.len();
            if n > 2 {
                let pos = 2 + (param as usize % (n - 2));
                bytes[pos] ^= 1 << (sel % 8);
                applied = Some(Applied { effect: Effect::Neutral, label: "flip-bit".into(), touches_signed: false, forged_zone: None });
            }
        }
        Some((SKind::UpstreamError, _, _)) => {
            return (Wire::Error, Some(Applied { effect: Effect::Breaking, label: "upstream-error".into(), touches_signed: true, forged_zone: None }));
        }
        _ => {}
    }
    (Wire::Bytes(bytes), applied)
}
