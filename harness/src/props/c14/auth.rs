//! C14: a small authoritative/recursive answerer over the model world. It
//! produces the final answer a validating resolver would hand to the
//! validator (RFC 4035 §3.1.3 / RFC 5155 §7.2 proofs included) and serves the
//! DS / DNSKEY lookups the validator issues. Proof records are chosen with
//! the *reference* NSEC3 hash and canonical order, not with library code.
use super::wire::*;
use super::world::*;

#[derive(Clone, Copy, Debug, PartialEq, Eq, Hash)]
pub enum Role {
    Data,
    Cname,
    /// signed DNAME that redirects the query name
    Dname,
    /// the unsigned CNAME synthesised from a DNAME (RFC 6672 §3.1)
    SynthCname,
    Soa,
    /// NSEC at the query name (NODATA), or covering an empty non-terminal
    NsecMatch,
    NsecCoverQname,
    NsecCoverWildcard,
    NsecWildcardMatch,
    N3Match,
    N3CeMatch,
    /// closest encloser is the zone apex (the signed SOA proves it exists)
    N3CeMatchApex,
    N3CoverNextCloser,
    N3CoverWildcard,
    N3WildcardMatch,
    Extra,
}

impl Role {
    /// Dropping a set with this role leaves the proof incomplete by the RFCs.
    pub fn necessary(self) -> bool {
        !matches!(self, Role::Soa | Role::N3CeMatchApex | Role::Extra | Role::SynthCname)
    }
    pub fn is_proof(self) -> bool {
        !matches!(self, Role::Data | Role::Cname | Role::Dname | Role::SynthCname | Role::Soa | Role::Extra)
    }
}

#[derive(Clone, Debug)]
pub struct SetInfo {
    /// 0 answer, 1 authority
    pub section: u8,
    pub owner: Nm,
    pub rtype: u16,
    pub zone: usize,
    pub roles: Vec<Role>,
    /// owner synthesised from a wildcard
    pub wildcard: bool,
}

#[derive(Clone, Debug, Default)]
pub struct Resp {
    pub rcode: u8,
    pub answer: Vec<Rec>,
    pub authority: Vec<Rec>,
    pub sets: Vec<SetInfo>,
    pub states: Vec<Status>,
    pub kinds: Vec<&'static str>,
    pub optout_used: bool,
    pub high_iter: bool,
    /// largest NSEC3 iteration count of a signed NSEC3 zone on the path
    pub max_iter: u16,
    pub zones: Vec<usize>,
}

impl Resp {
    fn add(&mut self, section: u8, zone: usize, rrset: &[Rec], sigs: &[Rec], owner: Option<&Nm>, role: Role) {
        if rrset.is_empty() {
            return;
        }
        let o = owner.cloned().unwrap_or_else(|| rrset[0].owner.clone());
        if let Some(s) = self.sets.iter_mut().find(|s| s.section == section && name_eq(&s.owner, &o) && s.rtype == rrset[0].rtype) {
            if !s.roles.contains(&role) {
                s.roles.push(role);
            }
            return;
        }
        let dst = if section == 0 { &mut self.answer } else { &mut self.authority };
        for r in rrset.iter().chain(sigs.iter()) {
            let mut r = r.clone();
            r.owner = o.clone();
            dst.push(r);
        }
        self.sets.push(SetInfo { section, owner: o, rtype: rrset[0].rtype, zone, roles: vec![role], wildcard: owner.is_some() });
    }
    fn add_node_set(&mut self, section: u8, z: &Zone, node: &Node, rtype: u16, owner: Option<&Nm>, role: Role) {
        if let Some(rr) = node.rrsets.get(&rtype) {
            let empty = vec![];
            let sigs = node.sigs.get(&rtype).unwrap_or(&empty);
            self.add(section, z.idx, rr, sigs, owner, role);
        }
    }
    fn add_n3(&mut self, z: &Zone, n: &N3, role: Role) {
        if matches!(role, Role::N3CoverNextCloser | Role::N3CoverWildcard) && n.opt_out && z.status == Status::Secure {
            self.optout_used = true;
        }
        if z.shape.iterations > 100 {
            self.high_iter = true;
        }
        self.max_iter = self.max_iter.max(z.shape.iterations);
        self.add(1, z.idx, std::slice::from_ref(&n.rec), &n.sigs, None, role);
    }
    fn add_soa(&mut self, z: &Zone) {
        if let Some(apex) = z.node(&z.apex) {
            self.add_node_set(1, z, apex, T_SOA, None, Role::Soa);
        }
    }
    pub fn to_msg(&self, qname: &[u8], qtype: u16) -> Msg {
        Msg {
            id: 0x1234,
            // QR RD RA (+CD irrelevant), rcode
            flags: 0x8180 | self.rcode as u16,
            qname: qname.to_vec(),
            qtype,
            answer: self.answer.clone(),
            authority: self.authority.clone(),
            additional: vec![],
        }
    }
    /// Verdicts the model allows for the untampered response; None = no
    /// precise expectation (totality only).
    pub fn expected(&self) -> Option<Vec<Status>> {
        self.expected_with(true)
    }
    /// The expectation from the delegation chain alone (Opt-Out ignored).
    pub fn chain_expected(&self) -> Option<Vec<Status>> {
        self.expected_with(false)
    }
    fn expected_with(&self, optout: bool) -> Option<Vec<Status>> {
        if self.high_iter || self.kinds.contains(&"cname-loop") {
            return None;
        }
        let mut st = self.states.clone();
        if self.optout_used && optout {
            st.push(Status::Insecure);
        }
        if st.contains(&Status::Bogus) {
            return Some(vec![Status::Bogus]);
        }
        let mut out: Vec<Status> = vec![];
        for s in st {
            if s != Status::Secure && !out.contains(&s) {
                out.push(s);
            }
        }
        if out.is_empty() {
            out.push(Status::Secure);
        }
        Some(out)
    }
}

/// The DNAME-owning node strictly above `name` inside the zone, if any.
pub fn dname_above<'a>(z: &'a Zone, name: &[u8]) -> Option<(Nm, &'a Node)> {
    let mut cur = parent(name)?;
    while ends_with(&cur, &z.apex) {
        if let Some(n) = z.node(&cur) {
            if n.rrsets.contains_key(&T_DNAME) {
                return Some((cur, n));
            }
        }
        cur = parent(&cur)?;
    }
    None
}

/// RFC 6672 §2.2: replace the suffix `owner` of `name` by `target`.
pub fn apply_dname(name: &[u8], owner: &[u8], target: &[u8]) -> Option<Nm> {
    let keep = label_count(name) - label_count(owner);
    let mut out: Nm = vec![];
    let mut p = 0;
    for _ in 0..keep {
        let l = name[p] as usize;
        out.extend_from_slice(&name[p..p + 1 + l]);
        p += 1 + l;
    }
    out.extend_from_slice(target);
    if out.len() > 255 {
        None
    } else {
        Some(out)
    }
}

fn cname_target(rr: &Rec) -> Nm {
    rr.rdata.clone()
}

/// NSEC3 closest-encloser proof pieces for a name that has no matching NSEC3.
fn n3_ce(z: &Zone, name: &[u8]) -> Nm {
    let mut cur = name.to_vec();
    loop {
        if name_eq(&cur, &z.apex) || z.n3_match(&cur).is_some() {
            return cur;
        }
        match parent(&cur) {
            Some(p) if ends_with(&p, &z.apex) => cur = p,
            _ => return z.apex.clone(),
        }
    }
}

fn add_ce_match(r: &mut Resp, z: &Zone, ce: &[u8]) {
    if let Some(m) = z.n3_match(ce) {
        let role = if name_eq(ce, &z.apex) { Role::N3CeMatchApex } else { Role::N3CeMatch };
        r.add_n3(z, m, role);
    }
}

pub fn resolve(w: &World, qname: &[u8], qtype: u16) -> Resp {
    let mut r = Resp::default();
    let mut name = qname.to_vec();
    for _step in 0..9 {
        let zi = w.find_zone(&name, qtype);
        let z = &w.zones[zi];
        let signed = z.shape.signed;
        let nsec3 = z.shape.denial != Denial::Nsec;
        r.states.push(z.status);
        r.zones.push(zi);
        // high NSEC3 iteration counts anywhere on the path make the DS
        // proofs of the chain policy dependent (RFC 9276)
        let mut up = Some(zi);
        while let Some(i) = up {
            if w.zones[i].shape.signed && w.zones[i].shape.denial != Denial::Nsec && w.zones[i].shape.iterations > 100 {
                r.high_iter = true;
            }
            if w.zones[i].shape.signed && w.zones[i].shape.denial != Denial::Nsec {
                r.max_iter = r.max_iter.max(w.zones[i].shape.iterations);
            }
            up = w.zones[i].parent;
        }
        // DNAME at a proper ancestor inside the zone
        if let Some((owner, dn)) = dname_above(z, &name) {
            if let Some(target) = apply_dname(&name, &owner, &dn.rrsets[&T_DNAME][0].rdata) {
                r.add_node_set(0, z, dn, T_DNAME, None, Role::Dname);
                let synth = Rec::new(&name, T_CNAME, dn.rrsets[&T_DNAME][0].ttl, target.clone());
                r.add(0, z.idx, std::slice::from_ref(&synth), &[], None, Role::SynthCname);
                r.kinds.push("dname");
                name = target;
                continue;
            }
        }
        let node = z.node(&name);
        match node {
            Some(node) if !node.rrsets.is_empty() => {
                if node.rrsets.contains_key(&qtype) {
                    r.add_node_set(0, z, node, qtype, None, Role::Data);
                    r.kinds.push(if qtype == T_DS { "ds-at-cut" } else { "positive" });
                    return r;
                }
                if qtype != T_CNAME && node.rrsets.contains_key(&T_CNAME) {
                    r.add_node_set(0, z, node, T_CNAME, None, Role::Cname);
                    r.kinds.push("cname");
                    name = cname_target(&node.rrsets[&T_CNAME][0]);
                    continue;
                }
                // NODATA
                r.add_soa(z);
                r.kinds.push(if qtype == T_DS { "ds-nodata" } else { "nodata" });
                if signed {
                    if !nsec3 {
                        r.add_node_set(1, z, node, T_NSEC, None, Role::NsecMatch);
                    } else if let Some(m) = z.n3_match(&name) {
                        r.add_n3(z, m, Role::N3Match);
                    } else {
                        // Opt-Out: the (insecure) delegation has no NSEC3
                        let ce = n3_ce(z, &name);
                        add_ce_match(&mut r, z, &ce);
                        let nc = suffix_with_labels(&name, label_count(&ce) + 1);
                        if let Some(c) = z.n3_cover(&nc) {
                            r.add_n3(z, c, Role::N3CoverNextCloser);
                        }
                        r.kinds.push("optout-ds");
                    }
                }
                return r;
            }
            Some(_ent) => {
                r.add_soa(z);
                r.kinds.push("ent-nodata");
                if signed {
                    if !nsec3 {
                        if let Some(c) = z.nsec_cover(&name) {
                            r.add_node_set(1, z, c, T_NSEC, None, Role::NsecMatch);
                        }
                    } else if let Some(m) = z.n3_match(&name) {
                        r.add_n3(z, m, Role::N3Match);
                    }
                }
                return r;
            }
            None => {
                let ce = z.closest_encloser(&name);
                let wc = prepend(b"*", &ce);
                let nc = suffix_with_labels(&name, label_count(&ce) + 1);
                let wnode = z.node(&wc).filter(|n| !n.rrsets.is_empty());
                let cover_qname = |r: &mut Resp| {
                    if !signed {
                        return;
                    }
                    if !nsec3 {
                        if let Some(c) = z.nsec_cover(&name) {
                            r.add_node_set(1, z, c, T_NSEC, None, Role::NsecCoverQname);
                        }
                    } else if let Some(c) = z.n3_cover(&nc) {
                        r.add_n3(z, c, Role::N3CoverNextCloser);
                    }
                };
                if let Some(wn) = wnode {
                    if wn.rrsets.contains_key(&qtype) {
                        r.add_node_set(0, z, wn, qtype, Some(&name), Role::Data);
                        cover_qname(&mut r);
                        r.kinds.push("wildcard");
                        return r;
                    }
                    if qtype != T_CNAME && wn.rrsets.contains_key(&T_CNAME) {
                        r.add_node_set(0, z, wn, T_CNAME, Some(&name), Role::Cname);
                        cover_qname(&mut r);
                        r.kinds.push("wildcard-cname");
                        name = cname_target(&wn.rrsets[&T_CNAME][0]);
                        continue;
                    }
                    // wildcard NODATA
                    r.add_soa(z);
                    r.kinds.push("wildcard-nodata");
                    if signed {
                        if !nsec3 {
                            cover_qname(&mut r);
                            r.add_node_set(1, z, wn, T_NSEC, None, Role::NsecWildcardMatch);
                        } else {
                            add_ce_match(&mut r, z, &ce);
                            cover_qname(&mut r);
                            if let Some(m) = z.n3_match(&wc) {
                                r.add_n3(z, m, Role::N3WildcardMatch);
                            }
                        }
                    }
                    return r;
                }
                // NXDOMAIN
                r.rcode = 3;
                r.add_soa(z);
                r.kinds.push("nxdomain");
                if signed {
                    if !nsec3 {
                        cover_qname(&mut r);
                        if let Some(c) = z.nsec_cover(&wc) {
                            r.add_node_set(1, z, c, T_NSEC, None, Role::NsecCoverWildcard);
                        }
                    } else {
                        add_ce_match(&mut r, z, &ce);
                        cover_qname(&mut r);
                        if let Some(c) = z.n3_cover(&wc) {
                            r.add_n3(z, c, Role::N3CoverWildcard);
                        }
                    }
                }
                return r;
            }
        }
    }
    r.kinds.push("cname-loop");
    r
}

/// Adds the zone's apex NS RRset (+RRSIG) to the authority section, as many
/// servers do for positive answers.
pub fn add_authority_ns(w: &World, r: &mut Resp) {
    if r.rcode != 0 || r.sets.iter().any(|s| s.section == 1) {
        return;
    }
    let Some(&zi) = r.zones.last() else { return };
    let z = &w.zones[zi];
    if let Some(apex) = z.node(&z.apex) {
        r.add_node_set(1, z, apex, T_NS, None, Role::Extra);
    }
}

//------------ lies ------------------------------------------------------------------

/// A denial of something that exists, dressed with genuine signed records of
/// the zone. `variant` selects which records are offered. Returns None when
/// the zone cannot express the lie.
pub fn lie(w: &World, zi: usize, variant: usize) -> Option<(Nm, u16, Resp, &'static str)> {
    let z = &w.zones[zi];
    if !z.shape.signed || z.nodes.len() < 10 {
        return None;
    }
    let nsec3 = z.shape.denial != Denial::Nsec;
    let mut r = Resp::default();
    r.states.push(z.status);
    r.zones.push(zi);
    let sub = |l: &str| {
        let mut n = z.apex.clone();
        for x in l.split('.').rev() {
            n = prepend(x.as_bytes(), &n);
        }
        n
    };
    let www = sub("www");
    if variant >= 21 {
        return relabelled_star_lie(w, zi, variant - 21, r);
    }
    if variant >= 14 {
        return dname_lie(w, zi, variant - 14, r);
    }
    if variant >= 10 {
        return replayed_wildcard_nsec(w, zi, variant - 10, r);
    }
    match variant % 10 {
        0 => {
            // NODATA for a type that exists: own NSEC/NSEC3 lists the type
            r.add_soa(z);
            let node = z.node(&www)?;
            if nsec3 {
                r.add_n3(z, z.n3_match(&www)?, Role::N3Match);
            } else {
                r.add_node_set(1, z, node, T_NSEC, None, Role::NsecMatch);
            }
            Some((www, T_A, r, "lie-nodata-type-exists"))
        }
        1 => {
            // NODATA for A at a CNAME owner
            let alias = sub("alias");
            r.add_soa(z);
            let node = z.node(&alias)?;
            if nsec3 {
                r.add_n3(z, z.n3_match(&alias)?, Role::N3Match);
            } else {
                r.add_node_set(1, z, node, T_NSEC, None, Role::NsecMatch);
            }
            Some((alias, T_A, r, "lie-nodata-at-cname"))
        }
        2 | 3 => {
            // NXDOMAIN for an existing name, using the record that *ends* at it
            let victim = if variant % 7 == 2 { www.clone() } else { sub("mx") };
            r.rcode = 3;
            r.add_soa(z);
            let wc = prepend(b"*", &z.apex);
            if nsec3 {
                add_ce_match(&mut r, z, &z.apex);
                r.add_n3(z, z.n3_pred(&victim)?, Role::N3CoverNextCloser);
                if let Some(c) = z.n3_cover(&wc) {
                    r.add_n3(z, c, Role::N3CoverWildcard);
                }
            } else {
                // predecessor NSEC: its next-name field is the victim
                let key = canon_key(&victim);
                let pred = z.nodes.range(..key).rev().map(|(_, n)| n).find(|n| n.rrsets.contains_key(&T_NSEC))?;
                r.add_node_set(1, z, pred, T_NSEC, None, Role::NsecCoverQname);
                if let Some(c) = z.nsec_cover(&wc) {
                    r.add_node_set(1, z, c, T_NSEC, None, Role::NsecCoverWildcard);
                }
            }
            Some((victim, T_A, r, "lie-nxdomain-name-exists"))
        }
        4 => {
            // NXDOMAIN although a wildcard would answer
            let q = sub("foo.wild");
            r.rcode = 3;
            r.add_soa(z);
            let ce = sub("wild");
            let wc = prepend(b"*", &ce);
            if nsec3 {
                add_ce_match(&mut r, z, &ce);
                r.add_n3(z, z.n3_cover(&q)?, Role::N3CoverNextCloser);
                r.add_n3(z, z.n3_match(&wc)?, Role::N3WildcardMatch);
            } else {
                r.add_node_set(1, z, z.nsec_cover(&q)?, T_NSEC, None, Role::NsecCoverQname);
                r.add_node_set(1, z, z.node(&wc)?, T_NSEC, None, Role::NsecWildcardMatch);
            }
            Some((q, T_A, r, "lie-nxdomain-wildcard-exists"))
        }
        5 => {
            // wildcard expansion offered for a name that exists itself
            let q = sub("x.wild");
            let wc = sub("*.wild");
            let wn = z.node(&wc)?;
            r.add_node_set(0, z, wn, T_A, Some(&q), Role::Data);
            if nsec3 {
                r.add_n3(z, z.n3_pred(&q)?, Role::N3CoverNextCloser);
            } else {
                let key = canon_key(&q);
                let pred = z.nodes.range(..key).rev().map(|(_, n)| n).find(|n| n.rrsets.contains_key(&T_NSEC))?;
                r.add_node_set(1, z, pred, T_NSEC, None, Role::NsecCoverQname);
            }
            Some((q, T_A, r, "lie-wildcard-closer-name-exists"))
        }
        7 | 8 => {
            // the parent side of a secure delegation used against the child:
            // 7: NODATA for the child's SOA, 8: NXDOMAIN for a name below the cut
            let child = w.zones.iter().find(|c| c.parent == Some(zi) && c.shape.ds_in_parent && c.shape.signed)?;
            let cut = child.apex.clone();
            let node = z.node(&cut)?;
            let below = prepend(b"www", &cut);
            r.add_soa(z);
            if variant % 10 == 8 {
                r.rcode = 3;
            }
            if nsec3 {
                let m = z.n3_match(&cut)?;
                if variant % 10 == 7 {
                    r.add_n3(z, m, Role::N3Match);
                } else {
                    r.add_n3(z, m, Role::N3CeMatch);
                    if let Some(c) = z.n3_cover(&below) {
                        r.add_n3(z, c, Role::N3CoverNextCloser);
                    }
                    if let Some(c) = z.n3_cover(&prepend(b"*", &cut)) {
                        r.add_n3(z, c, Role::N3CoverWildcard);
                    }
                }
            } else {
                r.add_node_set(1, z, node, T_NSEC, None, Role::NsecMatch);
            }
            if variant % 10 == 7 {
                Some((cut, T_SOA, r, "lie-nodata-parent-side-record"))
            } else {
                Some((below, T_A, r, "lie-nxdomain-below-cut-parent-record"))
            }
        }
        6 => {
            // NODATA "proved" with the record that ends at the name: its
            // next-name field is the query name
            r.add_soa(z);
            if nsec3 {
                r.add_n3(z, z.n3_pred(&www)?, Role::N3Match);
            } else {
                let key = canon_key(&www);
                let pred = z.nodes.range(..key).rev().map(|(_, n)| n).find(|n| n.rrsets.contains_key(&T_NSEC))?;
                r.add_node_set(1, z, pred, T_NSEC, None, Role::NsecMatch);
            }
            Some((www, T_A, r, "lie-nodata-predecessor-record"))
        }
        _ => {
            // wildcard expansion without any proof that the name is absent
            let q = sub("bar.wild");
            let wn = z.node(&sub("*.wild"))?;
            r.add_node_set(0, z, wn, T_A, Some(&q), Role::Data);
            Some((q, T_A, r, "lie-wildcard-without-proof"))
        }
    }
}

/// The denial record of a wildcard (`*.wild NSEC x.wild` with its genuine
/// RRSIG, labels = labels of `wild`) replayed under another owner name. The
/// signature still verifies for every owner below `wild` (wildcard
/// expansion), but an *expanded* NSEC proves nothing: RFC 4035 §5.3.4 /
/// RFC 4592 — only the unexpanded wildcard owner is a node of the chain.
///  0: owner `!.wild` (one label, sorts before `*`), NXDOMAIN for `foo.wild`,
///     which exists through the wildcard
///  1: same for the wildcard CNAME `*.wc`, NXDOMAIN for `foo.wc`
///  2: owner `a.!.wild` (two labels), same denial
///  3: owner `!.wild`, NXDOMAIN for `*.wild` itself asked as a literal name
/// In NSEC3 zones the wildcard's NSEC3 is replayed under a sibling hash label
/// (its signature cannot verify there).
fn replayed_wildcard_nsec(w: &World, zi: usize, variant: usize, mut r: Resp) -> Option<(Nm, u16, Resp, &'static str)> {
    let z = &w.zones[zi];
    let nsec3 = z.shape.denial != Denial::Nsec;
    let sub = |l: &str| {
        let mut n = z.apex.clone();
        for x in l.split('.').rev() {
            n = prepend(x.as_bytes(), &n);
        }
        n
    };
    let (wc, new_owner, q, label): (Nm, Nm, Nm, &'static str) = match variant % 4 {
        0 => (sub("*.wild"), sub("!.wild"), sub("foo.wild"), "lie-nxdomain-wildcard-nsec-replayed-one-label"),
        1 => (sub("*.wc"), sub("!.wc"), sub("foo.wc"), "lie-nxdomain-wildcard-nsec-replayed-one-label"),
        2 => (sub("*.wild"), sub("a.!.wild"), sub("foo.wild"), "lie-nxdomain-wildcard-nsec-replayed-two-labels"),
        _ => (sub("*.wild"), sub("!.wild"), sub("*.wild"), "lie-nxdomain-wildcard-nsec-replayed-one-label"),
    };
    r.rcode = 3;
    r.add_soa(z);
    if nsec3 {
        let m = z.n3_match(&wc)?;
        let mut first = labels(&m.rec.owner)[0].to_vec();
        // a sibling hash label: flip the last character within the alphabet
        let i = first.len() - 1;
        first[i] = if first[i] == b'0' { b'1' } else { b'0' };
        let other = prepend(&first, &z.apex);
        add_ce_match(&mut r, z, &parent(&wc)?);
        r.add(1, z.idx, std::slice::from_ref(&m.rec), &m.sigs, Some(&other), Role::N3CoverNextCloser);
    } else {
        let wn = z.node(&wc)?;
        let rr = wn.rrsets.get(&T_NSEC)?;
        let sigs = wn.sigs.get(&T_NSEC)?;
        r.add(1, z.idx, rr, sigs, Some(&new_owner), Role::NsecCoverQname);
    }
    Some((q, T_A, r, label))
}

/// The next-name field of an NSEC RDATA (uncompressed wire name).
fn nsec_next(rdata: &[u8]) -> Option<Nm> {
    let mut p = 0;
    loop {
        let l = *rdata.get(p)? as usize;
        if l > 63 {
            return None;
        }
        p += 1 + l;
        if l == 0 {
            return Some(rdata[..p].to_vec());
        }
    }
}

/// A genuine RRset owned by a wildcard (`*.wild A/TXT/NSEC`, `*.wc NSEC`; RRSIG
/// Labels field = labels of the wildcard's parent) moved, with its RRSIG, to a
/// *deeper* owner name whose leftmost label is again a literal `*`
/// (`*.x.wild`, `*.bar.wild`, `*.!.wild`). RFC 4035 §5.3.2 rebuilds
/// `*.<rightmost Labels labels>` for every such owner, so the signature
/// verifies; RFC 4035 §5.3.4 / RFC 4592: Labels < number of labels of the
/// owner (not counting root *or a leading asterisk that is part of the
/// original owner*, i.e. owner != `*.<rightmost Labels labels>`) means the
/// RRset is an expansion whatever its leftmost label looks like. The answer
/// needs the proof that no closer match exists, and an expanded NSEC is no
/// node of the chain. Every response here states something false about the
/// zone (or lacks the mandatory proof):
///  0: `*.x.wild A` answered with the relabelled `*.wild A` plus the genuine
///     denial record of `x.wild` (which exists, so `*.wild` does not apply
///     and `*.x.wild` does not exist)
///  1: the same without any authority data
///  2: `*.bar.wild TXT` answered with the relabelled RRset without proof
///  3: NODATA for `*.x.wild MX` "proved" by `*.wild NSEC` relabelled `*.x.wild`
///  4: NXDOMAIN for `foo.wild` (exists through the wildcard) with `*.wild
///     NSEC` relabelled `*.!.wild` (covers `*.wild` and `foo.wild`)
///  5: the same for the wildcard CNAME: `foo.wc`, `*.wc NSEC` as `*.!.wc`
///  6: NXDOMAIN for `www` (exists) with `*.wild NSEC` relabelled `*.x.wild`
///     (owner > next: reads as the last record of the chain and covers
///     everything after it) plus the genuine record covering `*.<apex>`
///  7: NXDOMAIN for the literal name `*.wild` with `*.wild NSEC` as `*.!.wild`
/// In NSEC3 zones there is no wildcard-owned denial record whose signature
/// survives a move; variants 3.. fall back to 0..2 there (the positive
/// answers do not depend on the denial type).
fn relabelled_star_lie(w: &World, zi: usize, variant: usize, mut r: Resp) -> Option<(Nm, u16, Resp, &'static str)> {
    let z = &w.zones[zi];
    let nsec3 = z.shape.denial != Denial::Nsec;
    let sub = |l: &str| {
        let mut n = z.apex.clone();
        for x in l.split('.').rev() {
            n = prepend(x.as_bytes(), &n);
        }
        n
    };
    let mut v = variant % 8;
    if nsec3 && v >= 3 {
        v %= 3;
    }
    const POS_EXISTS: &str = "lie-wildcard-relabelled-star-owner-closer-name-exists";
    const POS_NOPROOF: &str = "lie-wildcard-relabelled-star-owner-without-proof";
    const NODATA: &str = "lie-nodata-wildcard-nsec-relabelled-star-owner";
    const NXD: &str = "lie-nxdomain-wildcard-nsec-relabelled-star-owner";
    let relabel_nsec = |r: &mut Resp, wc: &Nm, new_owner: &Nm, role: Role| -> Option<Nm> {
        let wn = z.node(wc)?;
        let rr = wn.rrsets.get(&T_NSEC)?;
        let sigs = wn.sigs.get(&T_NSEC)?;
        let next = nsec_next(&rr[0].rdata)?;
        r.add(1, z.idx, rr, sigs, Some(new_owner), role);
        Some(next)
    };
    let lt = |a: &[u8], b: &[u8]| canon_cmp(a, b) == std::cmp::Ordering::Less;
    match v {
        0 | 1 => {
            let q = sub("*.x.wild");
            let x = sub("x.wild");
            let wn = z.node(&sub("*.wild"))?;
            r.add_node_set(0, z, wn, T_A, Some(&q), Role::Data);
            if v == 0 {
                if nsec3 {
                    r.add_n3(z, z.n3_match(&x)?, Role::N3CoverNextCloser);
                } else {
                    r.add_node_set(1, z, z.node(&x)?, T_NSEC, None, Role::NsecCoverQname);
                }
            }
            Some((q, T_A, r, POS_EXISTS))
        }
        2 => {
            let q = sub("*.bar.wild");
            let wn = z.node(&sub("*.wild"))?;
            r.add_node_set(0, z, wn, T_TXT, Some(&q), Role::Data);
            Some((q, T_TXT, r, POS_NOPROOF))
        }
        3 => {
            let q = sub("*.x.wild");
            r.add_soa(z);
            relabel_nsec(&mut r, &sub("*.wild"), &q, Role::NsecMatch)?;
            Some((q, T_MX, r, NODATA))
        }
        4 | 5 | 7 => {
            let (wc, new_owner, q) = match v {
                4 => (sub("*.wild"), sub("*.!.wild"), sub("foo.wild")),
                5 => (sub("*.wc"), sub("*.!.wc"), sub("foo.wc")),
                _ => (sub("*.wild"), sub("*.!.wild"), sub("*.wild")),
            };
            r.rcode = 3;
            r.add_soa(z);
            let next = relabel_nsec(&mut r, &wc, &new_owner, Role::NsecCoverQname)?;
            // the forged record has to "cover" the name and the wildcard by
            // plain canonical order, otherwise the lie is not even plausible
            if !(lt(&new_owner, &wc) && lt(&new_owner, &q) && (lt(&q, &next) || !lt(&new_owner, &next)) && (lt(&wc, &next) || !lt(&new_owner, &next))) {
                return None;
            }
            Some((q, T_A, r, NXD))
        }
        _ => {
            let q = sub("www");
            let new_owner = sub("*.x.wild");
            r.rcode = 3;
            r.add_soa(z);
            let next = relabel_nsec(&mut r, &sub("*.wild"), &new_owner, Role::NsecCoverQname)?;
            if !(lt(&next, &new_owner) && lt(&new_owner, &q)) {
                return None;
            }
            let wc = prepend(b"*", &z.apex);
            r.add_node_set(1, z, z.nsec_cover(&wc)?, T_NSEC, None, Role::NsecCoverWildcard);
            Some((q, T_A, r, NXD))
        }
    }
}

/// Answers below `dn.<apex> DNAME ent.<apex>` in which the unsigned CNAME that
/// accompanies the signed DNAME is not the one RFC 6672 §3.1 prescribes (or
/// the DNAME itself is not authentic). The genuine target RRset
/// (`a.ent.<apex> A`, signed) is always included, so the validator's own
/// chase through the DNAME finds an answer; the forged CNAME is an RRset of
/// the answer section that no signature covers.
///  0: target is a same-depth sibling below the DNAME target (b.ent)
///  1: target is deeper below the DNAME target (a.b.ent)
///  2: target leaves the DNAME target (x.wild)
///  3: an unsigned CNAME whose owner is not below the DNAME owner (query for it)
///  4: the genuine synthesised CNAME, but the DNAME carries no RRSIG
///  5: sibling target and the sibling's signed RRset added as well
///  6: genuine CNAME plus a second, forged CNAME at the same owner
pub fn dname_lie(w: &World, zi: usize, variant: usize, mut r: Resp) -> Option<(Nm, u16, Resp, &'static str)> {
    let z = &w.zones[zi];
    let sub = |l: &str| {
        let mut n = z.apex.clone();
        for x in l.split('.').rev() {
            n = prepend(x.as_bytes(), &n);
        }
        n
    };
    let dn_owner = sub("dn");
    let dn = z.node(&dn_owner)?;
    dn.rrsets.get(&T_DNAME)?;
    let q = sub("a.dn");
    let real = sub("a.ent");
    let real_node = z.node(&real)?;
    let v = variant % 7;
    let (cname_owner, cname_target, label): (Nm, Nm, &'static str) = match v {
        0 | 5 => (q.clone(), sub("b.ent"), "lie-dname-cname-sibling-target"),
        1 => (q.clone(), sub("a.b.ent"), "lie-dname-cname-deeper-target"),
        2 => (q.clone(), sub("x.wild"), "lie-dname-cname-target-outside"),
        3 => (sub("zz"), real.clone(), "lie-dname-cname-owner-not-below-dname"),
        4 => (q.clone(), real.clone(), "lie-dname-without-signature"),
        _ => (q.clone(), sub("b.ent"), "lie-dname-second-forged-cname"),
    };
    let ttl = dn.rrsets[&T_DNAME][0].ttl;
    let empty: Vec<Rec> = vec![];
    if v == 4 {
        r.add(0, z.idx, &dn.rrsets[&T_DNAME], &empty, None, Role::Dname);
    } else {
        r.add_node_set(0, z, dn, T_DNAME, None, Role::Dname);
    }
    let mut cn = vec![Rec::new(&cname_owner, T_CNAME, ttl, cname_target.clone())];
    if v == 6 {
        cn.insert(0, Rec::new(&cname_owner, T_CNAME, ttl, real.clone()));
    }
    r.add(0, z.idx, &cn, &empty, None, Role::SynthCname);
    r.add_node_set(0, z, real_node, T_A, None, Role::Data);
    if v == 5 {
        r.add_node_set(0, z, z.node(&cname_target)?, T_A, None, Role::Extra);
    }
    if v == 2 {
        if let Some(n) = z.node(&cname_target) {
            r.add_node_set(0, z, n, T_A, None, Role::Extra);
        }
    }
    let qname = if v == 3 { cname_owner } else { q };
    Some((qname, T_A, r, label))
}
