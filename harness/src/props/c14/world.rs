//! C14: the signed model world. Zones are written as wire-level records,
//! signed with the *library's* signer (generate_nsecs / generate_nsec3s /
//! sign_sorted_zone_records / sign_rrset) and every produced RRSIG is
//! re-verified with the independent reference (`refsec`) before the world is
//! used, so that a signer defect cannot hide a validator defect.
use super::refsec::{self, keys, Key};
use super::wire::*;
use bytes::Bytes;
use domain::base::iana::{Nsec3HashAlgorithm, SecurityAlgorithm};
use domain::base::name::FlattenInto;
use domain::base::rdata::ComposeRecordData;
use domain::base::{Message, Name, ParsedName, Record, RecordData, ToName};
use domain::crypto::sign::{SignError, SignRaw, Signature};
use domain::dnssec::sign::denial::nsec::{generate_nsecs, GenerateNsecConfig};
use domain::dnssec::sign::denial::nsec3::{generate_nsec3s, GenerateNsec3Config};
use domain::dnssec::sign::keys::SigningKey;
use domain::dnssec::sign::records::{DefaultSorter, Rrset, SortedRecords};
use domain::dnssec::sign::signatures::rrsigs::{sign_rrset, sign_sorted_zone_records, GenerateRrsigConfig};
use domain::rdata::dnssec::Timestamp;
use domain::rdata::nsec3::Nsec3Salt;
use domain::rdata::{Dnskey, Nsec3param, ZoneRecordData};
use std::collections::{BTreeMap, HashMap};
use std::sync::{Arc, Mutex};

pub type LibName = Name<Bytes>;
pub type LibData = ZoneRecordData<Bytes, LibName>;
pub type LibRec = Record<LibName, LibData>;

//------------ Shape ------------------------------------------------------------

#[derive(Clone, Copy, Debug, PartialEq, Eq, Hash)]
pub enum Denial {
    Nsec,
    Nsec3,
    Nsec3OptOut,
}

#[derive(Clone, Copy, Debug, PartialEq, Eq, Hash)]
pub enum Alg {
    P256,
    Rsa256,
    Rsa512,
    /// signs fine, but the validator has no support: RFC 4035 §5.2 → insecure
    Ed25519,
}

#[derive(Clone, Copy, Debug, PartialEq, Eq, Hash)]
pub struct ZoneShape {
    pub signed: bool,
    pub ds_in_parent: bool,
    pub denial: Denial,
    pub split_keys: bool,
    pub alg: Alg,
    pub iterations: u16,
    pub salt: bool,
    /// DS digest type published in the parent (1, 2 or 4)
    pub ds_digest: u8,
}

impl ZoneShape {
    pub const fn plain() -> ZoneShape {
        ZoneShape { signed: true, ds_in_parent: true, denial: Denial::Nsec, split_keys: false, alg: Alg::P256, iterations: 0, salt: false, ds_digest: 2 }
    }
    pub const fn unsigned() -> ZoneShape {
        ZoneShape { signed: false, ds_in_parent: false, denial: Denial::Nsec, split_keys: false, alg: Alg::P256, iterations: 0, salt: false, ds_digest: 2 }
    }
}

#[derive(Clone, Copy, Debug, PartialEq, Eq, Hash)]
pub enum Ta {
    RootDs,
    RootDnskey,
    RootBoth,
    TldDs,
    TldDnskey,
    None,
}

#[derive(Clone, Copy, Debug, PartialEq, Eq, Hash)]
pub struct Shape {
    /// ".", "tld.", "zone.tld.", "sub.zone.tld."
    pub z: [ZoneShape; 4],
    pub ta: Ta,
}

#[derive(Clone, Copy, Debug, PartialEq, Eq, Hash)]
pub enum Status {
    Secure,
    Insecure,
    Bogus,
    Indeterminate,
}

//------------ Zone data ----------------------------------------------------------

#[derive(Clone, Debug, Default)]
pub struct Node {
    pub name: Nm,
    pub rrsets: BTreeMap<u16, Vec<Rec>>,
    /// RRSIGs by type covered
    pub sigs: BTreeMap<u16, Vec<Rec>>,
}

#[derive(Clone, Debug)]
pub struct N3 {
    pub hash: Vec<u8>,
    pub next: Vec<u8>,
    pub opt_out: bool,
    pub rec: Rec,
    pub sigs: Vec<Rec>,
}

pub struct ZoneData {
    pub idx: usize,
    pub apex: Nm,
    pub parent: Option<usize>,
    pub shape: ZoneShape,
    pub ksk: usize,
    pub zsk: usize,
    pub ksk_flags: u16,
    pub zsk_flags: u16,
    /// canonical order, includes empty non-terminals (no rrsets)
    pub nodes: BTreeMap<Vec<Vec<u8>>, Node>,
    pub nsec3: Vec<N3>,
    pub salt: Vec<u8>,
}

/// A zone as part of one world: shared signed content plus the status the
/// world's anchors and delegations give it.
pub struct Zone {
    pub data: Arc<ZoneData>,
    pub status: Status,
    pub has_ta: bool,
}

impl std::ops::Deref for Zone {
    type Target = ZoneData;
    fn deref(&self) -> &ZoneData {
        &self.data
    }
}

impl ZoneData {
    pub fn node(&self, n: &[u8]) -> Option<&Node> {
        self.nodes.get(&canon_key(n))
    }
    pub fn key(&self, ksk: bool) -> &'static Key {
        &keys()[if ksk { self.ksk } else { self.zsk }]
    }
    pub fn dnskey_rdata(&self, ksk: bool) -> Vec<u8> {
        if ksk {
            self.key(true).dnskey_rdata(self.ksk_flags)
        } else {
            self.key(false).dnskey_rdata(self.zsk_flags)
        }
    }
    pub fn n3_match(&self, name: &[u8]) -> Option<&N3> {
        let h = refsec::nsec3_hash(name, &self.salt, self.shape.iterations);
        self.nsec3.iter().find(|n| n.hash == h)
    }
    /// The NSEC3 whose interval covers the hash of `name` (None if matched).
    pub fn n3_cover(&self, name: &[u8]) -> Option<&N3> {
        let h = refsec::nsec3_hash(name, &self.salt, self.shape.iterations);
        if self.nsec3.iter().any(|n| n.hash == h) {
            return None;
        }
        let mut best: Option<&N3> = None;
        for n in &self.nsec3 {
            if n.hash < h {
                best = Some(n);
            }
        }
        best.or(self.nsec3.last())
    }
    /// The NSEC3 whose next-hash field equals the hash of `name`.
    pub fn n3_pred(&self, name: &[u8]) -> Option<&N3> {
        let h = refsec::nsec3_hash(name, &self.salt, self.shape.iterations);
        self.nsec3.iter().find(|n| n.next == h)
    }
    /// Nodes that own an NSEC record, canonical order.
    pub fn nsec_nodes(&self) -> Vec<&Node> {
        self.nodes.values().filter(|n| n.rrsets.contains_key(&T_NSEC)).collect()
    }
    /// The NSEC-owning node that canonically precedes `name` (covers it).
    pub fn nsec_cover(&self, name: &[u8]) -> Option<&Node> {
        let k = canon_key(name);
        let mut best = None;
        for (key, n) in &self.nodes {
            if !n.rrsets.contains_key(&T_NSEC) {
                continue;
            }
            if *key < k {
                best = Some(n);
            }
        }
        best
    }
    pub fn closest_encloser(&self, name: &[u8]) -> Nm {
        let mut cur = name.to_vec();
        loop {
            if self.nodes.contains_key(&canon_key(&cur)) || name_eq(&cur, &self.apex) {
                return cur;
            }
            match parent(&cur) {
                Some(p) => cur = p,
                None => return cur,
            }
        }
    }
    pub fn is_cut(&self, name: &[u8]) -> bool {
        !name_eq(name, &self.apex) && self.node(name).map(|n| n.rrsets.contains_key(&T_NS)).unwrap_or(false)
    }
}

pub struct World {
    pub shape: Shape,
    pub zones: Vec<Zone>,
    pub anchors: String,
    pub inception: u32,
    pub expiration: u32,
}

pub const Z_ROOT: usize = 0;
pub const Z_TLD: usize = 1;
pub const Z_ZONE: usize = 2;
pub const Z_SUB: usize = 3;
pub const Z_OTHER: usize = 4;
pub const Z_ALT: usize = 5;
pub const Z_UNSIG0: usize = 6; // unsig.<apex of zone 0..=3>

impl World {
    /// Deepest zone responsible for (qname, qtype); DS at a cut belongs to the parent.
    pub fn find_zone(&self, qname: &[u8], qtype: u16) -> usize {
        let mut z = Z_ROOT;
        loop {
            let mut next = None;
            for c in &self.zones {
                if c.parent == Some(z) && ends_with(qname, &c.apex) {
                    next = Some(c.idx);
                    break;
                }
            }
            match next {
                None => return z,
                Some(c) => {
                    if qtype == T_DS && name_eq(qname, &self.zones[c].apex) {
                        return z;
                    }
                    z = c;
                }
            }
        }
    }
}

//------------ conversions ----------------------------------------------------------

pub fn recs_to_lib(recs: &[Rec]) -> Result<Vec<LibRec>, String> {
    let mut out = vec![];
    for chunk in recs.chunks(40) {
        let m = Msg { id: 0, flags: 0x8000, qname: vec![0], qtype: 1, answer: chunk.to_vec(), authority: vec![], additional: vec![] };
        let bytes = write_msg(&m, &WriteOpts::default());
        let msg = Message::from_octets(Bytes::from(bytes)).map_err(|e| format!("scratch message: {e}"))?;
        for rr in msg.answer().map_err(|e| format!("scratch answer: {e}"))? {
            let rr = rr.map_err(|e| format!("scratch record: {e}"))?;
            let r = rr
                .to_record::<ZoneRecordData<Bytes, ParsedName<Bytes>>>()
                .map_err(|e| format!("scratch rdata: {e}"))?
                .ok_or_else(|| "scratch rdata: type".to_string())?;
            let data: LibData = r.data().clone().flatten_into();
            out.push(Record::new(r.owner().to_name::<Bytes>(), r.class(), r.ttl(), data));
        }
    }
    Ok(out)
}

pub fn lib_to_rec<D: ComposeRecordData + RecordData>(r: &Record<LibName, D>) -> Rec {
    let mut rdata: Vec<u8> = vec![];
    r.data().compose_rdata(&mut rdata).expect("compose into Vec");
    Rec { owner: r.owner().as_slice().to_vec(), rtype: r.rtype().to_int(), class: r.class().to_int(), ttl: r.ttl().as_secs(), rdata }
}

pub fn lib_name(n: &[u8]) -> LibName {
    Name::from_octets(Bytes::copy_from_slice(n)).expect("valid name")
}

//------------ SignRaw wrapper -------------------------------------------------------

#[derive(Debug)]
pub struct KeyRef {
    idx: usize,
    flags: u16,
}

impl SignRaw for KeyRef {
    fn algorithm(&self) -> SecurityAlgorithm {
        SecurityAlgorithm::from_int(keys()[self.idx].alg)
    }
    fn dnskey(&self) -> Dnskey<Vec<u8>> {
        let k = &keys()[self.idx];
        Dnskey::new(self.flags, 3, SecurityAlgorithm::from_int(k.alg), k.public.clone()).expect("dnskey")
    }
    fn sign_raw(&self, data: &[u8]) -> Result<Signature, SignError> {
        keys()[self.idx].pair.sign_raw(data)
    }
}

//------------ zone content ------------------------------------------------------------

fn a(owner: &[u8], ip: [u8; 4]) -> Rec {
    Rec::new(owner, T_A, 3600, ip.to_vec())
}
fn cname(owner: &[u8], target: &[u8]) -> Rec {
    Rec::new(owner, T_CNAME, 3600, target.to_vec())
}
fn sub(label: &str, apex: &[u8]) -> Nm {
    let mut n = apex.to_vec();
    for l in label.split('.').rev() {
        n = prepend(l.as_bytes(), &n);
    }
    n
}

/// Unsigned content of zone `idx`.
fn content(idx: usize, apex: &[u8], ext_target: &[u8], full: bool) -> Vec<Rec> {
    let mut v = vec![];
    let ns = sub("ns", apex);
    let www = sub("www", apex);
    let mut soa = ns.clone();
    soa.extend_from_slice(&sub("hostmaster", apex));
    for x in [idx as u32 + 1, 3600, 600, 86400, 300] {
        soa.extend_from_slice(&x.to_be_bytes());
    }
    v.push(Rec::new(apex, T_SOA, 3600, soa));
    v.push(Rec::new(apex, T_NS, 3600, ns.clone()));
    v.push(a(&ns, [192, 0, 2, 53]));
    v.push(a(&www, [192, 0, 2, 1]));
    v.push(a(&www, [192, 0, 2, 2]));
    let mut v6 = vec![0x20, 0x01, 0x0d, 0xb8];
    v6.extend_from_slice(&[0; 11]);
    v6.push(idx as u8 + 1);
    v.push(Rec::new(&www, T_AAAA, 3600, v6));
    v.push(cname(&sub("ext", apex), &sub("www", ext_target)));
    if !full {
        return v;
    }
    v.push(cname(&sub("alias", apex), &www));
    v.push(cname(&sub("chain", apex), &sub("alias", apex)));
    v.push(cname(&sub("dang", apex), &sub("nope", apex)));
    v.push(a(&sub("*.wild", apex), [192, 0, 2, 7]));
    v.push(Rec::new(&sub("*.wild", apex), T_TXT, 3600, b"\x01w".to_vec()));
    v.push(a(&sub("x.wild", apex), [192, 0, 2, 8]));
    v.push(cname(&sub("*.wc", apex), &www));
    v.push(a(&sub("a.ent", apex), [192, 0, 2, 9]));
    let mut mx = vec![0, 10];
    mx.extend_from_slice(&www);
    v.push(Rec::new(&sub("mx", apex), T_MX, 3600, mx));
    // everything below dn.<apex> is redirected below ent.<apex> (RFC 6672)
    v.push(Rec::new(&sub("dn", apex), T_DNAME, 3600, sub("ent", apex)));
    v.push(a(&sub("b.ent", apex), [192, 0, 2, 10]));
    // a DNAME whose target is its own owner: every name below it is
    // redirected to itself (a loop made of one signed record)
    v.push(Rec::new(&sub("dl", apex), T_DNAME, 3600, sub("dl", apex)));
    v.push(cname(&sub("loop1", apex), &sub("loop2", apex)));
    v.push(cname(&sub("loop2", apex), &sub("loop1", apex)));
    v
}

fn zone_key_indices(idx: usize, shape: &ZoneShape) -> (usize, usize) {
    match shape.alg {
        Alg::P256 => {
            // zones 0..=5 get distinct P-256 keys where possible
            if idx == 5 {
                return (10, 10);
            }
            let k = (idx * 2) % 10;
            if shape.split_keys {
                (k, k + 1)
            } else {
                (k, k)
            }
        }
        Alg::Rsa256 => (refsec::K_RSA256, if shape.split_keys { (idx * 2 + 1) % 10 } else { refsec::K_RSA256 }),
        Alg::Rsa512 => (refsec::K_RSA512, if shape.split_keys { (idx * 2 + 1) % 10 } else { refsec::K_RSA512 }),
        Alg::Ed25519 => (refsec::K_ED25519, refsec::K_ED25519),
    }
}

fn build_nodes(apex: &[u8], recs: &[Rec]) -> (BTreeMap<Vec<Vec<u8>>, Node>, Vec<(Rec, Vec<Rec>)>) {
    let mut nodes: BTreeMap<Vec<Vec<u8>>, Node> = BTreeMap::new();
    let mut n3: Vec<(Rec, Vec<Rec>)> = vec![];
    // NSEC3 owner names
    let n3_owners: Vec<Nm> = recs.iter().filter(|r| r.rtype == T_NSEC3).map(|r| lower(&r.owner)).collect();
    for r in recs {
        if n3_owners.contains(&lower(&r.owner)) {
            if r.rtype == T_NSEC3 {
                n3.push((r.clone(), vec![]));
            }
            continue;
        }
        let e = nodes.entry(canon_key(&r.owner)).or_insert_with(|| Node { name: r.owner.clone(), ..Default::default() });
        if r.rtype == T_RRSIG {
            e.sigs.entry(r.covered()).or_default().push(r.clone());
        } else {
            e.rrsets.entry(r.rtype).or_default().push(r.clone());
        }
    }
    for r in recs {
        if r.rtype == T_RRSIG && n3_owners.contains(&lower(&r.owner)) {
            if let Some(e) = n3.iter_mut().find(|(x, _)| name_eq(&x.owner, &r.owner)) {
                e.1.push(r.clone());
            }
        }
    }
    // empty non-terminals
    let names: Vec<Nm> = nodes.values().map(|n| n.name.clone()).collect();
    for n in names {
        let mut cur = n;
        while let Some(p) = parent(&cur) {
            if !ends_with(&p, apex) || name_eq(&p, apex) {
                break;
            }
            nodes.entry(canon_key(&p)).or_insert_with(|| Node { name: p.clone(), ..Default::default() });
            cur = p;
        }
    }
    (nodes, n3)
}

fn now() -> u32 {
    std::time::SystemTime::now().duration_since(std::time::UNIX_EPOCH).map(|d| d.as_secs() as u32).unwrap_or(0)
}

/// Sign with the library. Returns all records of the signed zone.
fn sign_with_library(apex: &[u8], unsigned: &[Rec], shape: &ZoneShape, ksk: (usize, u16), zsk: (usize, u16), salt: &[u8], inc: u32, exp: u32) -> Result<Vec<Rec>, String> {
    let apex_name = lib_name(apex);
    let ks = &keys()[ksk.0];
    let zs = &keys()[zsk.0];
    let mut all: Vec<Rec> = unsigned.to_vec();
    let mut dnskeys = vec![Rec::new(apex, T_DNSKEY, 3600, ks.dnskey_rdata(ksk.1))];
    if zsk != ksk {
        dnskeys.push(Rec::new(apex, T_DNSKEY, 3600, zs.dnskey_rdata(zsk.1)));
    }
    all.extend(dnskeys.iter().cloned());
    let sorted: SortedRecords<LibName, LibData> = SortedRecords::from(recs_to_lib(&all)?);
    match shape.denial {
        Denial::Nsec => {
            let nsecs = generate_nsecs(&apex_name, sorted.owner_rrs(), &GenerateNsecConfig::new()).map_err(|e| format!("generate_nsecs: {e}"))?;
            for n in &nsecs {
                all.push(lib_to_rec(n));
            }
        }
        Denial::Nsec3 | Denial::Nsec3OptOut => {
            let salt = Nsec3Salt::from_octets(Bytes::copy_from_slice(salt)).map_err(|e| format!("salt: {e}"))?;
            let params = Nsec3param::new(Nsec3HashAlgorithm::SHA1, 0, shape.iterations, salt);
            let mut cfg = GenerateNsec3Config::<Bytes, DefaultSorter>::new(params);
            if shape.denial == Denial::Nsec3OptOut {
                cfg = cfg.with_opt_out();
            }
            let out = generate_nsec3s(&apex_name, sorted.owner_rrs(), &cfg).map_err(|e| format!("generate_nsec3s: {e}"))?;
            all.push(lib_to_rec(&out.nsec3param));
            for n in &out.nsec3s {
                all.push(lib_to_rec(n));
            }
        }
    }
    let sorted: SortedRecords<LibName, LibData> = SortedRecords::from(recs_to_lib(&all)?);
    let zkey = SigningKey::new(apex_name.clone(), zsk.1, KeyRef { idx: zsk.0, flags: zsk.1 });
    let cfg = GenerateRrsigConfig::new(Timestamp::from(inc), Timestamp::from(exp));
    let sigs = sign_sorted_zone_records(&apex_name, sorted.owner_rrs(), &[&zkey], &cfg).map_err(|e| format!("sign_sorted_zone_records: {e}"))?;
    for s in &sigs {
        all.push(lib_to_rec(s));
    }
    // DNSKEY RRset: signed by the KSK only
    let kkey = SigningKey::new(apex_name.clone(), ksk.1, KeyRef { idx: ksk.0, flags: ksk.1 });
    let dk_lib = recs_to_lib(&dnskeys)?;
    let rrset = Rrset::new_from_owned(&dk_lib).map_err(|e| format!("rrset: {e}"))?;
    let s = sign_rrset(&kkey, &rrset, Timestamp::from(inc), Timestamp::from(exp)).map_err(|e| format!("sign_rrset: {e}"))?;
    all.push(lib_to_rec(&s));
    Ok(all)
}

/// Every RRSIG of the zone must verify under the independent reference.
fn cross_check(z: &ZoneData) -> Result<(), String> {
    let check = |owner: &Nm, rrset: &Vec<Rec>, sigs: Option<&Vec<Rec>>, must: bool| -> Result<(), String> {
        let Some(sigs) = sigs else {
            if must {
                return Err(format!("no RRSIG for {} {}", show(owner), tname(rrset[0].rtype)));
            }
            return Ok(());
        };
        for s in sigs {
            let f = parse_rrsig(&s.rdata).ok_or("unparseable RRSIG")?;
            let data = refsec::signed_data(&f, rrset);
            let ok = [true, false].iter().any(|&k| {
                let rd = z.dnskey_rdata(k);
                refsec::key_tag(&rd) == f.key_tag && refsec::verify(&rd, &data, &f.signature)
            });
            if !ok {
                return Err(format!("library RRSIG over {} {} does not verify under the reference", show(owner), tname(rrset[0].rtype)));
            }
            if !name_eq(&f.signer, &z.apex) || f.labels as usize != label_count(owner) - usize::from(owner.starts_with(b"\x01*")) {
                return Err(format!("library RRSIG over {} has unexpected signer/labels", show(owner)));
            }
        }
        Ok(())
    };
    for n in z.nodes.values() {
        let cut = z.is_cut(&n.name);
        for (t, rrset) in &n.rrsets {
            let must = if cut { *t == T_DS || *t == T_NSEC } else { true };
            if cut && !must {
                if n.sigs.contains_key(t) {
                    return Err(format!("library signed {} at a cut", tname(*t)));
                }
                continue;
            }
            check(&n.name, rrset, n.sigs.get(t), must)?;
        }
    }
    for n in &z.nsec3 {
        check(&n.rec.owner, &vec![n.rec.clone()], Some(&n.sigs), true)?;
        if n.sigs.is_empty() {
            return Err("NSEC3 without RRSIG".into());
        }
    }
    Ok(())
}

/// Signature validity window, fixed once per process so that cached zones
/// of different worlds agree.
fn window() -> (u32, u32) {
    static W: std::sync::OnceLock<(u32, u32)> = std::sync::OnceLock::new();
    *W.get_or_init(|| {
        let now = now();
        (now.wrapping_sub(86400), now.wrapping_add(86400))
    })
}

type ZoneKey = (usize, ZoneShape, Vec<(Nm, Option<Vec<u8>>)>);
static ZCACHE: Mutex<Option<HashMap<ZoneKey, Result<Arc<ZoneData>, String>>>> = Mutex::new(None);

#[allow(clippy::too_many_arguments)]
fn build_zone(i: usize, apex: &Nm, par: Option<usize>, zs: &ZoneShape, ext: &Nm, full: bool, children: &[(Nm, Option<Vec<u8>>)], kidx: (usize, usize), flags: (u16, u16)) -> Result<Arc<ZoneData>, String> {
    let key: ZoneKey = (i, *zs, children.to_vec());
    {
        let g = ZCACHE.lock().unwrap();
        if let Some(z) = g.as_ref().and_then(|m| m.get(&key)) {
            return z.clone();
        }
    }
    let (inception, expiration) = window();
    let res = (|| -> Result<Arc<ZoneData>, String> {
        let mut recs = content(i, apex, ext, full);
        for (capex, ds) in children {
            recs.push(Rec::new(capex, T_NS, 3600, sub("ns", capex)));
            if let Some(ds) = ds {
                recs.push(Rec::new(capex, T_DS, 3600, ds.clone()));
            }
        }
        let salt: Vec<u8> = if zs.salt { vec![0xab, 0xcd, i as u8] } else { vec![] };
        let all = if zs.signed { sign_with_library(apex, &recs, zs, (kidx.0, flags.0), (kidx.1, flags.1), &salt, inception, expiration)? } else { recs };
        let (nodes, n3raw) = build_nodes(apex, &all);
        let mut nsec3: Vec<N3> = vec![];
        for (rec, sigs) in n3raw {
            let first = labels(&rec.owner)[0].to_vec();
            let hash = b32hex_decode(&first).ok_or("library NSEC3 owner label is not base32hex")?;
            // rdata: alg flags iter(2) saltlen salt hashlen hash bitmap
            let sl = rec.rdata[4] as usize;
            let hl = rec.rdata[5 + sl] as usize;
            let next = rec.rdata[6 + sl..6 + sl + hl].to_vec();
            nsec3.push(N3 { hash, next, opt_out: rec.rdata[1] & 1 == 1, rec, sigs });
        }
        nsec3.sort_by(|a, b| a.hash.cmp(&b.hash));
        let z = ZoneData { idx: i, apex: apex.clone(), parent: par, shape: *zs, ksk: kidx.0, zsk: kidx.1, ksk_flags: flags.0, zsk_flags: flags.1, nodes, nsec3, salt };
        if zs.signed {
            cross_check(&z).map_err(|e| format!("zone {}: {e}", show(&z.apex)))?;
        }
        Ok(Arc::new(z))
    })();
    let mut g = ZCACHE.lock().unwrap();
    let m = g.get_or_insert_with(HashMap::new);
    if m.len() > 20000 {
        m.clear();
    }
    m.insert(key, res.clone());
    res
}

fn build(shape: &Shape) -> Result<World, String> {
    let (inception, expiration) = window();
    // (apex, parent, shape, ext target, full content)
    let apexes: Vec<Nm> = vec![nm("."), nm("tld."), nm("zone.tld."), nm("sub.zone.tld."), nm("other.tld."), nm("alt.")];
    let mut specs: Vec<(Nm, Option<usize>, ZoneShape, Nm, bool)> = vec![
        (apexes[0].clone(), None, shape.z[0], nm("tld."), true),
        (apexes[1].clone(), Some(0), shape.z[1], nm("zone.tld."), true),
        (apexes[2].clone(), Some(1), shape.z[2], nm("sub.zone.tld."), true),
        (apexes[3].clone(), Some(2), shape.z[3], nm("other.tld."), true),
        (apexes[4].clone(), Some(1), ZoneShape::plain(), nm("unsig.tld."), true),
        (apexes[5].clone(), Some(0), ZoneShape::plain(), nm("tld."), false),
    ];
    for i in 0..4 {
        // insecure (unsigned) child of each of the first four zones; its
        // ext CNAME points back into the signed parent
        specs.push((sub("unsig", &apexes[i]), Some(i), ZoneShape::unsigned(), apexes[i].clone(), false));
    }
    // keys and DS first (a parent needs the child's DS)
    let kidx: Vec<(usize, usize)> = specs.iter().enumerate().map(|(i, s)| zone_key_indices(i, &s.2)).collect();
    let flags = |i: usize| -> (u16, u16) {
        if kidx[i].0 == kidx[i].1 {
            (257, 257)
        } else {
            (257, 256)
        }
    };
    let mut zones: Vec<Zone> = vec![];
    for (i, (apex, par, zs, ext, full)) in specs.iter().enumerate() {
        let mut children: Vec<(Nm, Option<Vec<u8>>)> = vec![];
        for (j, (capex, cpar, cs, _, _)) in specs.iter().enumerate() {
            if *cpar != Some(i) {
                continue;
            }
            let ds = if cs.ds_in_parent {
                let rd = keys()[kidx[j].0].dnskey_rdata(flags(j).0);
                Some(refsec::ds_rdata(capex, &rd, cs.ds_digest))
            } else {
                None
            };
            children.push((capex.clone(), ds));
        }
        let data = build_zone(i, apex, *par, zs, ext, *full, &children, kidx[i], flags(i))?;
        zones.push(Zone { data, status: Status::Indeterminate, has_ta: false });
    }
    // trust anchors
    let mut anchors = String::new();
    let mut add_ta = |z: &mut Zone, ds: bool, dnskey: bool| {
        z.has_ta = true;
        let rd = z.dnskey_rdata(true);
        if dnskey {
            anchors.push_str(&format!("{} 3600 IN DNSKEY {} 3 {} {}\n", show(&z.apex), z.ksk_flags, rd[3], domain::utils::base64::encode_string(&rd[4..])));
        }
        if ds {
            let d = refsec::ds_rdata(&z.apex, &rd, 2);
            let hex: String = d[4..].iter().map(|b| format!("{b:02x}")).collect();
            anchors.push_str(&format!("{} 3600 IN DS {} {} 2 {}\n", show(&z.apex), refsec::key_tag(&rd), rd[3], hex));
        }
    };
    match shape.ta {
        Ta::RootDs => add_ta(&mut zones[Z_ROOT], true, false),
        Ta::RootDnskey => add_ta(&mut zones[Z_ROOT], false, true),
        Ta::RootBoth => add_ta(&mut zones[Z_ROOT], true, true),
        Ta::TldDs => add_ta(&mut zones[Z_TLD], true, false),
        Ta::TldDnskey => add_ta(&mut zones[Z_TLD], false, true),
        Ta::None => {}
    }
    // expected status per zone (parents come first in the list)
    for i in 0..zones.len() {
        let supported = !matches!(zones[i].shape.alg, Alg::Ed25519);
        let st = if zones[i].has_ta {
            if zones[i].shape.signed && supported {
                Status::Secure
            } else {
                Status::Bogus
            }
        } else {
            match zones[i].parent.map(|p| zones[p].status) {
                None => Status::Indeterminate,
                Some(Status::Secure) => {
                    if zones[i].shape.ds_in_parent {
                        if !supported {
                            Status::Insecure
                        } else if zones[i].shape.signed {
                            Status::Secure
                        } else {
                            Status::Bogus
                        }
                    } else {
                        Status::Insecure
                    }
                }
                Some(s) => s,
            }
        };
        zones[i].status = st;
    }
    Ok(World { shape: *shape, zones, anchors, inception, expiration })
}

static CACHE: Mutex<Option<HashMap<Shape, Result<Arc<World>, String>>>> = Mutex::new(None);

pub fn world(shape: &Shape) -> Result<Arc<World>, String> {
    {
        let g = CACHE.lock().unwrap();
        if let Some(m) = g.as_ref() {
            if let Some(w) = m.get(shape) {
                return w.clone();
            }
        }
    }
    // built outside the lock; a racing duplicate build is harmless
    let w = build(shape).map(Arc::new);
    let mut g = CACHE.lock().unwrap();
    let m = g.get_or_insert_with(HashMap::new);
    if m.len() > 4096 {
        m.clear();
    }
    m.insert(*shape, w.clone());
    w
}
