//! C14 — the validator says "secure" only with a valid chain to a trust anchor.
//!
//! A small signed world (root → tld → zone → sub-zone, plus a sibling zone, a
//! second TLD and unsigned children) is signed with the library's signer and
//! cross-checked with an independent reference. Queries are answered by a
//! model resolver, fault scripts tamper with the final answer and with the
//! DS/DNSKEY lookups, and `ValidationContext::validate_msg` is run over an
//! in-process upstream. Oracle: soundness, completeness, totality.
#![allow(dead_code)]
mod auth;
mod faults;
mod refsec;
mod wire;
mod world;

use crate::engine::*;
use crate::gen::*;
use crate::{vensure, vfail};
use arbitrary::Unstructured;
use auth::*;
use bytes::Bytes;
use domain::base::Message;
use domain::dnssec::validator::anchor::TrustAnchors;
use domain::dnssec::validator::context::{Config, ValidationContext, ValidationState};
use domain::net::client::request::{ComposeRequest, Error as ReqError, GetResponse, RequestMessage, SendRequest};
use faults::*;
use std::collections::BTreeMap;
use std::future::Future;
use std::pin::Pin;
use std::sync::{Arc, Mutex};
use wire::*;
use world::*;

//------------ Upstream ------------------------------------------------------------------

#[derive(Clone, Debug, PartialEq, Eq, Hash)]
struct UpFault {
    zone: usize,
    qtype: u16,
    spec: FaultSpec,
}

#[derive(Default)]
struct UpState {
    count: usize,
    log: Vec<(Nm, u16)>,
    applied: Vec<(usize, Applied)>,
    /// effects that do not belong to a fault script (key tag collision)
    extra: Vec<(String, Applied)>,
}

#[derive(Clone)]
struct Up {
    world: Arc<World>,
    faults: Vec<UpFault>,
    final_qtype: u16,
    state: Arc<Mutex<UpState>>,
    /// real-time scenarios: for the lookup (apex of zone, type) serve this
    /// RRSIG instead of the genuine one(s)
    dnskey_sig: Option<(usize, u16, Rec)>,
    /// header flag bits or-ed into every lookup reply (AD, CD, AA, Z: what an
    /// upstream that validates itself, or lies, may set)
    hdr_bits: u16,
    /// every DNSKEY lookup reply of a signed zone carries one more key with
    /// the key tag of the zone's ZSK or KSK (RRset validly re-signed)
    key_coll: Option<KeyColl>,
    /// every DS lookup reply that holds a DS RRset carries one more DS that
    /// matches no DNSKEY (a pre-published / stand-by key): (listed first,
    /// same key tag and algorithm as the genuine DS); RRset validly re-signed
    ds_extra: Option<(bool, bool)>,
}

/// A second DNSKEY with the same key tag as a key of the zone (RFC 4035
/// §5.3.1: "the validator ... MUST try each matching DNSKEY RR").
#[derive(Clone, Copy, Debug, PartialEq, Eq, Hash)]
struct KeyColl {
    /// collide with the KSK (else the ZSK; the same key for a CSK)
    ksk: bool,
    /// listed before the genuine keys (else after them)
    front: bool,
    /// same tag but another algorithm number (never a candidate)
    other_alg: bool,
}

/// DNSKEY RDATA that differs from `target` in its public key but has the
/// same key tag: one octet in the middle of the key is changed and the last
/// two octets are chosen to compensate (RFC 4034 appendix B checksum).
fn colliding_key(target: &[u8], other_alg: bool) -> Option<Vec<u8>> {
    static CACHE: Mutex<BTreeMap<(Vec<u8>, bool), Option<Vec<u8>>>> = Mutex::new(BTreeMap::new());
    let key = (target.to_vec(), other_alg);
    if let Some(v) = CACHE.lock().unwrap().get(&key) {
        return v.clone();
    }
    let out = (|| {
        let n = target.len();
        if n < 4 + 8 {
            return None;
        }
        let tag = refsec::key_tag(target);
        let mut k = target.to_vec();
        if other_alg {
            k[3] = if k[3] == 13 { 8 } else { 13 };
        }
        k[4 + (n - 4) / 2] ^= 0x5a;
        for x in 0..=0xffffu16 {
            k[n - 2..].copy_from_slice(&x.to_be_bytes());
            if refsec::key_tag(&k) == tag {
                return Some(k);
            }
        }
        None
    })();
    CACHE.lock().unwrap().insert(key, out.clone());
    out
}

#[derive(Debug)]
struct Ready(Option<Result<Message<Bytes>, ReqError>>);

impl GetResponse for Ready {
    fn get_response(&mut self) -> Pin<Box<dyn Future<Output = Result<Message<Bytes>, ReqError>> + Send + Sync + '_>> {
        let r = self.0.take().unwrap_or(Err(ReqError::ConnectionClosed));
        Box::pin(async move { r })
    }
}

impl SendRequest<RequestMessage<Vec<u8>>> for Up {
    fn send_request(&self, req: RequestMessage<Vec<u8>>) -> Box<dyn GetResponse + Send + Sync> {
        let out = self.answer(&req);
        Box::new(Ready(Some(out)))
    }
}

impl Up {
    fn answer(&self, req: &RequestMessage<Vec<u8>>) -> Result<Message<Bytes>, ReqError> {
        let msg = req.to_message().map_err(|_| ReqError::FormError)?;
        let q = msg.sole_question().map_err(|_| ReqError::FormError)?;
        let qname: Nm = {
            use domain::base::ToName;
            q.qname().to_name::<Vec<u8>>().as_slice().to_vec()
        };
        let qtype = q.qtype().to_int();
        {
            let mut st = self.state.lock().unwrap();
            st.count += 1;
            if st.log.len() < 400 {
                st.log.push((qname.clone(), qtype));
            }
        }
        let mut resp = resolve(&self.world, &qname, qtype);
        let mut m = resp.to_msg(&qname, qtype);
        m.id = msg.header().id();
        m.flags |= self.hdr_bits;
        if let (Some(kc), true) = (self.key_coll, qtype == T_DNSKEY) {
            if let Some(z) = self.world.zones.iter().find(|z| z.shape.signed && name_eq(&z.apex, &qname)) {
                let target = z.dnskey_rdata(kc.ksk);
                let has_set = m.answer.iter().any(|r| r.rtype == T_DNSKEY);
                if let (true, Some(extra)) = (has_set, colliding_key(&target, kc.other_alg)) {
                    let at = if kc.front { m.answer.iter().position(|r| r.rtype == T_DNSKEY).unwrap_or(0) } else { m.answer.iter().rposition(|r| r.rtype == T_DNSKEY).map(|p| p + 1).unwrap_or(0) };
                    m.answer.insert(at, Rec::new(&z.apex, T_DNSKEY, 3600, extra));
                    // the zone publishes the key: the KSK signs the whole set
                    m.answer.retain(|r| !(r.rtype == T_RRSIG && r.covered() == T_DNSKEY));
                    let rrset: Vec<Rec> = m.answer.iter().filter(|r| r.rtype == T_DNSKEY).cloned().collect();
                    let sig = craft_sig(z.ksk, &z.dnskey_rdata(true), &z.apex, &rrset, label_count(&z.apex) as u8, 3600, self.world.inception, self.world.expiration, None);
                    m.answer.push(sig);
                    let label = format!("dnskey-tag-collision-{}-{}-{}:@{}", if kc.other_alg { "other-alg" } else { "same-alg" }, if kc.ksk { "ksk" } else { "zsk" }, if kc.front { "first" } else { "last" }, show(&z.apex));
                    self.state.lock().unwrap().extra.push(("lookup-DNSKEY".into(), Applied { effect: Effect::Harmless, label, touches_signed: true, forged_zone: None }));
                }
            }
        }
        if let (Some((front, same_tag)), true) = (self.ds_extra, qtype == T_DS) {
            // the DS RRset lives in the parent of the zone whose apex is asked
            let parent = self.world.zones.iter().find(|z| name_eq(&z.apex, &qname)).and_then(|z| z.parent).map(|p| &self.world.zones[p]);
            let first = m.answer.iter().position(|r| r.rtype == T_DS);
            if let (Some(p), Some(at)) = (parent.filter(|p| p.shape.signed), first) {
                let mut rd = m.answer[at].rdata.clone();
                if rd.len() > 6 {
                    let n = rd.len();
                    rd[n - 1] ^= 0xa5;
                    rd[4] ^= 0x3c;
                    if !same_tag {
                        rd[1] ^= 0x11;
                    }
                    let owner = m.answer[at].owner.clone();
                    let ttl = m.answer[at].ttl;
                    let pos = if front { at } else { m.answer.iter().rposition(|r| r.rtype == T_DS).map(|x| x + 1).unwrap_or(at) };
                    m.answer.insert(pos, Rec::new(&owner, T_DS, ttl, rd));
                    m.answer.retain(|r| !(r.rtype == T_RRSIG && r.covered() == T_DS));
                    let rrset: Vec<Rec> = m.answer.iter().filter(|r| r.rtype == T_DS).cloned().collect();
                    let sig = craft_sig(p.zsk, &p.dnskey_rdata(false), &p.apex, &rrset, label_count(&owner) as u8, ttl, self.world.inception, self.world.expiration, None);
                    m.answer.push(sig);
                    let label = format!("ds-without-matching-key-{}-{}:@{}", if same_tag { "same-tag" } else { "other-tag" }, if front { "first" } else { "last" }, show(&owner));
                    self.state.lock().unwrap().extra.push(("lookup-DS".into(), Applied { effect: Effect::Harmless, label, touches_signed: true, forged_zone: None }));
                }
            }
        }
        if let Some((zi, t, sig)) = &self.dnskey_sig {
            if qtype == *t && name_eq(&self.world.zones[*zi].apex, &qname) {
                m.answer.retain(|r| !(r.rtype == T_RRSIG && r.covered() == *t));
                m.answer.push(sig.clone());
            }
        }
        let mut opts = WriteOpts::default();
        let mut wire_kind = None;
        for (fi, f) in self.faults.iter().enumerate() {
            if f.qtype != qtype || !name_eq(&self.world.zones[f.zone].apex, &qname) {
                continue;
            }
            if let Some((k, sel, param)) = f.spec.structural {
                if matches!(k, SKind::Counts | SKind::Truncate | SKind::FlipByte | SKind::UpstreamError) {
                    wire_kind = Some((fi, (k, sel, param)));
                } else if let Some(a) = apply_structural(&self.world, &mut m, &mut resp.sets, k, sel, param, Some((f.zone, qtype)), self.final_qtype) {
                    self.state.lock().unwrap().applied.push((fi, a));
                }
            }
            for (k, sel, param) in &f.spec.cosmetic {
                if let Some(l) = apply_cosmetic(&mut m, &resp.sets, &mut opts, *k, *sel, *param) {
                    self.state.lock().unwrap().applied.push((fi, Applied { effect: Effect::Harmless, label: l, touches_signed: false, forged_zone: None }));
                }
            }
        }
        if std::env::var_os("C14_DEBUG").is_some() {
            eprintln!("lookup {} {} ->", show(&qname), tname(qtype));
            for r in m.answer.iter().chain(m.authority.iter()) {
                if let Some(f) = (r.rtype == T_RRSIG).then(|| parse_rrsig(&r.rdata)).flatten() {
                    eprintln!("   {} ttl={} signer={} tag={} labels={} alg={}", show_rec(r), r.ttl, show(&f.signer), f.key_tag, f.labels, f.alg);
                } else {
                    eprintln!("   {} ttl={} rdata[..8]={:?}", show_rec(r), r.ttl, &r.rdata[..r.rdata.len().min(8)]);
                }
            }
        }
        let (wire, a) = finish(&m, &opts, wire_kind.map(|x| x.1));
        if let (Some(a), Some((fi, _))) = (a, wire_kind) {
            self.state.lock().unwrap().applied.push((fi, a));
        }
        match wire {
            Wire::Error => Err(ReqError::StreamReceiveError),
            Wire::Bytes(b) => Message::from_octets(Bytes::from(b)).map_err(|_| ReqError::ShortMessage),
        }
    }
}

/// Upstream of the validating connection: hands out the final answer.
#[derive(Clone)]
struct FinalUp {
    bytes: Vec<u8>,
}

impl SendRequest<RequestMessage<Vec<u8>>> for FinalUp {
    fn send_request(&self, req: RequestMessage<Vec<u8>>) -> Box<dyn GetResponse + Send + Sync> {
        let mut b = self.bytes.clone();
        if b.len() >= 2 {
            let id = req.header().id().to_be_bytes();
            b[0] = id[0];
            b[1] = id[1];
        }
        Box::new(Ready(Some(Message::from_octets(Bytes::from(b)).map_err(|_| ReqError::ShortMessage))))
    }
}

//------------ Case ------------------------------------------------------------------------

const RELS: &[&str] = &[
    "www", "", "alias", "foo.wild", "nope", "ext", "www", "chain", "dang", "a.b.wild", "x.wild", "*.wild", "wild", "foo.wc", "ent", "a.ent", "b.ent", "mx", "ns",
    "", "nope.www", "0", "zzz", "a.b.c.nope", "loop1", "zone", "sub", "tld", "alt", "other", "unsig", "www.unsig", "nope.unsig", "bar.foo.wc", "www", "ns",
];
const QTYPES: &[u16] = &[T_A, T_A, T_AAAA, T_TXT, T_DS, T_MX, T_NS, T_SOA, T_CNAME, T_DNSKEY, T_NSEC, T_A];

#[derive(Clone, Debug, PartialEq, Eq, Hash)]
struct Case {
    shape: Shape,
    qzone: usize,
    rel: usize,
    qtype: u16,
    lie: Option<usize>,
    authority_ns: bool,
    answer_fault: Option<FaultSpec>,
    up_faults: Vec<(u8, bool, FaultSpec)>,
    bad_sigs: u8,
    /// also run the case through net::client::validator::Connection:
    /// (DO, AD, CD) of the client request
    via_connection: Option<(bool, bool, bool)>,
    /// validate the untampered answer first with the same context (warm
    /// caches), then the tampered one; lookup faults are not used then
    warm: bool,
    /// query name (relative) and type outside the RELS/QTYPES tables
    special: Option<(&'static str, u16)>,
    // Dimensions added later. They are decoded from the octets that follow
    // everything else, so an input that ends earlier (all replay files made
    // before) decodes to "none of them", i.e. to the case it always was.
    /// value handed to Config::set_max_cname_dname (None: setter not called)
    max_cname: Option<u8>,
    /// header flag bits (AD, CD, AA, Z) the upstream sets in the final answer
    hdr_bits: u16,
    /// ... and in the replies to the validator's DS / DNSKEY lookups
    hdr_lookups: bool,
    key_coll: Option<KeyColl>,
    /// values for Config::set_nsec3_iter_insecure / set_nsec3_iter_bogus
    n3_limits: Option<(u16, u16)>,
    /// all four caches of the context limited to one entry (constant eviction)
    small_caches: bool,
    ds_extra: Option<(bool, bool)>,
}

const F_AA: u16 = 0x0400;
const F_Z: u16 = 0x0040;
const F_AD: u16 = 0x0020;
const F_CD: u16 = 0x0010;

fn zone_shape(u: &mut Unstructured, root: bool) -> ZoneShape {
    let signed = chance(u, 244);
    let ds_in_parent = if root { true } else { chance(u, 210) };
    let denial = [Denial::Nsec, Denial::Nsec3, Denial::Nsec3OptOut][pick(u, 3)];
    let split_keys = flag(u);
    let alg = match byte(u) {
        0..=231 => Alg::P256,
        232..=239 => Alg::Rsa256,
        240..=245 => Alg::Rsa512,
        _ => Alg::Ed25519,
    };
    let iterations = [0u16, 0, 0, 0, 1, 12, 100, 150, 600][pick(u, 9)];
    let salt = flag(u);
    let ds_digest = [2u8, 2, 2, 1, 4][pick(u, 5)];
    ZoneShape { signed, ds_in_parent, denial, split_keys, alg, iterations: if denial == Denial::Nsec { 0 } else { iterations }, salt: salt && denial != Denial::Nsec, ds_digest }
}

fn fault_spec(u: &mut Unstructured, lookup: bool, restricted: Option<&[SKind]>) -> FaultSpec {
    let structural = if chance(u, 200) {
        let list = restricted.unwrap_or(if lookup { SKINDS_LOOKUP } else { SKINDS_ANSWER });
        Some((list[pick(u, list.len())], byte(u), u16_(u)))
    } else {
        None
    };
    let nc = [0usize, 0, 1, 1, 2][pick(u, 5)];
    let mut cosmetic = vec![];
    for _ in 0..nc {
        cosmetic.push((CKINDS[pick(u, CKINDS.len())], byte(u), u16_(u)));
    }
    FaultSpec { structural, cosmetic }
}

fn decode(u: &mut Unstructured, restricted: Option<&[SKind]>, plain_world: bool) -> Case {
    // Order: query and faults first, world shape last, so that short inputs
    // still give tampered queries (in the plainest world).
    let qzone = [2usize, 2, 2, 1, 3, 0, 4, 2, 1, 3, 2, 4, 5, 6, 7, 9][pick(u, 16)];
    let mode = pick(u, 8);
    let mut special: Option<(&'static str, u16)> = None;
    let (rel, qtype, lie) = if mode == 7 {
        (0, T_A, Some(pick(u, 10)))
    } else {
        let rel = pick(u, RELS.len());
        let qtype = QTYPES[pick(u, QTYPES.len())];
        // (added later, without changing how many octets are consumed: the
        // replayed-wildcard-NSEC lies, variants 10..)
        if mode == 6 && rel % 2 == 1 {
            (0, T_A, Some(10 + (rel / 2) % 4))
        } else if mode == 5 && rel % 2 == 1 {
            // (added later, same octet consumption: queries below the DNAME
            // and the DNAME lies, variants 14..)
            let k = (rel / 2) % 12;
            if k < 5 {
                special = Some((["a.dn", "b.dn", "zz.a.dn", "dn", "a.dn"][k], [T_A, T_A, T_A, T_DNAME, T_TXT][k]));
                (0, T_A, None)
            } else {
                (0, T_A, Some(14 + (k - 5)))
            }
        } else {
            (rel, qtype, None)
        }
    };
    let flags = byte(u);
    let authority_ns = flags & 0x07 == 0x07;
    let warm = flags & 0x38 == 0x38;
    let via_connection = if flags & 0xc0 == 0xc0 { Some((!chance(u, 50), !chance(u, 200), !chance(u, 230))) } else { None };
    let bad_sigs = [1u8, 1, 1, 2, 8][pick(u, 5)];
    // faults
    let nf = [1usize, 0, 1, 1, 2, 1, 1, 2][pick(u, 8)];
    let mut answer_fault = None;
    let mut up_faults = vec![];
    for _ in 0..nf {
        if pick(u, 5) < 3 {
            if answer_fault.is_none() {
                answer_fault = Some(fault_spec(u, false, restricted));
            }
        } else {
            up_faults.push((byte(u), flag(u), fault_spec(u, true, restricted)));
        }
    }
    let ta = [Ta::RootDs, Ta::RootDnskey, Ta::RootDs, Ta::RootDnskey, Ta::RootBoth, Ta::TldDs, Ta::TldDnskey, Ta::None][pick(u, 8)];
    let z = if plain_world {
        let mut z = [ZoneShape::plain(); 4];
        for s in z.iter_mut() {
            s.denial = [Denial::Nsec, Denial::Nsec3, Denial::Nsec3OptOut][pick(u, 3)];
            s.split_keys = flag(u);
        }
        z
    } else {
        [zone_shape(u, true), zone_shape(u, false), zone_shape(u, false), zone_shape(u, false)]
    };
    let mut z = z;
    // The zone that holds the trust anchor keeps to algorithms the validator
    // lists as supported (for an anchor the library verifies whatever ring
    // can verify; RFC 4035 makes no statement for unsupported anchors).
    let ta_zone = match ta {
        Ta::TldDs | Ta::TldDnskey => 1,
        _ => 0,
    };
    if z[ta_zone].alg == Alg::Ed25519 {
        z[ta_zone].alg = Alg::P256;
    }
    let shape = Shape { z, ta: if plain_world && !matches!(ta, Ta::RootDs | Ta::RootDnskey | Ta::RootBoth) { Ta::RootDs } else { ta } };
    // trailing dimensions (index 0 = as before, also when the input has ended)
    let max_cname = [None, None, None, Some(0u8), Some(1), Some(2), Some(3), Some(11), Some(100), Some(101), Some(200), Some(254), Some(255)][pick(u, 13)];
    let hdr_bits = [0, 0, 0, F_AD, F_CD, F_AD | F_CD, F_AD | F_CD, F_AD | F_AA, F_Z, F_AD | F_CD | F_AA | F_Z][pick(u, 10)];
    let hdr_lookups = flag(u);
    let kc = byte(u);
    let key_coll = if kc < 150 { None } else { Some(KeyColl { ksk: kc & 1 == 1, front: kc & 2 == 2, other_alg: kc & 0x0c == 0x0c }) };
    let n3_limits = [None, None, None, Some((0u16, 500u16)), Some((12, 500)), Some((150, 500)), Some((500, 500)), Some((99, 99)), Some((150, 12)), Some((600, 600))][pick(u, 10)];
    let small_caches = byte(u) >= 200;
    let qx = pick(u, 32);
    if qx >= 30 && lie.is_none() && special.is_none() {
        // queries below the self-referential DNAME `dl.<apex>`
        special = Some([("a.dl", T_A), ("x.y.dl", T_AAAA)][qx - 30]);
    }
    let dx = byte(u);
    let ds_extra = if dx < 170 { None } else { Some((dx & 1 == 1, dx & 2 == 2)) };
    // (round 6) owner names whose leftmost label is a literal `*` although
    // the RRset is a wildcard *expansion*: honest queries (completeness) and
    // the relabelled-wildcard lies, variants 21.. (auth.rs::relabelled_star_lie)
    let mut lie = lie;
    let sx = pick(u, 64);
    if sx >= 52 && lie.is_none() && special.is_none() {
        match sx - 52 {
            k @ 0..=7 => lie = Some(21 + k),
            8 => special = Some(("*.foo.wild", T_A)),
            9 => special = Some(("*.a.b.wild", T_TXT)),
            10 => special = Some(("*.x.wild", T_A)),
            _ => special = Some(("*.bar.foo.wc", T_A)),
        }
    }
    Case { shape, qzone, rel, qtype, lie, authority_ns, answer_fault, up_faults, bad_sigs, via_connection, warm, special, max_cname, hdr_bits, hdr_lookups, key_coll, n3_limits, small_caches, ds_extra }
}

fn st(v: ValidationState) -> Status {
    match v {
        ValidationState::Secure => Status::Secure,
        ValidationState::Insecure => Status::Insecure,
        ValidationState::Bogus => Status::Bogus,
        ValidationState::Indeterminate => Status::Indeterminate,
    }
}

fn rel_name(rel: &str, apex: &[u8]) -> Nm {
    let mut n = apex.to_vec();
    if !rel.is_empty() {
        for l in rel.split('.').rev() {
            n = prepend(l.as_bytes(), &n);
        }
    }
    n
}

/// Zones whose DS / DNSKEY the validator may have to fetch for this answer.
fn chain_lookups(w: &World, resp: &Resp) -> Vec<(usize, u16)> {
    let mut v: Vec<(usize, u16)> = vec![];
    for &zi in &resp.zones {
        let mut cur = Some(zi);
        while let Some(i) = cur {
            for t in [T_DS, T_DNSKEY] {
                if !(t == T_DS && w.zones[i].parent.is_none()) && !v.contains(&(i, t)) {
                    v.push((i, t));
                }
            }
            cur = w.zones[i].parent;
        }
    }
    v
}

fn run_case(case: &Case, ctx: &mut Ctx) -> CaseResult {
    let w = match world(&case.shape) {
        Ok(w) => w,
        Err(e) => vfail!("world:construction-or-signer-cross-check-failed", "{e}\nshape {:?}", case.shape),
    };
    let qz = &w.zones[case.qzone];
    // the query and its model answer
    let (qname, qtype, mut resp, lie_label) = match case.lie.and_then(|v| lie(&w, case.qzone, v)) {
        Some((n, t, r, l)) => (n, t, r, Some(l)),
        None => {
            let (rel, qt) = case.special.unwrap_or((RELS[case.rel], case.qtype));
            let n = rel_name(rel, &qz.apex);
            let r = resolve(&w, &n, qt);
            (n, qt, r, None)
        }
    };
    // Config::set_nsec3_iter_insecure / _bogus (both 0..=500, defaults 100 /
    // 500): NSEC3 records with more iterations than either are not hashed.
    // The model has an expectation only when no zone on the path exceeds the
    // smaller of the two.
    if let Some((i, b)) = case.n3_limits {
        let limit = i.min(500).min(b.min(500));
        resp.high_iter = resp.max_iter > limit;
        ctx.class(format!("knob:nsec3-iter-limit:{limit}"));
        if resp.max_iter > 0 {
            ctx.class(format!("knob:nsec3-iter:{}", if resp.max_iter > limit { "zone-above-limit" } else if resp.max_iter > 100 { "zone-above-100-within-limit" } else { "zone-within-limit" }));
        }
    }
    if case.small_caches {
        ctx.class("knob:caches-of-one-entry");
    }
    if case.authority_ns && lie_label.is_none() {
        add_authority_ns(&w, &mut resp);
    }
    let mut truth_expected = resp.expected();
    // DS of a name that itself carries a trust anchor, asked through a
    // parent that is not secure: the RRset is parent-side data (no anchor →
    // indeterminate/insecure), yet it sits at a name the anchor declares
    // secure. Both readings are defensible: no expectation.
    if qtype == T_DS && w.zones.iter().any(|z| z.has_ta && z.parent.is_some() && name_eq(&z.apex, &qname)) {
        ctx.class("ds-of-anchored-name");
        truth_expected = None;
    }
    // Config::set_max_cname_dname: "maximum number of CNAME and DNAME records
    // that are followed during validation" (0..=100, default 11). An answer
    // that needs more than the configured number has no expectation; one that
    // needs at most that many keeps the model's.
    let n_follow = resp.kinds.iter().filter(|k| matches!(**k, "cname" | "wildcard-cname" | "dname")).count();
    let cname_limit = case.max_cname.map(|v| v.min(100) as usize).unwrap_or(11);
    if let Some(v) = case.max_cname {
        ctx.class(format!("knob:max-cname-dname:{}", match v { 0..=3 => "0-3", 4..=100 => "4-100", _ => "above-100" }));
        if resp.kinds.contains(&"cname-loop") {
            ctx.class(format!("knob:loop-with-max-cname-dname:{}:{}", if v > 100 { "above-100" } else { "0-100" }, if resp.kinds.contains(&"dname") { "dname" } else { "cname" }));
        }
    }
    if lie_label.is_none() && n_follow > cname_limit {
        ctx.class("knob:chain-longer-than-max-cname-dname");
        truth_expected = None;
    } else if case.max_cname.is_some() && n_follow > 0 && n_follow == cname_limit {
        ctx.class("knob:chain-exactly-max-cname-dname");
    }
    let lie_secure = lie_label.is_some() && w.zones[case.qzone].status == Status::Secure;
    let mut m = resp.to_msg(&qname, qtype);
    m.flags |= case.hdr_bits;
    let mut sets = resp.sets.clone();
    let mut applied: Vec<(String, Applied)> = vec![];
    let mut opts = WriteOpts::default();
    let mut wire_kind = None;
    if let Some(f) = &case.answer_fault {
        if let Some((k, sel, param)) = f.structural {
            if matches!(k, SKind::Counts | SKind::Truncate | SKind::FlipByte) {
                wire_kind = Some((k, sel, param));
            } else if let Some(a) = apply_structural(&w, &mut m, &mut sets, k, sel, param, None, qtype) {
                applied.push(("answer".into(), a));
            }
        }
        for (k, sel, param) in &f.cosmetic {
            if let Some(l) = apply_cosmetic(&mut m, &sets, &mut opts, *k, *sel, *param) {
                applied.push(("answer".into(), Applied { effect: Effect::Harmless, label: l, touches_signed: false, forged_zone: None }));
            }
        }
    }
    if case.hdr_bits != 0 {
        let names: Vec<&str> = [(F_AD, "ad"), (F_CD, "cd"), (F_AA, "aa"), (F_Z, "z")].iter().filter(|(b, _)| case.hdr_bits & b != 0).map(|(_, n)| *n).collect();
        applied.push(("answer".into(), Applied { effect: Effect::Harmless, label: format!("hdr-flags:{}", names.join("+")), touches_signed: false, forged_zone: None }));
    }
    let (wire, a) = finish(&m, &opts, wire_kind);
    if let Some(a) = a {
        applied.push(("answer".into(), a));
    }
    let Wire::Bytes(bytes) = wire else { return Ok(()) };
    // upstream faults: choose among the lookups of the chain
    let lookups = chain_lookups(&w, &resp);
    let mut up_faults: Vec<UpFault> = vec![];
    if let Some(zi) = applied.iter().find_map(|(_, a)| a.forged_zone) {
        let param = case.answer_fault.as_ref().and_then(|f| f.structural).map(|x| x.2).unwrap_or(0);
        up_faults.push(UpFault { zone: zi, qtype: T_DNSKEY, spec: FaultSpec { structural: Some((SKind::ForgedDnskey, 0, param)), cosmetic: vec![] } });
    }
    for (sel, _f, spec) in &case.up_faults {
        if lookups.is_empty() {
            break;
        }
        let (zone, qt) = lookups[*sel as usize % lookups.len()];
        if up_faults.iter().any(|f| f.zone == zone && f.qtype == qt) {
            continue;
        }
        up_faults.push(UpFault { zone, qtype: qt, spec: spec.clone() });
    }
    if case.warm {
        up_faults.clear();
    }
    let state = Arc::new(Mutex::new(UpState::default()));
    let lookup_bits = if case.hdr_lookups { case.hdr_bits } else { 0 };
    let up = Up { world: w.clone(), faults: up_faults.clone(), final_qtype: qtype, state: state.clone(), dnskey_sig: None, hdr_bits: lookup_bits, key_coll: case.key_coll, ds_extra: case.ds_extra };
    let ta = match TrustAnchors::from_u8(w.anchors.as_bytes()) {
        Ok(t) => t,
        Err(e) => vfail!("world:trust-anchor-text-rejected", "{e}\n{}", w.anchors),
    };
    let mut config = Config::new();
    config.set_bad_signatures(case.bad_sigs);
    if let Some(v) = case.max_cname {
        config.set_max_cname_dname(v);
    }
    if let Some((i, b)) = case.n3_limits {
        config.set_nsec3_iter_insecure(i);
        config.set_nsec3_iter_bogus(b);
    }
    if case.small_caches {
        config.set_max_node_cache(1);
        config.set_max_nsec3_cache(1);
        config.set_max_isig_cache(1);
        config.set_max_usig_cache(1);
    }
    let vc = ValidationContext::with_config(ta, up, config);
    let Ok(mut msg) = Message::from_octets(bytes.clone()) else {
        ctx.class("final-message-shorter-than-header");
        return Ok(());
    };
    if case.warm {
        ctx.class("warm-context");
        let clean = write_msg(&resp.to_msg(&qname, qtype), &WriteOpts::default());
        if let Ok(mut cm) = Message::from_octets(clean) {
            let r = guarded("validate_msg", || block_on_paused(async { vc.validate_msg(&mut cm).await.map(|x| x.0) }));
            if let Err(v) = r {
                vfail!("panic:validate_msg:warm-up", "{}", v.detail);
            }
        }
    }
    let guarded_res = guarded("validate_msg", || block_on_paused(async { vc.validate_msg(&mut msg).await }));
    let (res, panicked) = match guarded_res {
        Ok(r) => (r, None),
        Err(v) => (Err(domain::dnssec::validator::context::Error::FormError), Some(v)),
    };
    let (count, log, up_applied, up_extra) = {
        let s = state.lock().unwrap();
        (s.count, s.log.clone(), s.applied.clone(), s.extra.clone())
    };
    // (the warm-up run asks the same lookups: keep one entry per label)
    for (t, a) in up_extra {
        if !applied.iter().any(|(_, x)| x.label == a.label) {
            applied.push((t, a));
        }
    }
    for (fi, mut a) in up_applied {
        let f = &up_faults[fi];
        a.label = format!("{}:@{}", a.label, show(&w.zones[f.zone].apex));
        applied.push((format!("lookup-{}", tname(f.qtype)), a));
    }

    // fault interplay: data re-signed with the KSK does not need the ZSK
    // that a DNSKEY-lookup fault took away
    if applied.iter().any(|(_, a)| a.label.starts_with("signed-by-ksk")) {
        for (_, a) in applied.iter_mut() {
            if a.label.starts_with("dnskey-malformed") && a.label.contains("replaces-zsk") {
                a.effect = Effect::Neutral;
            }
        }
    }

    //--- evidence
    let kinds = if let Some(l) = lie_label { l.to_string() } else { resp.kinds.join("+") };
    ctx.class(format!("query:{kinds}"));
    if lie_label.is_none() && qname.len() > 2 && qname[0] == 1 && qname[1] == b'*' {
        ctx.class(format!("star-leading-qname:{kinds}"));
    }
    for &zi in &resp.zones {
        let z = &w.zones[zi];
        ctx.class(format!("zone-status:{:?}", z.status));
        if z.shape.signed {
            ctx.class(format!("denial:{:?}", z.shape.denial));
            ctx.class(format!("keys:{}", if z.ksk == z.zsk { "csk" } else { "ksk+zsk" }));
            ctx.class(format!("alg:{:?}", z.shape.alg));
        } else {
            ctx.class("zone-unsigned");
        }
    }
    ctx.class(format!("anchor:{:?}", case.shape.ta));
    if resp.optout_used {
        ctx.class("proof-uses-opt-out");
    }
    if resp.high_iter {
        ctx.class("nsec3-iterations-above-100");
    }
    for (t, a) in &applied {
        let fam = a.label.split(':').next().unwrap_or("");
        ctx.class(format!("fault:{}:{}:{:?}", if t == "answer" { "answer" } else { "lookup" }, fam, a.effect));
    }
    let structural: Vec<&(String, Applied)> = applied.iter().filter(|(_, a)| a.effect != Effect::Harmless || a.label.contains("sig")).collect();
    if applied.is_empty() {
        ctx.class("no-fault");
    }
    let verdict: Result<Status, String> = match &res {
        Ok((v, _)) => Ok(st(*v)),
        Err(e) => Err(format!("{e}")),
    };
    ctx.class(match &verdict {
        Ok(v) => format!("verdict:{v:?}"),
        Err(_) => "verdict:error".into(),
    });
    let secure_levels = {
        let mut n = 0;
        let mut cur = resp.zones.first().copied();
        while let Some(i) = cur {
            if w.zones[i].status == Status::Secure {
                n += 1;
            }
            cur = w.zones[i].parent;
        }
        n
    };
    let negative_or_wildcard = lie_label.is_some() || resp.kinds.iter().any(|k| k.contains("nodata") || k.contains("nxdomain") || k.contains("wildcard"));
    if secure_levels >= 2 && (negative_or_wildcard || applied.iter().any(|(_, a)| a.touches_signed)) {
        ctx.nontrivial(case);
    }
    let describe = || {
        let mut s = format!(
            "anchor={:?} zones=[{}] query={} {} ({kinds}) rcode={} model-expects={:?}\n",
            case.shape.ta,
            (0..4).map(|i| format!("{}:{}{:?}/{:?}{}", show(&w.zones[i].apex), if case.shape.z[i].signed { "" } else { "UNSIGNED/" }, case.shape.z[i].denial, w.zones[i].status, if case.shape.z[i].ds_in_parent { "" } else { "/noDS" })).collect::<Vec<_>>().join(" "),
            show(&qname),
            tname(qtype),
            resp.rcode,
            truth_expected
        );
        for (t, a) in &applied {
            s.push_str(&format!("  fault on {t}: {} [{:?}]\n", a.label, a.effect));
        }
        s.push_str(&format!("  final message: an=[{}] ns=[{}]\n", m.answer.iter().map(show_rec).collect::<Vec<_>>().join(", "), m.authority.iter().map(show_rec).collect::<Vec<_>>().join(", ")));
        s.push_str(&format!("  lookups({count}): {}\n", log.iter().take(24).map(|(n, t)| format!("{} {}", show(n), tname(*t))).collect::<Vec<_>>().join(", ")));
        s.push_str(&format!("  verdict: {:?} ede={:?}", verdict, res.as_ref().ok().and_then(|r| r.1.as_ref().map(|e| format!("{e:?}")))));
        s
    };
    ctx.sample(describe);

    //--- the same case through the validating connection
    let mut conn_result: Option<String> = None;
    if let (Some((do_bit, ad_bit, cd_bit)), None) = (case.via_connection, &panicked) {
        use domain::base::{MessageBuilder, Name, Rtype};
        let state2 = Arc::new(Mutex::new(UpState::default()));
        let up2 = Up { world: w.clone(), faults: up_faults.clone(), final_qtype: qtype, state: state2, dnskey_sig: None, hdr_bits: lookup_bits, key_coll: case.key_coll, ds_extra: case.ds_extra };
        let mut config = Config::new();
        config.set_bad_signatures(case.bad_sigs);
        if let Some(v) = case.max_cname {
            config.set_max_cname_dname(v);
        }
        if let Some((i, b)) = case.n3_limits {
            config.set_nsec3_iter_insecure(i);
            config.set_nsec3_iter_bogus(b);
        }
        if case.small_caches {
            config.set_max_node_cache(1);
            config.set_max_nsec3_cache(1);
            config.set_max_isig_cache(1);
            config.set_max_usig_cache(1);
        }
        let ta2 = TrustAnchors::from_u8(w.anchors.as_bytes()).expect("anchors parsed before");
        let vc2 = Arc::new(ValidationContext::with_config(ta2, up2, config));
        let conn = domain::net::client::validator::Connection::<FinalUp, Vec<u8>, Up>::new(FinalUp { bytes: bytes.clone() }, vc2);
        let mut mb = MessageBuilder::new_vec();
        mb.header_mut().set_rd(true);
        mb.header_mut().set_ad(ad_bit);
        mb.header_mut().set_cd(cd_bit);
        let mut q = mb.question();
        let qn: Name<Vec<u8>> = Name::from_octets(lower(&qname)).expect("name");
        q.push((qn, Rtype::from_int(qtype))).expect("push question");
        let mut req = RequestMessage::new(q.into_message()).expect("request");
        req.set_dnssec_ok(do_bit);
        let r = guarded("validator::Connection", || {
            block_on_paused(async {
                let mut g = conn.send_request(req);
                g.get_response().await
            })
        });
        let final_rcode = (bytes[3] & 0x0f) as u16;
        let wire_fault = applied.iter().any(|(t, a)| t == "answer" && matches!(a.label.split(':').next().unwrap_or(""), "truncated" | "flip-bit") || a.label.starts_with("header-count"));
        ctx.class(format!("connection:do={do_bit}:cd={cd_bit}"));
        if case.hdr_bits & F_AD != 0 {
            // the upstream claims to have validated: the AD bit handed out must
            // still be the validator's own
            ctx.class(format!("connection:upstream-sets-ad:cd={cd_bit}:upstream-cd={}", case.hdr_bits & F_CD != 0));
        }
        match r {
            Err(v) => {
                let parts: Vec<&str> = v.sig.splitn(3, ':').collect();
                let file = parts.get(1).map(|f| f.rsplit('/').next().unwrap_or(f)).unwrap_or("?");
                let msg = parts.get(2).copied().unwrap_or("?");
                let msg = msg.split('(').next().unwrap_or(msg).trim();
                vfail!(format!("panic:validator-connection:{file}:{msg}"), "{}\nrequest DO={do_bit} AD={ad_bit} CD={cd_bit}\n{}", v.detail, describe());
            }
            Ok(Err(e)) => {
                conn_result = Some(format!("Err({e})"));
                if !wire_fault && !cd_bit {
                    vensure!(verdict.is_err(), "connection:error-for-wellformed-answer", "Connection returned Err({e}) but validate_msg gave {verdict:?}\n{}", describe());
                }
            }
            Ok(Ok(out)) => {
                let ad = out.header().ad();
                let rcode = out.header().rcode().to_int() as u16;
                conn_result = Some(format!("ad={ad} rcode={rcode}"));
                if std::env::var_os("C14_DEBUG").is_some() {
                    eprintln!("connection result: {conn_result:?}; final message octets: {}", bytes.iter().map(|b| format!("{b:02x}")).collect::<String>());
                }
                if wire_fault {
                    // octet-level damage can make the outcome depend on the
                    // message ID (a pointer into the header): no comparison
                } else if cd_bit {
                    vensure!(!ad, "connection:ad-set-with-cd", "AD set although the client asked for CD\n{}", describe());
                } else {
                    match &verdict {
                        Ok(Status::Secure) => {
                            vensure!(ad == (do_bit || ad_bit), "connection:ad-bit-wrong-for-secure", "verdict Secure, request DO={do_bit} AD={ad_bit}, response AD={ad}\n{}", describe());
                            vensure!(rcode == final_rcode, "connection:rcode-changed-for-secure", "rcode {final_rcode} became {rcode}\n{}", describe());
                        }
                        Ok(Status::Bogus) => {
                            vensure!(!ad && rcode == 2, "connection:bogus-not-servfail", "verdict Bogus but response has AD={ad} rcode={rcode}\n{}", describe());
                        }
                        Ok(_) => {
                            vensure!(!ad, "connection:ad-set-without-secure", "verdict {verdict:?} but AD is set\n{}", describe());
                            vensure!(rcode == final_rcode, "connection:rcode-changed", "rcode {final_rcode} became {rcode}\n{}", describe());
                        }
                        Err(e) => vfail!("connection:ok-although-validate-msg-failed", "validate_msg Err({e}) but the connection delivered a response\n{}", describe()),
                    }
                }
            }
        }
    }
    if std::env::var_os("C14_DEBUG").is_some() {
        eprintln!("connection result: {conn_result:?}; final message octets: {}", bytes.iter().map(|b| format!("{b:02x}")).collect::<String>());
    }

    //--- totality: no panic, bounded number of lookups
    if let Some(v) = panicked {
        let parts: Vec<&str> = v.sig.splitn(3, ':').collect();
        let file = parts.get(1).map(|f| f.rsplit('/').next().unwrap_or(f)).unwrap_or("?");
        let msg = parts.get(2).copied().unwrap_or("?");
        // keep the message up to the first case-specific detail
        let msg = msg.split('(').next().unwrap_or(msg).trim();
        vfail!(format!("panic:validate_msg:{file}:{msg}"), "{}\n{}", v.detail, describe());
    }
    let bound: usize = 16
        + 4 * m
            .answer
            .iter()
            .chain(m.authority.iter())
            .map(|r| label_count(&r.owner) + 2 + if r.rtype == T_RRSIG { parse_rrsig(&r.rdata).map(|f| label_count(&f.signer)).unwrap_or(0) } else { 0 })
            .sum::<usize>();
    vensure!(count <= bound, "totality:lookups-exceed-bound", "{count} upstream lookups for one validate_msg, bound {bound}\n{}", describe());

    //--- soundness and completeness
    let worst = structural.iter().map(|(_, a)| a.effect).max();
    let fault_sig = || -> String {
        let mut v: Vec<String> = structural.iter().map(|(t, a)| format!("{}/{}", if t == "answer" { "answer" } else { t.as_str() }, a.label.split(':').next().unwrap_or(""))).collect();
        v.sort();
        v.dedup();
        v.join(",")
    };
    let is_secure = verdict == Ok(Status::Secure);
    // nothing is secure without a chain from an anchor
    // (a signature made by the fault script with the genuine key of a secure
    // ancestor zone does chain to the anchor: no claim then)
    let ancestor_signed = applied.iter().any(|(_, a)| a.label.starts_with("wrong-signer-ancestor"));
    if let Some(exp) = &resp.chain_expected() {
        if lie_label.is_none() && !exp.contains(&Status::Secure) && !ancestor_signed {
            vensure!(!is_secure, format!("soundness:secure-without-chain:{kinds}"), "model allows {exp:?} but the validator says Secure\n{}", describe());
        }
    }
    if let Some(l) = lie_label {
        // records signed with the zone's own key by the fault script (hostile
        // operator) can make any denial true: judge lies only when the answer
        // carries nothing but cosmetic changes
        let answer_structural = structural.iter().any(|(t, _)| t == "answer");
        if answer_structural {
            return Ok(());
        }
        if lie_secure || !truth_expected.as_ref().map(|e| e.contains(&Status::Secure)).unwrap_or(false) {
            vensure!(!is_secure, format!("soundness:{}:{l}:{:?}", if l.starts_with("lie-dname") { "secure-for-forged-answer" } else { "secure-for-false-denial" }, w.zones[case.qzone].shape.denial), "a false statement dressed with genuine signed records was accepted as Secure\n{}", describe());
        }
        return Ok(());
    }
    match worst {
        Some(Effect::Breaking) | Some(Effect::Downgrade) => {
            vensure!(!is_secure, format!("soundness:secure-despite:{}", fault_sig()), "a fault that breaks data, signature, key chain or proof still gives Secure\n{}", describe());
            let only = structural.len() == 1 && worst == Some(Effect::Downgrade);
            // With Opt-Out an unsigned name below a covered span may be an
            // insecure delegation (RFC 5155 §6): stripping the final answer
            // can then legitimately end in Insecure.
            let optout_on_path = lookups.iter().any(|(zi, _)| w.zones[*zi].shape.signed && w.zones[*zi].shape.denial == Denial::Nsec3OptOut);
            let strict = structural[0].0 != "answer" || !optout_on_path;
            if only && strict && truth_expected.as_ref().map(|e| e.iter().all(|s| matches!(s, Status::Secure | Status::Insecure))).unwrap_or(false) {
                vensure!(
                    verdict == Ok(Status::Bogus) || verdict.is_err(),
                    format!("soundness:stripped-not-bogus:{}", fault_sig()),
                    "DNSSEC material of a signed zone was stripped without signed proof; RFC 4033 §5 allows only Bogus\n{}",
                    describe()
                );
            }
        }
        Some(Effect::Neutral) => {}
        Some(Effect::Harmless) | None => {
            if let Some(exp) = &truth_expected {
                match &verdict {
                    Ok(v) => vensure!(
                        exp.contains(v),
                        format!("{}:{kinds}:want-{}:got-{v:?}", if applied.is_empty() { "completeness".to_string() } else { format!("harmless:{}", applied.iter().map(|(_, a)| a.label.split(':').next().unwrap_or("").to_string()).collect::<Vec<_>>().join(",")) }, exp.iter().map(|s| format!("{s:?}")).collect::<Vec<_>>().join("|")),
                        "verdict differs from the model\n{}",
                        describe()
                    ),
                    Err(e) => vfail!(format!("completeness:{kinds}:error"), "validate_msg returned Err({e}) for a well-formed answer\n{}", describe()),
                }
            }
        }
    }
    Ok(())
}

fn run_main(data: &[u8], ctx: &mut Ctx) -> CaseResult {
    let mut u = Unstructured::new(data);
    let case = decode(&mut u, None, false);
    run_case(&case, ctx)
}

/// Same machinery on the fully secure world only (all four levels signed and
/// chained): every fault meets a signed object.
fn run_secure(data: &[u8], ctx: &mut Ctx) -> CaseResult {
    let mut u = Unstructured::new(data);
    let case = decode(&mut u, None, true);
    run_case(&case, ctx)
}

//------------ real-time check: cached signature results and expiry -----------------

fn unix_now() -> u32 {
    std::time::SystemTime::now().duration_since(std::time::UNIX_EPOCH).map(|d| d.as_secs() as u32).unwrap_or(0)
}

/// Two scenarios that need real time to pass (about four seconds together;
/// `Timestamp::now()` and the validator's `Instant`s cannot be driven from
/// outside). Both use one `ValidationContext` twice, before and after a
/// signature expires, and share the waiting time.
///
/// A (signature cache): `www.zone.tld. A` with an RRSIG expiring in 2 s is
///   Secure; the same message after expiry must not be Secure.
/// B (node cache): the RRSIG over the DNSKEY RRset of `zone.tld.` expires in
///   2 s, everything else is valid for a day. `www.zone.tld. A` is Secure;
///   after expiry `mx.zone.tld. MX` (own RRSIG still valid) must not be
///   Secure, because the chain anchor → DS → DNSKEY has an expired link.
///
/// Only schedule-independent facts are asserted: the "before" verdict is
/// judged only if the clock still shows a time ≤ expiration after the call
/// returned, the "after" calls are made once the clock is at least two
/// seconds past expiration. Returns the scenarios that were skipped because
/// the machine was too slow.
fn realtime_checks() -> Result<Vec<&'static str>, Violation> {
    let shape = Shape { z: [ZoneShape::plain(); 4], ta: Ta::RootDs };
    let w = world(&shape).map_err(|e| Violation::new("world:construction-or-signer-cross-check-failed", e))?;
    let z = &w.zones[Z_ZONE];
    let www = rel_name("www", &z.apex);
    let mx = rel_name("mx", &z.apex);
    let clean = |name: &Nm, t: u16| write_msg(&resolve(&w, name, t).to_msg(name, t), &WriteOpts::default());
    let exp = unix_now().wrapping_add(2);
    // A: the answer's own RRSIG expires
    let mut m = resolve(&w, &www, T_A).to_msg(&www, T_A);
    let rrset: Vec<Rec> = m.answer.iter().filter(|r| r.rtype == T_A).cloned().collect();
    let sig = craft_sig(z.zsk, &z.dnskey_rdata(false), &z.apex, &rrset, label_count(&www) as u8, 3600, exp.wrapping_sub(1000), exp, None);
    m.answer.retain(|r| r.rtype != T_RRSIG);
    m.answer.push(sig);
    let bytes_a = write_msg(&m, &WriteOpts::default());
    // B: the RRSIG over zone.tld.'s DNSKEY RRset expires
    let dnskeys = z.node(&z.apex).and_then(|n| n.rrsets.get(&T_DNSKEY)).cloned().ok_or_else(|| Violation::new("world:no-dnskey", "zone.tld. has no DNSKEY RRset"))?;
    let ksig = craft_sig(z.ksk, &z.dnskey_rdata(true), &z.apex, &dnskeys, label_count(&z.apex) as u8, 3600, exp.wrapping_sub(1000), exp, None);
    let bytes_b1 = clean(&www, T_A);
    let bytes_b2 = clean(&mx, T_MX);
    // C: the RRSIG over the DNSKEY RRset of the trust-anchor zone expires
    let root = &w.zones[Z_ROOT];
    let root_keys = root.node(&root.apex).and_then(|n| n.rrsets.get(&T_DNSKEY)).cloned().ok_or_else(|| Violation::new("world:no-dnskey", "the root has no DNSKEY RRset"))?;
    let rsig = craft_sig(root.ksk, &root.dnskey_rdata(true), &root.apex, &root_keys, 0, 3600, exp.wrapping_sub(1000), exp, None);
    let bytes_c1 = clean(&rel_name("www", &root.apex), T_A);
    let bytes_c2 = clean(&rel_name("mx", &root.apex), T_MX);
    // D: the RRSIG over the DS RRset of zone.tld. (in tld.) expires
    let tld = &w.zones[Z_TLD];
    let ds = tld.node(&z.apex).and_then(|n| n.rrsets.get(&T_DS)).cloned().ok_or_else(|| Violation::new("world:no-ds", "tld. has no DS for zone.tld."))?;
    let dsig = craft_sig(tld.zsk, &tld.dnskey_rdata(false), &tld.apex, &ds, label_count(&z.apex) as u8, 3600, exp.wrapping_sub(1000), exp, None);
    let mk = |dnskey_sig: Option<(usize, u16, Rec)>| -> Result<ValidationContext<Up>, Violation> {
        let up = Up { world: w.clone(), faults: vec![], final_qtype: T_A, state: Arc::new(Mutex::new(UpState::default())), dnskey_sig, hdr_bits: 0, key_coll: None, ds_extra: None };
        let ta = TrustAnchors::from_u8(w.anchors.as_bytes()).map_err(|e| Violation::new("world:trust-anchor-text-rejected", format!("{e}")))?;
        Ok(ValidationContext::new(ta, up))
    };
    let vc_a = mk(None)?;
    let vc_b = mk(Some((Z_ZONE, T_DNSKEY, ksig)))?;
    let vc_c = mk(Some((Z_ROOT, T_DNSKEY, rsig)))?;
    let vc_d = mk(Some((Z_ZONE, T_DS, dsig)))?;
    let run = |vc: &ValidationContext<Up>, bytes: &Vec<u8>| -> Result<Result<Status, String>, Violation> {
        let mut msg = Message::from_octets(bytes.clone()).expect("message");
        guarded("validate_msg", || block_on_paused(async { vc.validate_msg(&mut msg).await })).map(|r| r.map(|x| st(x.0)).map_err(|e| format!("{e}")))
    };
    let mut skipped = vec![];
    // step 1 of both
    let first_a = run(&vc_a, &bytes_a)?;
    let a_in_time = unix_now() <= exp;
    let first_b = run(&vc_b, &bytes_b1)?;
    let b_in_time = unix_now() <= exp;
    let first_c = run(&vc_c, &bytes_c1)?;
    let c_in_time = unix_now() <= exp;
    let first_d = run(&vc_d, &bytes_b1)?;
    let d_in_time = unix_now() <= exp;
    if c_in_time && first_c != Ok(Status::Secure) {
        return Err(Violation::new("node-cache:fresh-anchor-dnskey-signature-not-secure", format!("www. A with a root DNSKEY RRSIG valid for two more seconds gives {first_c:?}")));
    }
    if d_in_time && first_d != Ok(Status::Secure) {
        return Err(Violation::new("node-cache:fresh-ds-signature-not-secure", format!("www.zone.tld. A with a DS RRSIG valid for two more seconds gives {first_d:?}")));
    }
    if !c_in_time {
        skipped.push("node-cache-anchor");
    }
    if !d_in_time {
        skipped.push("node-cache-ds");
    }
    if a_in_time && first_a != Ok(Status::Secure) {
        return Err(Violation::new("sig-cache:fresh-signature-not-secure", format!("a signature valid for two more seconds gives {first_a:?}")));
    }
    if b_in_time && first_b != Ok(Status::Secure) {
        return Err(Violation::new("node-cache:fresh-dnskey-signature-not-secure", format!("www.zone.tld. A with a DNSKEY RRSIG valid for two more seconds gives {first_b:?}")));
    }
    if !a_in_time {
        skipped.push("sig-cache");
    }
    if !b_in_time {
        skipped.push("node-cache");
    }
    if skipped.len() == 4 {
        return Ok(skipped);
    }
    while unix_now() < exp.wrapping_add(2) {
        std::thread::sleep(std::time::Duration::from_millis(200));
    }
    let late = unix_now().wrapping_sub(exp);
    if a_in_time {
        match run(&vc_a, &bytes_a) {
            Err(v) => {
                let msg = v.sig.rsplit(':').next().unwrap_or("").to_string();
                return Err(Violation::new(format!("sig-cache:panic-after-expiry:{msg}"), format!("the same message was validated again with the same context {late} s after its RRSIG expired: {}", v.detail)));
            }
            Ok(Ok(Status::Secure)) => {
                return Err(Violation::new(
                    "sig-cache:expired-signature-still-secure",
                    format!("www.zone.tld. A with an RRSIG expiring at {exp} was Secure before expiry and is still Secure {late} s after it (same ValidationContext: the cached signature check ignores time)"),
                ));
            }
            Ok(_) => {}
        }
    }
    if b_in_time {
        match run(&vc_b, &bytes_b2) {
            Err(v) => {
                let msg = v.sig.rsplit(':').next().unwrap_or("").to_string();
                return Err(Violation::new(format!("node-cache:panic-after-expiry:{msg}"), format!("mx.zone.tld. MX validated {late} s after the RRSIG over the zone's DNSKEY RRset expired: {}", v.detail)));
            }
            Ok(Ok(Status::Secure)) => {
                return Err(Violation::new(
                    "node-cache:expired-dnskey-signature-still-secure",
                    format!("the RRSIG over the DNSKEY RRset of zone.tld. expired at {exp} (the upstream serves no other). Before that www.zone.tld. A was Secure; {late} s after it mx.zone.tld. MX (own RRSIG valid) is still Secure with the same ValidationContext: the cached zone node outlives the signature that authenticated its keys"),
                ));
            }
            Ok(_) => {}
        }
    }
    for (in_time, vc, bytes, sig, what) in [
        (c_in_time, &vc_c, &bytes_c2, "node-cache:expired-anchor-dnskey-signature-still-secure", "the RRSIG over the DNSKEY RRset of the trust-anchor zone (root) expired; before that www. A was Secure, now mx. MX (own RRSIG valid)"),
        (d_in_time, &vc_d, &bytes_b2, "node-cache:expired-ds-signature-still-secure", "the RRSIG over the DS RRset of zone.tld. expired; before that www.zone.tld. A was Secure, now mx.zone.tld. MX (own RRSIG valid)"),
    ] {
        if !in_time {
            continue;
        }
        match run(vc, bytes) {
            Err(v) => return Err(Violation::new(format!("{sig}:panic"), v.detail)),
            Ok(Ok(Status::Secure)) => return Err(Violation::new(sig, format!("{what} is still Secure {late} s after the expiry with the same ValidationContext: the cached node outlives the signature that authenticated it"))),
            Ok(_) => {}
        }
    }
    Ok(skipped)
}

/// Outcome of the real-time scenarios when they already ran in this process
/// (the regression tier replays them): they are not repeated by `extra`.
static REALTIME_DONE: Mutex<Option<Vec<&'static str>>> = Mutex::new(None);

fn realtime_once() -> Result<Vec<&'static str>, Violation> {
    if let Some(s) = REALTIME_DONE.lock().unwrap().clone() {
        return Ok(s);
    }
    let r = realtime_checks()?;
    *REALTIME_DONE.lock().unwrap() = Some(r.clone());
    Ok(r)
}

fn extra(_opts: &RunOpts, agg: &mut Agg) -> Result<(), (Violation, Vec<u8>)> {
    match realtime_once() {
        Ok(skipped) => {
            agg.evaluations += 4 - skipped.len() as u64;
            agg.extra_notes.insert("node_cache_anchor_expiry_check".into(), (if skipped.contains(&"node-cache-anchor") { "skipped (machine too slow)" } else { "held" }).into());
            agg.extra_notes.insert("node_cache_ds_expiry_check".into(), (if skipped.contains(&"node-cache-ds") { "skipped (machine too slow)" } else { "held" }).into());
            let note = |name: &str| if skipped.contains(&name) { "skipped (machine too slow)" } else { "held" };
            agg.extra_notes.insert("sig_cache_expiry_check".into(), note("sig-cache").into());
            agg.extra_notes.insert("node_cache_expiry_check".into(), note("node-cache").into());
            Ok(())
        }
        Err(v) => Err((v, vec![1])),
    }
}

fn replay_extra(_data: &[u8], ctx: &mut Ctx) -> CaseResult {
    ctx.class("sig-cache-expiry");
    ctx.class("node-cache-expiry");
    realtime_once().map(|_| ())
}

fn health(c: &BTreeMap<String, u64>, thorough: bool) -> Result<(), String> {
    // sums over class-name prefixes; thresholds are for the quick tier
    let sum = |prefix: &str| -> u64 { c.iter().filter(|(k, _)| k.starts_with(prefix)).map(|(_, v)| *v).sum() };
    let scale = if thorough { 10 } else { 1 };
    let need: &[(&str, u64)] = &[
        ("query:positive", 500),
        ("query:nodata", 300),
        ("query:nxdomain", 500),
        ("query:wildcard", 100),
        ("query:wildcard-nodata", 50),
        ("query:wildcard-cname", 50),
        ("query:ent-nodata", 50),
        ("query:ds-at-cut", 10),
        ("query:ds-nodata", 30),
        ("query:cname+positive", 30),
        ("query:cname+nxdomain", 30),
        ("query:lie-nodata", 100),
        ("query:lie-nxdomain", 100),
        ("query:lie-wildcard", 50),
        ("query:dname+positive", 200),
        ("query:dname+n", 100),
        ("query:lie-dname-cname-sibling-target", 100),
        ("query:lie-dname-cname-", 300),
        ("query:lie-dname-without-signature", 30),
        ("query:lie-dname-second-forged-cname", 30),
        ("query:lie-nxdomain-wildcard-nsec-replayed-one-label", 100),
        ("query:lie-nxdomain-wildcard-nsec-replayed-two-labels", 30),
        ("query:lie-wildcard-relabelled-star-owner", 100),
        ("query:lie-nxdomain-wildcard-nsec-relabelled-star-owner", 60),
        ("query:lie-nodata-wildcard-nsec-relabelled-star-owner", 15),
        ("star-leading-qname:wildcard", 50),
        ("star-leading-qname:nxdomain", 15),
        ("zone-status:Secure", 3000),
        ("zone-status:Insecure", 500),
        ("zone-status:Indeterminate", 100),
        ("denial:Nsec3OptOut", 300),
        ("denial:Nsec3", 1000),
        ("denial:Nsec", 2000),
        ("keys:ksk+zsk", 500),
        ("anchor:RootDs", 500),
        ("anchor:RootDnskey", 500),
        ("anchor:Tld", 100),
        ("anchor:None", 50),
        ("proof-uses-opt-out", 50),
        ("verdict:Secure", 1000),
        ("verdict:Insecure", 500),
        ("verdict:Bogus", 1000),
        ("verdict:Indeterminate", 100),
        ("no-fault", 1000),
        ("connection:", 500),
        ("warm-context", 300),
        ("fault:answer:drop-sig:Breaking", 30),
        ("fault:answer:corrupt-sig:Breaking", 20),
        ("fault:answer:mut-sig-", 20),
        ("fault:answer:expired:Breaking", 20),
        ("fault:answer:not-yet-valid:Breaking", 20),
        ("fault:answer:wrong-signer-foreign:Breaking", 10),
        ("fault:answer:unknown-key", 20),
        ("fault:answer:corrupt-rdata:Breaking", 20),
        ("fault:answer:add-record:Breaking", 10),
        ("fault:answer:drop-set", 30),
        ("fault:answer:forged-zone-key:Breaking", 20),
        ("fault:answer:strip-dnssec", 10),
        ("fault:answer:hostile-", 50),
        ("fault:answer:hostile-add-nsec3-owner-not-base32hex", 2),
        ("fault:answer:header-count", 10),
        ("fault:answer:truncated", 10),
        ("fault:answer:ttl-zero:Harmless", 50),
        ("fault:answer:owner-case:Harmless", 50),
        ("fault:answer:reorder:Harmless", 50),
        ("fault:answer:compress:Harmless", 50),
        ("fault:answer:extra-valid-sig:Harmless", 10),
        ("fault:lookup:drop-sig:Breaking", 20),
        ("fault:lookup:corrupt-sig:Breaking", 10),
        ("fault:lookup:expired:Breaking", 5),
        ("fault:lookup:corrupt-rdata:Breaking", 5),
        ("fault:lookup:upstream-error:Breaking", 20),
        ("fault:lookup:strip-dnssec", 20),
        ("fault:lookup:dnskey-malformed", 10),
        ("fault:lookup:forged-dnskey-set", 20),
        ("fault:lookup:header-count", 5),
        ("fault:lookup:ttl-zero:Harmless", 20),
        // dimensions added for the round 4/5 seeded changes
        ("knob:max-cname-dname:0-3", 1000),
        ("knob:max-cname-dname:4-100", 500),
        ("knob:max-cname-dname:above-100", 1000),
        ("knob:loop-with-max-cname-dname:above-100:cname", 10),
        ("knob:loop-with-max-cname-dname:above-100:dname", 30),
        ("knob:chain-exactly-max-cname-dname", 30),
        ("knob:chain-longer-than-max-cname-dname", 30),
        ("knob:nsec3-iter:zone-above-limit", 200),
        ("knob:nsec3-iter:zone-above-100-within-limit", 100),
        ("knob:nsec3-iter:zone-within-limit", 500),
        ("knob:caches-of-one-entry", 1000),
        ("fault:lookup:ds-without-matching-key-same-tag-first", 300),
        ("fault:lookup:ds-without-matching-key-other-tag-first", 300),
        ("fault:lookup:ds-without-matching-key-", 1500),
        ("fault:answer:hdr-flags", 3000),
        ("fault:lookup:dnskey-tag-collision-same-alg-zsk-first", 300),
        ("fault:lookup:dnskey-tag-collision-same-alg-ksk-first", 300),
        ("fault:lookup:dnskey-tag-collision-same-alg", 1500),
        ("fault:lookup:dnskey-tag-collision-other-alg", 200),
        ("connection:upstream-sets-ad:cd=true:upstream-cd=true", 10),
        ("connection:upstream-sets-ad:cd=false", 100),
    ];
    for (k, n) in need {
        let have = sum(k);
        if have < n * scale {
            return Err(format!("class {k}* starved ({have} < {})", n * scale));
        }
    }
    Ok(())
}

pub fn prop() -> Option<Prop> {
    Some(Prop {
        id: "C14",
        rule: "case = (world shape, query, 0-2 fault scripts on the final answer and on DS/DNSKEY lookups, validator configuration, upstream header flags, DNSKEY key-tag collision); non-trivial iff the queried zone has >= 2 secure signed levels above or at it and the case has a fault that touches a signed object or a negative/wildcard answer; distinct by decoded case",
        assumptions: &[
            "signatures are valid from now-1d to now+1d; 'expired' ended a day ago, 'not yet valid' starts in a day, so the verdict does not depend on when the check runs",
            "ring's hash and signature primitives are trusted; fixture keys only (ECDSA P-256, RSA/SHA-256, RSA/SHA-512, Ed25519 as 'unsupported by the validator')",
            "a signer at or above the owner name (ancestor zone) is not counted as a wrong signer: such a signature still chains to the anchor",
        ],
        subchecks: vec![SubCheck::new("world", run_main, 40_000, 500_000, 240), SubCheck::new("secure", run_secure, 40_000, 500_000, 200), SubCheck::new("extra", replay_extra, 0, 0, 8)],
        health: Some(health),
        extra: Some(extra),
    })
}
