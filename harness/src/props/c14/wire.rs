//! C14: wire-level records, names and a hand-rolled message writer (so that
//! faults can touch every octet, including the header counts).
use std::cmp::Ordering;

/// A domain name in uncompressed wire format (always ends in the root label).
pub type Nm = Vec<u8>;

pub const T_A: u16 = 1;
pub const T_NS: u16 = 2;
pub const T_CNAME: u16 = 5;
pub const T_SOA: u16 = 6;
pub const T_MX: u16 = 15;
pub const T_TXT: u16 = 16;
pub const T_AAAA: u16 = 28;
pub const T_DNAME: u16 = 39;
pub const T_OPT: u16 = 41;
pub const T_DS: u16 = 43;
pub const T_RRSIG: u16 = 46;
pub const T_NSEC: u16 = 47;
pub const T_DNSKEY: u16 = 48;
pub const T_NSEC3: u16 = 50;
pub const T_NSEC3PARAM: u16 = 51;

pub fn nm(s: &str) -> Nm {
    let mut out = vec![];
    if s != "." {
        for l in s.trim_end_matches('.').split('.') {
            assert!(!l.is_empty() && l.len() < 64);
            out.push(l.len() as u8);
            out.extend_from_slice(l.as_bytes());
        }
    }
    out.push(0);
    out
}

pub fn labels(n: &[u8]) -> Vec<&[u8]> {
    let mut v = vec![];
    let mut p = 0;
    while p < n.len() && n[p] != 0 {
        let l = n[p] as usize;
        v.push(&n[p + 1..p + 1 + l]);
        p += 1 + l;
    }
    v
}

/// Number of labels not counting the root.
pub fn label_count(n: &[u8]) -> usize {
    labels(n).len()
}

pub fn lower(n: &[u8]) -> Nm {
    // label length octets are < 64 and therefore unaffected
    n.to_ascii_lowercase()
}

pub fn show(n: &[u8]) -> String {
    let ls = labels(n);
    if ls.is_empty() {
        return ".".into();
    }
    let mut s = String::new();
    for l in ls {
        for &b in l {
            if b.is_ascii_graphic() && b != b'.' && b != b'\\' {
                s.push(b as char);
            } else {
                s.push_str(&format!("\\{b:03}"));
            }
        }
        s.push('.');
    }
    s
}

pub fn parent(n: &[u8]) -> Option<Nm> {
    if n.len() <= 1 {
        None
    } else {
        Some(n[1 + n[0] as usize..].to_vec())
    }
}

pub fn prepend(label: &[u8], n: &[u8]) -> Nm {
    let mut v = vec![label.len() as u8];
    v.extend_from_slice(label);
    v.extend_from_slice(n);
    v
}

/// `n` is at or below `suffix` (case-insensitive, label-aligned).
pub fn ends_with(n: &[u8], suffix: &[u8]) -> bool {
    let a = labels(n);
    let b = labels(suffix);
    if b.len() > a.len() {
        return false;
    }
    a[a.len() - b.len()..].iter().zip(b.iter()).all(|(x, y)| x.eq_ignore_ascii_case(y))
}

pub fn name_eq(a: &[u8], b: &[u8]) -> bool {
    a.eq_ignore_ascii_case(b)
}

/// The ancestor of `n` that has `count` labels.
pub fn suffix_with_labels(n: &[u8], count: usize) -> Nm {
    let mut cur = n.to_vec();
    while label_count(&cur) > count {
        cur = parent(&cur).unwrap();
    }
    cur
}

/// RFC 4034 §6.1 canonical name order.
pub fn canon_cmp(a: &[u8], b: &[u8]) -> Ordering {
    let la = labels(a);
    let lb = labels(b);
    let mut ia = la.iter().rev();
    let mut ib = lb.iter().rev();
    loop {
        match (ia.next(), ib.next()) {
            (None, None) => return Ordering::Equal,
            (None, Some(_)) => return Ordering::Less,
            (Some(_), None) => return Ordering::Greater,
            (Some(x), Some(y)) => {
                let c = x.to_ascii_lowercase().cmp(&y.to_ascii_lowercase());
                if c != Ordering::Equal {
                    return c;
                }
            }
        }
    }
}

/// Sort key realising the canonical order: labels reversed, lower-cased.
pub fn canon_key(n: &[u8]) -> Vec<Vec<u8>> {
    labels(n).iter().rev().map(|l| l.to_ascii_lowercase()).collect()
}

#[derive(Clone, Debug, PartialEq, Eq, Hash)]
pub struct Rec {
    pub owner: Nm,
    pub rtype: u16,
    pub class: u16,
    pub ttl: u32,
    pub rdata: Vec<u8>,
}

impl Rec {
    pub fn new(owner: &[u8], rtype: u16, ttl: u32, rdata: Vec<u8>) -> Rec {
        Rec { owner: owner.to_vec(), rtype, class: 1, ttl, rdata }
    }
    /// For an RRSIG record: the type covered.
    pub fn covered(&self) -> u16 {
        if self.rtype == T_RRSIG && self.rdata.len() >= 2 {
            u16::from_be_bytes([self.rdata[0], self.rdata[1]])
        } else {
            0
        }
    }
}

pub fn tname(t: u16) -> String {
    crate::refimpl::rdata::mnemonic(t)
}

pub fn show_rec(r: &Rec) -> String {
    if r.rtype == T_RRSIG {
        format!("{} RRSIG({})", show(&r.owner), tname(r.covered()))
    } else {
        format!("{} {}", show(&r.owner), tname(r.rtype))
    }
}

//------------ RRSIG field access -------------------------------------------

#[derive(Clone, Debug)]
pub struct SigFields {
    pub covered: u16,
    pub alg: u8,
    pub labels: u8,
    pub orig_ttl: u32,
    pub expiration: u32,
    pub inception: u32,
    pub key_tag: u16,
    pub signer: Nm,
    pub signature: Vec<u8>,
}

pub fn parse_rrsig(rdata: &[u8]) -> Option<SigFields> {
    if rdata.len() < 19 {
        return None;
    }
    let mut p = 18;
    // uncompressed signer name
    loop {
        let l = *rdata.get(p)? as usize;
        if l == 0 {
            p += 1;
            break;
        }
        if l > 63 {
            return None;
        }
        p += 1 + l;
    }
    if p > rdata.len() {
        return None;
    }
    Some(SigFields {
        covered: u16::from_be_bytes([rdata[0], rdata[1]]),
        alg: rdata[2],
        labels: rdata[3],
        orig_ttl: u32::from_be_bytes(rdata[4..8].try_into().unwrap()),
        expiration: u32::from_be_bytes(rdata[8..12].try_into().unwrap()),
        inception: u32::from_be_bytes(rdata[12..16].try_into().unwrap()),
        key_tag: u16::from_be_bytes([rdata[16], rdata[17]]),
        signer: rdata[18..p].to_vec(),
        signature: rdata[p..].to_vec(),
    })
}

impl SigFields {
    /// RDATA without the signature field.
    pub fn head(&self, canonical: bool) -> Vec<u8> {
        let mut v = vec![];
        v.extend_from_slice(&self.covered.to_be_bytes());
        v.push(self.alg);
        v.push(self.labels);
        v.extend_from_slice(&self.orig_ttl.to_be_bytes());
        v.extend_from_slice(&self.expiration.to_be_bytes());
        v.extend_from_slice(&self.inception.to_be_bytes());
        v.extend_from_slice(&self.key_tag.to_be_bytes());
        if canonical {
            v.extend_from_slice(&lower(&self.signer));
        } else {
            v.extend_from_slice(&self.signer);
        }
        v
    }
    pub fn rdata(&self) -> Vec<u8> {
        let mut v = self.head(false);
        v.extend_from_slice(&self.signature);
        v
    }
}

//------------ Message writer -------------------------------------------------

#[derive(Clone, Debug, Default)]
pub struct Msg {
    pub id: u16,
    pub flags: u16,
    pub qname: Nm,
    pub qtype: u16,
    pub answer: Vec<Rec>,
    pub authority: Vec<Rec>,
    pub additional: Vec<Rec>,
}

pub struct WriteOpts {
    /// compress owner names against earlier owner names / the question
    pub compress: bool,
    /// override header counts (qd, an, ns, ar)
    pub counts: Option<[u16; 4]>,
}

impl Default for WriteOpts {
    fn default() -> Self {
        WriteOpts { compress: false, counts: None }
    }
}

fn write_name(out: &mut Vec<u8>, n: &[u8], table: &mut Vec<(Nm, usize)>, compress: bool) {
    if !compress {
        out.extend_from_slice(n);
        return;
    }
    // find the longest suffix already written (exact octets, so that case
    // is preserved)
    let mut cur = n.to_vec();
    let mut head: Vec<(usize, Nm)> = vec![];
    loop {
        if cur.len() <= 1 {
            break;
        }
        if let Some((_, pos)) = table.iter().find(|(t, _)| *t == cur) {
            let pos = *pos;
            for (at, suffix) in head {
                if at < 0x3FFF {
                    table.push((suffix, at));
                }
            }
            out.extend_from_slice(&(0xC000u16 | pos as u16).to_be_bytes());
            return;
        }
        let l = cur[0] as usize;
        head.push((out.len(), cur.clone()));
        out.extend_from_slice(&cur[..1 + l]);
        cur = cur[1 + l..].to_vec();
    }
    for (at, suffix) in head {
        if at < 0x3FFF {
            table.push((suffix, at));
        }
    }
    out.push(0);
}

pub fn write_msg(m: &Msg, o: &WriteOpts) -> Vec<u8> {
    let mut out = vec![];
    out.extend_from_slice(&m.id.to_be_bytes());
    out.extend_from_slice(&m.flags.to_be_bytes());
    let c = o.counts.unwrap_or([1, m.answer.len() as u16, m.authority.len() as u16, m.additional.len() as u16]);
    for x in c {
        out.extend_from_slice(&x.to_be_bytes());
    }
    let mut table: Vec<(Nm, usize)> = vec![];
    write_name(&mut out, &m.qname, &mut table, o.compress);
    out.extend_from_slice(&m.qtype.to_be_bytes());
    out.extend_from_slice(&1u16.to_be_bytes());
    for r in m.answer.iter().chain(m.authority.iter()).chain(m.additional.iter()) {
        write_name(&mut out, &r.owner, &mut table, o.compress);
        out.extend_from_slice(&r.rtype.to_be_bytes());
        out.extend_from_slice(&r.class.to_be_bytes());
        out.extend_from_slice(&r.ttl.to_be_bytes());
        out.extend_from_slice(&(r.rdata.len() as u16).to_be_bytes());
        out.extend_from_slice(&r.rdata);
    }
    out
}

//------------ Base32hex (RFC 4648 §7, unpadded, lower case) ------------------

pub fn b32hex(data: &[u8]) -> Vec<u8> {
    const AL: &[u8; 32] = b"0123456789abcdefghijklmnopqrstuv";
    let mut out = vec![];
    let mut acc: u32 = 0;
    let mut bits = 0;
    for &b in data {
        acc = (acc << 8) | b as u32;
        bits += 8;
        while bits >= 5 {
            out.push(AL[((acc >> (bits - 5)) & 31) as usize]);
            bits -= 5;
        }
    }
    if bits > 0 {
        out.push(AL[((acc << (5 - bits)) & 31) as usize]);
    }
    out
}

pub fn b32hex_decode(s: &[u8]) -> Option<Vec<u8>> {
    let mut out = vec![];
    let mut acc: u32 = 0;
    let mut bits = 0;
    for &c in s {
        let v = match c {
            b'0'..=b'9' => c - b'0',
            b'a'..=b'v' => c - b'a' + 10,
            b'A'..=b'V' => c - b'A' + 10,
            _ => return None,
        };
        acc = (acc << 5) | v as u32;
        bits += 5;
        if bits >= 8 {
            out.push(((acc >> (bits - 8)) & 0xff) as u8);
            bits -= 8;
        }
    }
    Some(out)
}
