//! C14: small independent DNSSEC reference (RFC 4034 / 5155) used to
//! cross-check the library signer's output and to craft the RRSIGs of the
//! fault scripts. Only the hash / signature primitives of `ring` and the
//! private-key operation (`SignRaw::sign_raw`) are shared with the library.
use super::wire::*;
use crate::refimpl::rdata::canonical_rdata;
use domain::crypto::sign::{KeyPair, SecretKeyBytes, SignRaw};
use domain::rdata::Dnskey;

/// RFC 4034 Appendix B.
pub fn key_tag(dnskey_rdata: &[u8]) -> u16 {
    let mut ac: u32 = 0;
    for (i, &b) in dnskey_rdata.iter().enumerate() {
        ac += if i & 1 == 1 { b as u32 } else { (b as u32) << 8 };
    }
    ac += (ac >> 16) & 0xFFFF;
    (ac & 0xFFFF) as u16
}

/// RFC 4034 §5.1.4 with SHA-256 (digest type 2) or SHA-1 (type 1).
pub fn ds_digest(owner: &[u8], dnskey_rdata: &[u8], digest_type: u8) -> Vec<u8> {
    let mut buf = lower(owner);
    buf.extend_from_slice(dnskey_rdata);
    let alg = match digest_type {
        1 => &ring::digest::SHA1_FOR_LEGACY_USE_ONLY,
        4 => &ring::digest::SHA384,
        _ => &ring::digest::SHA256,
    };
    ring::digest::digest(alg, &buf).as_ref().to_vec()
}

pub fn ds_rdata(owner: &[u8], dnskey_rdata: &[u8], digest_type: u8) -> Vec<u8> {
    let mut v = vec![];
    v.extend_from_slice(&key_tag(dnskey_rdata).to_be_bytes());
    v.push(dnskey_rdata[3]);
    v.push(digest_type);
    v.extend_from_slice(&ds_digest(owner, dnskey_rdata, digest_type));
    v
}

/// RFC 5155 §5.
pub fn nsec3_hash(name: &[u8], salt: &[u8], iterations: u16) -> Vec<u8> {
    let mut buf = lower(name);
    buf.extend_from_slice(salt);
    let mut h = ring::digest::digest(&ring::digest::SHA1_FOR_LEGACY_USE_ONLY, &buf).as_ref().to_vec();
    for _ in 0..iterations {
        let mut b = h.clone();
        b.extend_from_slice(salt);
        h = ring::digest::digest(&ring::digest::SHA1_FOR_LEGACY_USE_ONLY, &b).as_ref().to_vec();
    }
    h
}

/// RFC 4034 §3.1.8.1: the octets a signature is computed over. `rrset` holds
/// the records as they appear in a response (owner possibly expanded from a
/// wildcard); `sig` gives the RRSIG fields.
pub fn signed_data(sig: &SigFields, rrset: &[Rec]) -> Vec<u8> {
    let mut out = sig.head(true);
    let mut rrs: Vec<Vec<u8>> = vec![];
    for r in rrset {
        let mut owner = lower(&r.owner);
        let lc = label_count(&owner);
        if (sig.labels as usize) < lc {
            let sfx = suffix_with_labels(&owner, sig.labels as usize);
            owner = prepend(b"*", &sfx);
        }
        let rd = canonical_rdata(r.rtype, &r.rdata).unwrap_or_else(|_| r.rdata.clone());
        let mut v = owner;
        v.extend_from_slice(&r.rtype.to_be_bytes());
        v.extend_from_slice(&r.class.to_be_bytes());
        v.extend_from_slice(&sig.orig_ttl.to_be_bytes());
        v.extend_from_slice(&(rd.len() as u16).to_be_bytes());
        v.extend_from_slice(&rd);
        rrs.push(v);
    }
    // canonical RR order: by RDATA octets; the prefix (name type class ttl)
    // is identical, the length field orders a prefix before its extension
    // consistently only if compared on RDATA: sort on RDATA explicitly.
    let plen = |v: &Vec<u8>| -> usize {
        let mut p = 0;
        while v[p] != 0 {
            p += 1 + v[p] as usize;
        }
        p + 1 + 10
    };
    rrs.sort_by(|a, b| a[plen(a)..].cmp(&b[plen(b)..]));
    rrs.dedup();
    for r in rrs {
        out.extend_from_slice(&r);
    }
    out
}

/// Verify through `ring::signature` directly from the DNSKEY RDATA.
pub fn verify(dnskey_rdata: &[u8], data: &[u8], signature: &[u8]) -> bool {
    if dnskey_rdata.len() < 5 {
        return false;
    }
    let alg = dnskey_rdata[3];
    let pk = &dnskey_rdata[4..];
    match alg {
        13 => {
            let mut full = vec![4u8];
            full.extend_from_slice(pk);
            ring::signature::UnparsedPublicKey::new(&ring::signature::ECDSA_P256_SHA256_FIXED, &full).verify(data, signature).is_ok()
        }
        14 => {
            let mut full = vec![4u8];
            full.extend_from_slice(pk);
            ring::signature::UnparsedPublicKey::new(&ring::signature::ECDSA_P384_SHA384_FIXED, &full).verify(data, signature).is_ok()
        }
        15 => ring::signature::UnparsedPublicKey::new(&ring::signature::ED25519, pk).verify(data, signature).is_ok(),
        8 | 10 => {
            // RFC 3110 exponent length prefix
            let (elen, off) = if pk.first() == Some(&0) && pk.len() >= 3 {
                (u16::from_be_bytes([pk[1], pk[2]]) as usize, 3)
            } else if let Some(&l) = pk.first() {
                (l as usize, 1)
            } else {
                return false;
            };
            if pk.len() < off + elen {
                return false;
            }
            let e = &pk[off..off + elen];
            let n = &pk[off + elen..];
            let params = if alg == 8 {
                &ring::signature::RSA_PKCS1_1024_8192_SHA256_FOR_LEGACY_USE_ONLY
            } else {
                &ring::signature::RSA_PKCS1_1024_8192_SHA512_FOR_LEGACY_USE_ONLY
            };
            ring::signature::RsaPublicKeyComponents { n, e }.verify(params, data, signature).is_ok()
        }
        _ => false,
    }
}

//------------ Keys -----------------------------------------------------------

pub struct Key {
    pub label: &'static str,
    pub alg: u8,
    pub pair: KeyPair,
    /// public key field of the DNSKEY RDATA
    pub public: Vec<u8>,
}

impl Key {
    pub fn dnskey_rdata(&self, flags: u16) -> Vec<u8> {
        let mut v = vec![];
        v.extend_from_slice(&flags.to_be_bytes());
        v.push(3);
        v.push(self.alg);
        v.extend_from_slice(&self.public);
        v
    }
    pub fn sign(&self, data: &[u8]) -> Vec<u8> {
        self.pair.sign_raw(data).expect("sign_raw").as_ref().to_vec()
    }
}

macro_rules! keyfile {
    ($n:literal) => {
        (
            $n,
            include_str!(concat!("../../../../fixtures/c14-keys/", $n, ".key")),
            include_str!(concat!("../../../../fixtures/c14-keys/", $n, ".private")),
        )
    };
}

const KEYFILES: &[(&str, &str, &str)] = &[
    keyfile!("Kgen00.+013"),
    keyfile!("Kgen01.+013"),
    keyfile!("Kgen02.+013"),
    keyfile!("Kgen03.+013"),
    keyfile!("Kgen04.+013"),
    keyfile!("Kgen05.+013"),
    keyfile!("Kgen06.+013"),
    keyfile!("Kgen07.+013"),
    keyfile!("Kgen08.+013"),
    keyfile!("Kgen09.+013"),
    keyfile!("Ktest.+013+42253"),
    keyfile!("Ktest.+008+60616"),
    keyfile!("Ktest.+010+46731"),
    keyfile!("Ktest.+015+56037"),
    keyfile!("Ktest.+014+33566"),
];

pub const K_P256_COUNT: usize = 11;
pub const K_RSA256: usize = 11;
pub const K_RSA512: usize = 12;
pub const K_ED25519: usize = 13;
pub const K_P384: usize = 14;

fn load(label: &'static str, keytext: &str, private: &str) -> Key {
    let rec = domain::dnssec::common::parse_from_bind::<Vec<u8>>(keytext).unwrap_or_else(|_| panic!("fixture key {label} unreadable"));
    let dk: &Dnskey<Vec<u8>> = rec.data();
    let secret = SecretKeyBytes::parse_from_bind(private).unwrap_or_else(|_| panic!("fixture private key {label} unreadable"));
    let pair = KeyPair::from_bytes(&secret, dk).unwrap_or_else(|e| panic!("fixture key {label} not importable: {e}"));
    Key { label, alg: dk.algorithm().to_int(), pair, public: dk.public_key().clone() }
}

pub fn keys() -> &'static Vec<Key> {
    static KEYS: std::sync::OnceLock<Vec<Key>> = std::sync::OnceLock::new();
    KEYS.get_or_init(|| KEYFILES.iter().map(|(l, k, p)| load(l, k, p)).collect())
}
