//! Independent RFC 4648 reference codec (Base16, Base32, Base32hex, Base64,
//! Base64url), written from the RFC text as one generic bit-stream
//! transcoder. It never calls into `domain`.
//!
//! Two things are parameterised because RFC 4648 leaves them to the
//! referring specification, and the check configures them per library module
//! from that module's documentation (not from a general expectation):
//!
//! * padding (§3.2): `Required` (text length is a multiple of the block and
//!   the final block carries exactly the number of `=` the RFC prescribes),
//!   `Forbidden` (no `=` at all; a partial final group stands on its own) or
//!   `Optional` (either of the two);
//! * case (§3.3/§6/§7/§8): Base16/Base32 alphabets are upper case in the
//!   RFC; a decoder may be documented as case-insensitive.
//!
//! `classify` sorts every character string into exactly one of
//! `Canonical(octets)`, `TrailingBits(octets)` (well-formed except that the
//! unused low bits of the last symbol are not zero — RFC 4648 §3.5 lets a
//! decoder accept or reject those) and `Invalid(reason)`.

#[derive(Clone, Copy, Debug, PartialEq, Eq, Hash)]
pub enum Pad {
    Required,
    Forbidden,
    Optional,
}

#[derive(Clone, Copy, Debug, PartialEq, Eq, Hash)]
pub struct Spec {
    pub name: &'static str,
    /// The alphabet in value order (RFC 4648 tables 1, 3, 4, 2 and §8).
    pub alphabet: &'static [u8],
    /// Bits per symbol: 4, 5 or 6.
    pub bits: u32,
    pub pad: Pad,
    /// Decoder maps lower-case letters to their upper-case value (only
    /// meaningful for the single-case alphabets).
    pub case_insensitive: bool,
}

pub const B16_ALPHABET: &[u8] = b"0123456789ABCDEF";
pub const B32_ALPHABET: &[u8] = b"ABCDEFGHIJKLMNOPQRSTUVWXYZ234567";
pub const B32HEX_ALPHABET: &[u8] = b"0123456789ABCDEFGHIJKLMNOPQRSTUV";
pub const B64_ALPHABET: &[u8] = b"ABCDEFGHIJKLMNOPQRSTUVWXYZabcdefghijklmnopqrstuvwxyz0123456789+/";
pub const B64URL_ALPHABET: &[u8] = b"ABCDEFGHIJKLMNOPQRSTUVWXYZabcdefghijklmnopqrstuvwxyz0123456789-_";

/// The codecs exactly as RFC 4648 defines them (padding mandatory, upper
/// case only).
pub const RFC_B16: Spec = Spec { name: "base16", alphabet: B16_ALPHABET, bits: 4, pad: Pad::Required, case_insensitive: false };
pub const RFC_B32: Spec = Spec { name: "base32", alphabet: B32_ALPHABET, bits: 5, pad: Pad::Required, case_insensitive: false };
pub const RFC_B32HEX: Spec = Spec { name: "base32hex", alphabet: B32HEX_ALPHABET, bits: 5, pad: Pad::Required, case_insensitive: false };
pub const RFC_B64: Spec = Spec { name: "base64", alphabet: B64_ALPHABET, bits: 6, pad: Pad::Required, case_insensitive: false };
pub const RFC_B64URL: Spec = Spec { name: "base64url", alphabet: B64URL_ALPHABET, bits: 6, pad: Pad::Required, case_insensitive: false };

impl Spec {
    pub const fn with(self, pad: Pad, case_insensitive: bool) -> Spec {
        Spec { name: self.name, alphabet: self.alphabet, bits: self.bits, pad, case_insensitive }
    }

    /// Symbols per full block: the smallest number of symbols that carries a
    /// whole number of octets (2, 8, 4).
    pub fn block(&self) -> usize {
        match self.bits {
            4 => 2,
            5 => 8,
            6 => 4,
            _ => unreachable!(),
        }
    }

    /// Value of a character, None if it is not in the alphabet.
    pub fn value(&self, ch: char) -> Option<u8> {
        if !ch.is_ascii() {
            return None;
        }
        let b = ch as u8;
        if let Some(i) = self.alphabet.iter().position(|&a| a == b) {
            return Some(i as u8);
        }
        if self.case_insensitive && b.is_ascii_lowercase() {
            let up = b.to_ascii_uppercase();
            // only legitimate when the alphabet has no lower-case letters
            if !self.alphabet.iter().any(|a| a.is_ascii_lowercase()) {
                return self.alphabet.iter().position(|&a| a == up).map(|i| i as u8);
            }
        }
        None
    }

    /// Number of unused low bits in the last symbol of a final group of `n`
    /// symbols (0 < n < block), or None if no octet string encodes to a final
    /// group of that length.
    pub fn residue_trailing_bits(&self, n: usize) -> Option<u32> {
        let total = n as u32 * self.bits;
        let trailing = total % 8;
        // the last symbol must contribute at least one bit to an octet
        if total / 8 == 0 || trailing >= self.bits {
            None
        } else {
            Some(trailing)
        }
    }
}

/// RFC 4648 encoding of `data` (with padding iff `spec.pad == Required`).
pub fn encode(spec: &Spec, data: &[u8]) -> String {
    let mut out = String::new();
    let mut acc: u32 = 0; // bit accumulator
    let mut nbits: u32 = 0;
    let mask = (1u32 << spec.bits) - 1;
    for &b in data {
        acc = (acc << 8) | b as u32;
        nbits += 8;
        while nbits >= spec.bits {
            nbits -= spec.bits;
            out.push(spec.alphabet[((acc >> nbits) & mask) as usize] as char);
        }
        acc &= (1 << nbits) - 1;
    }
    if nbits > 0 {
        // "when fewer than N bits are available, bits with value zero are
        // added on the right"
        out.push(spec.alphabet[((acc << (spec.bits - nbits)) & mask) as usize] as char);
    }
    if spec.pad == Pad::Required {
        while out.len() % spec.block() != 0 {
            out.push('=');
        }
    }
    out
}

#[derive(Clone, Debug, PartialEq, Eq)]
pub enum Class {
    /// Well-formed; every conforming decoder must accept and return this.
    Canonical(Vec<u8>),
    /// Well-formed except for non-zero pad bits in the last symbol; the
    /// octets are what a lenient decoder (ignoring those bits) returns.
    TrailingBits(Vec<u8>),
    /// Not an encoding of anything under the spec.
    Invalid(&'static str),
}

impl Class {
    pub fn label(&self) -> &'static str {
        match self {
            Class::Canonical(_) => "canonical",
            Class::TrailingBits(_) => "noncanonical-trailing-bits",
            Class::Invalid(_) => "invalid",
        }
    }
}

pub fn classify(spec: &Spec, text: &str) -> Class {
    let chars: Vec<char> = text.chars().collect();
    // split into data symbols and the pad tail
    let first_pad = chars.iter().position(|&c| c == '=').unwrap_or(chars.len());
    let (data, tail) = chars.split_at(first_pad);
    if tail.iter().any(|&c| c != '=') {
        // something after the first '=' that is not '=': either data after
        // padding or a non-alphabet character
        return Class::Invalid("data-after-padding");
    }
    let npad = tail.len();
    let mut vals = Vec::with_capacity(data.len());
    for &c in data {
        match spec.value(c) {
            Some(v) => vals.push(v),
            None => return Class::Invalid("non-alphabet-character"),
        }
    }
    let block = spec.block();
    let rem = vals.len() % block;
    let trailing = if rem == 0 {
        0
    } else {
        match spec.residue_trailing_bits(rem) {
            Some(t) => t,
            None => return Class::Invalid("impossible-final-group-length"),
        }
    };
    let want_pad = if rem == 0 { 0 } else { block - rem };
    match spec.pad {
        Pad::Required => {
            if npad != want_pad {
                return Class::Invalid("wrong-padding-count");
            }
        }
        Pad::Forbidden => {
            if npad != 0 {
                return Class::Invalid("padding-not-allowed");
            }
        }
        Pad::Optional => {
            if npad != 0 && npad != want_pad {
                return Class::Invalid("wrong-padding-count");
            }
        }
    }
    // decode the bit stream
    let mut out = Vec::with_capacity(vals.len() * spec.bits as usize / 8);
    let mut acc: u32 = 0;
    let mut nbits: u32 = 0;
    for &v in &vals {
        acc = (acc << spec.bits) | v as u32;
        nbits += spec.bits;
        if nbits >= 8 {
            nbits -= 8;
            out.push((acc >> nbits) as u8);
            acc &= (1 << nbits) - 1;
        }
    }
    debug_assert_eq!(nbits, trailing);
    if acc != 0 {
        Class::TrailingBits(out)
    } else {
        Class::Canonical(out)
    }
}

/// Strict decode: only canonical text.
pub fn decode_strict(spec: &Spec, text: &str) -> Option<Vec<u8>> {
    match classify(spec, text) {
        Class::Canonical(v) => Some(v),
        _ => None,
    }
}

/// Lenient decode: also text with non-zero trailing bits.
pub fn decode_lenient(spec: &Spec, text: &str) -> Option<Vec<u8>> {
    match classify(spec, text) {
        Class::Canonical(v) | Class::TrailingBits(v) => Some(v),
        Class::Invalid(_) => None,
    }
}

#[cfg(test)]
mod test {
    use super::*;

    // RFC 4648 section 10
    const INPUTS: [&str; 7] = ["", "f", "fo", "foo", "foob", "fooba", "foobar"];
    const B64: [&str; 7] = ["", "Zg==", "Zm8=", "Zm9v", "Zm9vYg==", "Zm9vYmE=", "Zm9vYmFy"];
    const B32: [&str; 7] = ["", "MY======", "MZXQ====", "MZXW6===", "MZXW6YQ=", "MZXW6YTB", "MZXW6YTBOI======"];
    const B32HEX: [&str; 7] = ["", "CO======", "CPNG====", "CPNMU===", "CPNMUOG=", "CPNMUOJ1", "CPNMUOJ1E8======"];
    const B16: [&str; 7] = ["", "66", "666F", "666F6F", "666F6F62", "666F6F6261", "666F6F626172"];

    fn vectors(spec: &Spec, texts: &[&str; 7]) {
        for (i, t) in texts.iter().enumerate() {
            assert_eq!(&encode(spec, INPUTS[i].as_bytes()), t, "{} encode {:?}", spec.name, INPUTS[i]);
            assert_eq!(classify(spec, t), Class::Canonical(INPUTS[i].as_bytes().to_vec()), "{} decode {t}", spec.name);
            // unpadded variant
            let un = spec.with(Pad::Forbidden, false);
            let stripped = t.trim_end_matches('=');
            assert_eq!(encode(&un, INPUTS[i].as_bytes()), stripped);
            assert_eq!(classify(&un, stripped), Class::Canonical(INPUTS[i].as_bytes().to_vec()));
            if stripped.len() != t.len() {
                assert!(matches!(classify(&un, t), Class::Invalid(_)));
                assert!(matches!(classify(spec, stripped), Class::Invalid(_)));
            }
            let opt = spec.with(Pad::Optional, false);
            assert_eq!(decode_strict(&opt, t).as_deref(), Some(INPUTS[i].as_bytes()));
            assert_eq!(decode_strict(&opt, stripped).as_deref(), Some(INPUTS[i].as_bytes()));
        }
    }

    #[test]
    fn rfc4648_section_10_vectors() {
        vectors(&RFC_B64, &B64);
        vectors(&RFC_B64URL, &B64);
        vectors(&RFC_B32, &B32);
        vectors(&RFC_B32HEX, &B32HEX);
        vectors(&RFC_B16, &B16);
    }

    #[test]
    fn rfc4648_section_9_examples() {
        // "Input data: 0x14fb9c03d97e" etc.
        assert_eq!(encode(&RFC_B64, &[0x14, 0xfb, 0x9c, 0x03, 0xd9, 0x7e]), "FPucA9l+");
        assert_eq!(encode(&RFC_B64, &[0x14, 0xfb, 0x9c, 0x03, 0xd9]), "FPucA9k=");
        assert_eq!(encode(&RFC_B64, &[0x14, 0xfb, 0x9c, 0x03]), "FPucAw==");
        assert_eq!(encode(&RFC_B64URL, &[0xfb, 0xff]), "-_8=");
        assert_eq!(encode(&RFC_B64, &[0xfb, 0xff]), "+/8=");
    }

    #[test]
    fn alphabets_have_the_right_shape() {
        for s in [RFC_B16, RFC_B32, RFC_B32HEX, RFC_B64, RFC_B64URL] {
            assert_eq!(s.alphabet.len(), 1 << s.bits);
            let mut seen = std::collections::HashSet::new();
            for &a in s.alphabet {
                assert!(seen.insert(a));
                assert_ne!(a, b'=');
            }
            for (i, &a) in s.alphabet.iter().enumerate() {
                assert_eq!(s.value(a as char), Some(i as u8));
            }
        }
        // RFC 4648 table 3: 26 = '2', 31 = '7'; table 4: 10 = 'A', 31 = 'V'
        assert_eq!(RFC_B32.value('2'), Some(26));
        assert_eq!(RFC_B32.value('7'), Some(31));
        assert_eq!(RFC_B32.value('0'), None);
        assert_eq!(RFC_B32.value('1'), None);
        assert_eq!(RFC_B32.value('8'), None);
        assert_eq!(RFC_B32HEX.value('V'), Some(31));
        assert_eq!(RFC_B32HEX.value('W'), None);
        assert_eq!(RFC_B64.value('+'), Some(62));
        assert_eq!(RFC_B64.value('/'), Some(63));
        assert_eq!(RFC_B64.value('-'), None);
        assert_eq!(RFC_B64.value('_'), None);
        assert_eq!(RFC_B64URL.value('-'), Some(62));
        assert_eq!(RFC_B64URL.value('_'), Some(63));
    }

    #[test]
    fn case_rules() {
        assert!(matches!(classify(&RFC_B16, "666f"), Class::Invalid(_)));
        let ci = RFC_B16.with(Pad::Required, true);
        assert_eq!(classify(&ci, "666f"), Class::Canonical(b"fo".to_vec()));
        let ci = RFC_B32HEX.with(Pad::Forbidden, true);
        assert_eq!(classify(&ci, "cpnMUoj1e8"), Class::Canonical(b"foobar".to_vec()));
        // base64 is case sensitive whatever the flag says
        let odd = RFC_B64.with(Pad::Required, true);
        assert_eq!(classify(&odd, "Zm9v"), Class::Canonical(b"foo".to_vec()));
        assert_eq!(classify(&odd, "ZM9V"), Class::Canonical(vec![0x64, 0xcf, 0x55]));
    }

    #[test]
    fn trailing_bits_and_malformed() {
        // 'g' = 32 = 100000b -> low 4 bits zero; 'h' = 33 -> non-zero
        assert_eq!(classify(&RFC_B64, "Zh=="), Class::TrailingBits(b"f".to_vec()));
        assert_eq!(classify(&RFC_B64, "Zm9="), Class::TrailingBits(b"fo".to_vec()));
        assert_eq!(classify(&RFC_B32HEX, "CP======"), Class::TrailingBits(b"f".to_vec()));
        for bad in ["Z", "Zg", "Zg=", "Zg===", "Z===", "====", "=", "Zg==Zg==", "Zm=8", "Zm8=Zm8=", "Zm9v=", "Zm9v====", " Zm9v", "Zm9v ", "Zm\n9v", "Zm9\u{0}", "Zm9é", "Zm-_"] {
            assert!(matches!(classify(&RFC_B64, bad), Class::Invalid(_)), "{bad:?}");
        }
        let hex = RFC_B32HEX.with(Pad::Forbidden, true);
        for bad in ["C", "CPN", "CPNMUO", "CO======", "CO=", "CW", "C O", "CPNMUOJ1E"] {
            assert!(matches!(classify(&hex, bad), Class::Invalid(_)), "{bad:?}");
        }
        for bad in ["6", "666", "6G", "6 6", "66=", "0x66"] {
            assert!(matches!(classify(&RFC_B16, bad), Class::Invalid(_)), "{bad:?}");
        }
        // residues
        assert_eq!(RFC_B32.residue_trailing_bits(1), None);
        assert_eq!(RFC_B32.residue_trailing_bits(2), Some(2));
        assert_eq!(RFC_B32.residue_trailing_bits(3), None);
        assert_eq!(RFC_B32.residue_trailing_bits(4), Some(4));
        assert_eq!(RFC_B32.residue_trailing_bits(5), Some(1));
        assert_eq!(RFC_B32.residue_trailing_bits(6), None);
        assert_eq!(RFC_B32.residue_trailing_bits(7), Some(3));
        assert_eq!(RFC_B64.residue_trailing_bits(1), None);
        assert_eq!(RFC_B64.residue_trailing_bits(2), Some(4));
        assert_eq!(RFC_B64.residue_trailing_bits(3), Some(2));
        assert_eq!(RFC_B16.residue_trailing_bits(1), None);
    }

    #[test]
    fn reference_round_trips_on_a_sweep() {
        // all strings of length 0..=2 and a pseudo-random set of longer ones
        let mut inputs: Vec<Vec<u8>> = vec![vec![]];
        for a in 0..=255u8 {
            inputs.push(vec![a]);
        }
        for a in (0..=255u8).step_by(5) {
            for b in (0..=255u8).step_by(3) {
                inputs.push(vec![a, b]);
            }
        }
        let mut x: u32 = 12345;
        for len in 3..80usize {
            let mut v = vec![];
            for _ in 0..len {
                x = x.wrapping_mul(1664525).wrapping_add(1013904223);
                v.push((x >> 24) as u8);
            }
            inputs.push(v);
        }
        for s in [RFC_B16, RFC_B32, RFC_B32HEX, RFC_B64, RFC_B64URL] {
            for p in [Pad::Required, Pad::Forbidden] {
                let spec = s.with(p, false);
                for i in &inputs {
                    let t = encode(&spec, i);
                    assert_eq!(classify(&spec, &t), Class::Canonical(i.clone()), "{} {:?}", spec.name, i);
                    let expect_len = match p {
                        Pad::Required => i.len().div_ceil(spec.block() * spec.bits as usize / 8) * spec.block(),
                        _ => (i.len() * 8).div_ceil(spec.bits as usize),
                    };
                    assert_eq!(t.len(), expect_len);
                }
            }
        }
    }
}
