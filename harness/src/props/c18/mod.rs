//! C18 — Base16/32/64 codecs are exact inverses and accept only well-formed
//! text.
//!
//! Oracle: an independent RFC 4648 codec (`rfc4648.rs`, checked against the
//! RFC's own test vectors by unit tests) configured per library module from
//! that module's documentation; every character string is classified
//! canonical / noncanonical-trailing-bits / invalid and only the first and
//! the last class have a demanded outcome (RFC 4648 §3.5 lets a decoder
//! accept or reject non-zero pad bits).
pub mod rfc4648;

use self::rfc4648 as rf;
use self::rfc4648::{Class, Pad, Spec};
use crate::engine::*;
use crate::gen::*;
use crate::{vensure, vfail};
use arbitrary::Unstructured;
use domain::base::name::{Name, ToName};
use domain::base::scan::{ConvertSymbols, EntrySymbol, IterScanner, Scanner, StrError, Symbol};
use domain::base::iana::{Rtype, SvcParamKey};
use domain::base::rdata::UnknownRecordData;
use domain::rdata::nsec3::{Nsec3Salt, OwnerHash};
use domain::rdata::svcb::value::Ech;
use domain::rdata::svcb::ScanSvcParamValue;
use domain::rdata::ZoneRecordData;
use domain::utils::base64::DecodeError;
use domain::utils::{base16, base32, base64};
use domain::zonefile::inplace::{Entry, Zonefile};
use std::collections::BTreeMap;
use std::str::FromStr;

//------------ The codec table -------------------------------------------------

#[derive(Clone, Copy, Debug, PartialEq, Eq, Hash)]
pub enum Codec {
    B16,
    B32Hex,
    B64,
}
use Codec::*;

/// One row per RFC 4648 encoding the property statement names. `lib` is the
/// library codec that implements it (None = nothing to test at this commit);
/// `spec` is the reference configured with the convention the library module
/// documents:
///
/// * base16.rs: "just a normal hex-encoding using the (case-insensitive)
///   letters 'A' to 'F'"; `finalize` fails on a pending half octet. Base16
///   never needs padding, so `Required` and `Forbidden` coincide ('=' is
///   always invalid).
/// * base32.rs: "currently only implements base32hex"; `Decoder`: "The
///   decoder does not support padding"; `display_hex` writes no '='; module
///   doc: "essentially a case-insensitive version of base64"; `finalize`
///   accepts pending groups of 2, 4, 5, 7 symbols and fails on 1, 3, 6.
/// * base64.rs: "only the original base64 variant"; `display` pads to a
///   multiple of four; `finalize`: "next is either 0 or 0xF0 for a completed
///   group", anything else is `ShortInput` => padding is required.
pub struct Row {
    pub name: &'static str,
    pub spec: Spec,
    pub lib: Option<Codec>,
}
pub const TABLE: [Row; 4] = [
    Row { name: "b16", spec: rf::RFC_B16.with(Pad::Required, true), lib: Some(B16) },
    Row { name: "b32hex", spec: rf::RFC_B32HEX.with(Pad::Forbidden, true), lib: Some(B32Hex) },
    Row { name: "b64", spec: rf::RFC_B64, lib: Some(B64) },
    // Standard-alphabet Base32: the statement names it, the library has no
    // implementation (base32.rs module doc). When one appears, add a Codec
    // variant, its adaptor arms below and set `lib` here.
    Row { name: "b32", spec: rf::RFC_B32, lib: None },
];
const CODECS: [Codec; 3] = [B16, B32Hex, B64];

impl Codec {
    fn row(self) -> &'static Row {
        TABLE.iter().find(|r| r.lib == Some(self)).unwrap()
    }
    fn spec(self) -> &'static Spec {
        &self.row().spec
    }
    fn name(self) -> &'static str {
        self.row().name
    }
    /// Octets per full block of symbols.
    fn block_octets(self) -> usize {
        self.spec().block() * self.spec().bits as usize / 8
    }
}

//------------ Library adaptors ------------------------------------------------

fn lib_encode(c: Codec, d: &[u8]) -> String {
    match c {
        B16 => base16::encode_string(d),
        B32Hex => base32::encode_string_hex(d),
        B64 => base64::encode_string(d),
    }
}
fn lib_display(c: Codec, d: &[u8]) -> String {
    let mut s = String::new();
    match c {
        B16 => base16::display(d, &mut s),
        B32Hex => base32::display_hex(d, &mut s),
        B64 => base64::display(d, &mut s),
    }
    .expect("fmt::Write for String never fails");
    s
}
fn lib_encode_display(c: Codec, d: &[u8]) -> String {
    match c {
        B16 => base16::encode_display(d).to_string(),
        B32Hex => base32::encode_display_hex(&d).to_string(),
        B64 => base64::encode_display(&d).to_string(),
    }
}
fn lib_decode(c: Codec, t: &str) -> Result<Vec<u8>, DecodeError> {
    match c {
        B16 => base16::decode::<Vec<u8>>(t),
        B32Hex => base32::decode_hex::<Vec<u8>>(t),
        B64 => base64::decode::<Vec<u8>>(t),
    }
}
fn lib_decode_bytes(c: Codec, t: &str) -> Result<Vec<u8>, DecodeError> {
    match c {
        B16 => base16::decode::<bytes::Bytes>(t),
        B32Hex => base32::decode_hex::<bytes::Bytes>(t),
        B64 => base64::decode::<bytes::Bytes>(t),
    }
    .map(|b| b.to_vec())
}
fn lib_serde_ser(c: Codec, d: &Vec<u8>) -> Result<String, String> {
    let v = match c {
        B16 => base16::serde::serialize(d, serde_json::value::Serializer),
        B32Hex => base32::serde::serialize(d, serde_json::value::Serializer),
        B64 => base64::serde::serialize(d, serde_json::value::Serializer),
    }
    .map_err(|e| e.to_string())?;
    v.as_str().map(|s| s.to_string()).ok_or_else(|| format!("not a string: {v}"))
}
fn lib_serde_de(c: Codec, t: &str) -> Result<Vec<u8>, String> {
    let v = serde_json::Value::String(t.to_string());
    match c {
        B16 => base16::serde::deserialize::<Vec<u8>, _>(v),
        B32Hex => base32::serde::deserialize::<Vec<u8>, _>(v),
        B64 => base64::serde::deserialize::<Vec<u8>, _>(v),
    }
    .map_err(|e| e.to_string())
}

/// The incremental decoders behind one face.
trait Dec: Sized {
    fn mk() -> Self;
    fn push_ch(&mut self, ch: char) -> Result<(), DecodeError>;
    fn fin(self) -> Result<Vec<u8>, DecodeError>;
}
macro_rules! dec_impl {
    ($ty:ty, $new:expr) => {
        impl Dec for $ty {
            fn mk() -> Self {
                $new
            }
            fn push_ch(&mut self, ch: char) -> Result<(), DecodeError> {
                self.push(ch)
            }
            fn fin(self) -> Result<Vec<u8>, DecodeError> {
                self.finalize().map(|o| {
                    let s: &[u8] = o.as_ref();
                    s.to_vec()
                })
            }
        }
    };
}
/// Capacity of the bounded target used to reach the `ShortBuf` paths.
const SMALL: usize = 7;
type Small = octseq::Array<SMALL>;
dec_impl!(base16::Decoder<Vec<u8>>, base16::Decoder::new());
dec_impl!(base32::Decoder<Vec<u8>>, base32::Decoder::new_hex());
dec_impl!(base64::Decoder<Vec<u8>>, base64::Decoder::new());
dec_impl!(base16::Decoder<Small>, base16::Decoder::new());
dec_impl!(base32::Decoder<Small>, base32::Decoder::new_hex());
dec_impl!(base64::Decoder<Small>, base64::Decoder::new());

/// What `decode()` does: push until the first error, then finalize.
fn drive_stop<D: Dec>(pieces: &[String]) -> Result<Vec<u8>, DecodeError> {
    let mut d = D::mk();
    for p in pieces {
        for ch in p.chars() {
            d.push_ch(ch)?;
        }
    }
    d.fin()
}

struct Proto {
    /// Per pushed character: None = Ok, Some(e) = Err(e).
    results: Vec<Option<DecodeError>>,
    fin: Result<Vec<u8>, DecodeError>,
}

/// Pushes every character whatever `push` returns (the decoders document:
/// "It is okay to push more data after the first error. The method will
/// just keep returning errors."), then finalizes.
fn drive_all<D: Dec>(pieces: &[String]) -> Proto {
    let mut d = D::mk();
    let mut results = vec![];
    for p in pieces {
        for ch in p.chars() {
            results.push(d.push_ch(ch).err());
        }
    }
    Proto { results, fin: d.fin() }
}

fn run_conv<C: ConvertSymbols<EntrySymbol, StrError>>(mut conv: C, pieces: &[String], eot: bool) -> Result<Vec<u8>, String> {
    let mut out = vec![];
    for p in pieces {
        for ch in p.chars() {
            if let Some(d) = conv.process_symbol(EntrySymbol::Symbol(Symbol::Char(ch))).map_err(|e| e.to_string())? {
                out.extend_from_slice(d);
            }
        }
        if eot {
            if let Some(d) = conv.process_symbol(EntrySymbol::EndOfToken).map_err(|e| e.to_string())? {
                out.extend_from_slice(d);
            }
        }
    }
    if let Some(d) = conv.process_tail().map_err(|e| e.to_string())? {
        out.extend_from_slice(d);
    }
    Ok(out)
}
/// SymbolConverter fed symbol by symbol; `eot` inserts an EndOfToken after
/// every piece (what `scan_entry_symbols` does at token boundaries).
fn lib_convert(c: Codec, pieces: &[String], eot: bool) -> Result<Vec<u8>, String> {
    match c {
        B16 => run_conv(base16::SymbolConverter::new(), pieces, eot),
        B32Hex => run_conv(base32::SymbolConverter::new(), pieces, eot),
        B64 => run_conv(base64::SymbolConverter::new(), pieces, eot),
    }
}
/// `IterScanner::convert_entry` over the pieces as tokens.
fn iter_entry(c: Codec, pieces: &[String]) -> Result<Vec<u8>, String> {
    let mut sc = IterScanner::<_, Vec<u8>>::new(pieces.iter());
    match c {
        B16 => sc.convert_entry(base16::SymbolConverter::new()),
        B32Hex => sc.convert_entry(base32::SymbolConverter::new()),
        B64 => sc.convert_entry(base64::SymbolConverter::new()),
    }
    .map_err(|e| e.to_string())
}
/// `IterScanner::convert_token` on one token.
fn iter_token(c: Codec, token: &str) -> Result<Vec<u8>, String> {
    let mut sc = IterScanner::<_, Vec<u8>>::new(std::iter::once(token));
    match c {
        B16 => sc.convert_token(base16::SymbolConverter::new()),
        B32Hex => sc.convert_token(base32::SymbolConverter::new()),
        B64 => sc.convert_token(base64::SymbolConverter::new()),
    }
    .map_err(|e| e.to_string())
}

//------------ Oracle helpers --------------------------------------------------

fn show(t: &str) -> String {
    let mut s: String = t.chars().take(120).flat_map(|c| c.escape_default()).collect();
    if t.chars().count() > 120 {
        s.push_str(&format!("…({} chars)", t.chars().count()));
    }
    s
}
fn hex(d: &[u8]) -> String {
    let mut s = String::new();
    for b in d.iter().take(48) {
        s.push_str(&format!("{b:02x}"));
    }
    if d.len() > 48 {
        s.push_str(&format!("…({} octets)", d.len()));
    }
    s
}

/// The demanded outcome: canonical => accepted with exactly these octets;
/// invalid => rejected; trailing bits => either, octets as the lenient
/// reference if accepted.
fn check_outcome(c: Codec, entry: &str, text: &str, class: &Class, got: Result<&[u8], String>) -> CaseResult {
    let n = c.name();
    match (class, got) {
        (Class::Canonical(w), Ok(g)) => vensure!(g == &w[..], format!("{n}:{entry}:wrong-octets"), "{n} {entry}({:?}) = {} but RFC 4648 gives {}", show(text), hex(g), hex(w)),
        (Class::Canonical(w), Err(e)) => vfail!(format!("{n}:{entry}:rejected-valid"), "{n} {entry}({:?}) failed with {e:?}; it is the canonical encoding of {}", show(text), hex(w)),
        (Class::TrailingBits(w), Ok(g)) => vensure!(g == &w[..], format!("{n}:{entry}:wrong-octets-trailing-bits"), "{n} {entry}({:?}) = {} but ignoring the pad bits gives {}", show(text), hex(g), hex(w)),
        (Class::TrailingBits(_), Err(_)) => {}
        (Class::Invalid(why), Ok(g)) => vfail!(format!("{n}:{entry}:accepted-invalid:{why}"), "{n} {entry}({:?}) was accepted as {} although the text is not well-formed ({why})", show(text), hex(g)),
        (Class::Invalid(_), Err(_)) => {}
    }
    Ok(())
}

/// The incremental decoder's documented protocol, against what `decode()`
/// returned for the same text.
fn check_decoder<D: Dec>(c: Codec, text: &str, whole: &Result<Vec<u8>, DecodeError>) -> CaseResult {
    let n = c.name();
    let pieces = [text.to_string()];
    let stop = drive_stop::<D>(&pieces);
    vensure!(stop == *whole, format!("{n}:decoder:differs-from-decode"), "{n}: push-until-error + finalize gives {stop:?}, decode({:?}) gives {whole:?}", show(text));
    let p = drive_all::<D>(&pieces);
    match p.results.iter().position(|r| r.is_some()) {
        None => vensure!(p.fin == *whole, format!("{n}:decoder:finalize-differs-from-decode"), "{n}: all pushes Ok, finalize {:?}, decode({:?}) {whole:?}", p.fin, show(text)),
        Some(i) => {
            let e = p.results[i].unwrap();
            vensure!(*whole == Err(e), format!("{n}:decoder:first-error-differs-from-decode"), "{n}: push #{i} failed with {e:?}, decode({:?}) gives {whole:?}", show(text));
            if let Some(j) = p.results[i + 1..].iter().position(|r| r.is_none()) {
                vfail!(format!("{n}:decoder:push-ok-after-error"), "{n} Decoder: push #{i} of {:?} returned Err({e:?}) but the later push #{} returned Ok; documented: \"It is okay to push more data after the first error. The method will just keep returning errors.\"", show(text), i + 1 + j);
            }
            vensure!(p.fin.is_err(), format!("{n}:decoder:finalize-ok-after-push-error"), "{n} Decoder: push #{i} of {:?} returned Err({e:?}) but finalize returned {:?}", show(text), p.fin);
        }
    }
    Ok(())
}

/// Decoding into a bounded buffer: same result when it fits, ShortBuf when
/// it does not, and the same protocol.
fn check_small<D: Dec>(c: Codec, text: &str, whole: &Result<Vec<u8>, DecodeError>) -> CaseResult {
    let n = c.name();
    let pieces = [text.to_string()];
    let got = drive_stop::<D>(&pieces);
    match (whole, &got) {
        (Ok(w), Ok(g)) => vensure!(w == g && w.len() <= SMALL, format!("{n}:decoder-bounded:wrong-octets"), "{n}: bounded target gives {}, Vec target {}", hex(g), hex(w)),
        (Ok(w), Err(e)) => vensure!(w.len() > SMALL && *e == DecodeError::ShortBuf, format!("{n}:decoder-bounded:wrong-error"), "{n}: {:?} decodes to {} octets, target holds {SMALL}, got Err({e:?})", show(text), w.len()),
        (Err(_), Err(_)) => {}
        (Err(e), Ok(g)) => vfail!(format!("{n}:decoder-bounded:accepted"), "{n}: Vec target fails with {e:?}, bounded target returns {}", hex(g)),
    }
    let p = drive_all::<D>(&pieces);
    if let Some(i) = p.results.iter().position(|r| r.is_some()) {
        if let Some(j) = p.results[i + 1..].iter().position(|r| r.is_none()) {
            vfail!(format!("{n}:decoder-bounded:push-ok-after-error"), "{n} Decoder<Array<{SMALL}>>: push #{i} of {:?} returned Err({:?}) but push #{} returned Ok", show(text), p.results[i], i + 1 + j);
        }
        vensure!(p.fin.is_err(), format!("{n}:decoder-bounded:finalize-ok-after-push-error"), "{n} Decoder<Array<{SMALL}>>: push #{i} of {:?} failed, finalize returned {:?}", show(text), p.fin);
    } else {
        vensure!(p.fin == got, format!("{n}:decoder-bounded:finalize-differs"), "{n}: {:?} vs {got:?}", p.fin);
    }
    Ok(())
}

fn classes_for_text(c: Codec, text: &str, class: &Class, ctx: &mut Ctx) {
    let n = c.name();
    let block = c.spec().block();
    ctx.class(format!("{n}:{}", class.label()));
    if let Class::Invalid(why) = class {
        ctx.class(format!("{n}:invalid:{why}"));
    }
    let len = text.chars().count();
    ctx.class(format!("{n}:len%{block}={}", len % block));
    if len == 0 {
        ctx.class("empty-text");
    }
    let npad = text.chars().filter(|&ch| ch == '=').count();
    if npad > 0 {
        ctx.class(format!("{n}:pad-count={}", npad.min(block + 1)));
        let first = text.chars().position(|ch| ch == '=').unwrap();
        if text.chars().skip(first).any(|ch| ch != '=') {
            ctx.class("pad-in-the-middle");
        }
        if first == 0 {
            ctx.class("pad-at-start");
        }
    }
    let mut seen = [false; 5];
    for ch in text.chars() {
        if !ch.is_ascii() {
            seen[0] = true;
        } else if ch == '\0' {
            seen[1] = true;
        } else if ch.is_ascii_whitespace() {
            seen[2] = true;
        } else if ch == '-' || ch == '_' {
            seen[3] = true;
        } else if ch.is_ascii_lowercase() {
            seen[4] = true;
        }
    }
    for (i, l) in ["char:non-ascii", "char:nul", "char:whitespace", "char:url-safe", "char:lower-case"].iter().enumerate() {
        if seen[i] {
            ctx.class(*l);
        }
    }
}

/// Everything that can be asked about one text, through every direct entry
/// point of the codec.
fn check_text(c: Codec, text: &str, ctx: &mut Ctx) -> Result<Class, Violation> {
    let spec = c.spec();
    let class = rf::classify(spec, text);
    classes_for_text(c, text, &class, ctx);
    let n = c.name();

    // decode()
    let whole = lib_decode(c, text);
    check_outcome(c, "decode", text, &class, whole.as_ref().map(|v| &v[..]).map_err(|e| format!("{e:?}")))?;
    match &whole {
        Ok(_) => ctx.class(format!("{n}:lib-accepts")),
        Err(e) => ctx.class(format!("{n}:lib-error:{}", match e {
            DecodeError::IllegalChar(_) => "IllegalChar",
            DecodeError::TrailingInput => "TrailingInput",
            DecodeError::ShortInput => "ShortInput",
            DecodeError::ShortBuf => "ShortBuf",
        })),
    }
    if matches!(class, Class::TrailingBits(_)) {
        ctx.class(format!("{n}:trailing-bits-{}", if whole.is_ok() { "accepted" } else { "rejected" }));
    }
    // an unbounded target never runs out of space
    vensure!(whole != Err(DecodeError::ShortBuf), format!("{n}:decode:shortbuf-on-vec"), "{n} decode({:?}) into a Vec reports ShortBuf", show(text));
    // other octets types
    let as_bytes = lib_decode_bytes(c, text);
    vensure!(as_bytes == whole, format!("{n}:decode:bytes-differs-from-vec"), "{n} decode::<Bytes>({:?}) = {as_bytes:?}, decode::<Vec<u8>> = {whole:?}", show(text));

    // incremental decoder
    match c {
        B16 => {
            check_decoder::<base16::Decoder<Vec<u8>>>(c, text, &whole)?;
            check_small::<base16::Decoder<Small>>(c, text, &whole)?;
        }
        B32Hex => {
            check_decoder::<base32::Decoder<Vec<u8>>>(c, text, &whole)?;
            check_small::<base32::Decoder<Small>>(c, text, &whole)?;
        }
        B64 => {
            check_decoder::<base64::Decoder<Vec<u8>>>(c, text, &whole)?;
            check_small::<base64::Decoder<Small>>(c, text, &whole)?;
        }
    }

    // SymbolConverter, one token
    let pieces = [text.to_string()];
    let conv = lib_convert(c, &pieces, false);
    check_outcome(c, "converter", text, &class, conv.as_ref().map(|v| &v[..]).map_err(|e| e.clone()))?;
    let conv_eot = lib_convert(c, &pieces, true);
    vensure!(conv_eot.is_ok() == conv.is_ok() && (conv.is_err() || conv_eot == conv), format!("{n}:converter:end-of-token-changes-result"), "{n} converter {:?}: without EndOfToken {conv:?}, with {conv_eot:?}", show(text));

    // serde helper (human readable form)
    let de = lib_serde_de(c, text);
    check_outcome(c, "serde-deserialize", text, &class, de.as_ref().map(|v| &v[..]).map_err(|e| e.clone()))?;
    vensure!(de.is_ok() == whole.is_ok(), format!("{n}:serde-deserialize:differs-from-decode"), "{n} serde {de:?} vs decode {whole:?}");

    // typed users
    if c == B32Hex {
        let got = OwnerHash::<Vec<u8>>::from_str(text);
        // an owner hash holds at most 255 octets (documented type invariant)
        let cls = match &class {
            Class::Canonical(v) | Class::TrailingBits(v) if v.len() > 255 => {
                ctx.class("ownerhash:longer-than-255");
                Class::Invalid("hash-longer-than-255-octets")
            }
            other => other.clone(),
        };
        check_outcome(c, "ownerhash-from_str", text, &cls, got.as_ref().map(|h| h.as_slice()).map_err(|e| format!("{e:?}")))?;
        if let Ok(h) = &got {
            let shown = h.to_string();
            vensure!(shown == rf::encode(spec, h.as_slice()), "b32hex:ownerhash-display:differs-from-rfc4648", "OwnerHash({}) displays as {shown:?}", hex(h.as_slice()));
        }
    }
    if c == B16 && text != "-" {
        let got = Nsec3Salt::<Vec<u8>>::from_str(text);
        // a salt holds at most 255 octets (documented type invariant)
        let cls = match &class {
            Class::Canonical(v) | Class::TrailingBits(v) if v.len() > 255 => {
                ctx.class("nsec3salt:longer-than-255");
                Class::Invalid("salt-longer-than-255-octets")
            }
            other => other.clone(),
        };
        check_outcome(c, "nsec3salt-from_str", text, &cls, got.as_ref().map(|h| h.as_slice()).map_err(|e| format!("{e:?}")))?;
        if let Ok(s) = &got {
            let shown = s.to_string();
            let want = if s.as_slice().is_empty() { "-".to_string() } else { rf::encode(spec, s.as_slice()) };
            vensure!(shown == want, "b16:nsec3salt-display:differs", "Nsec3Salt({}) displays as {shown:?}, want {want:?}", hex(s.as_slice()));
        }
    }

    // what was accepted re-encodes to text that decodes to the same octets,
    // and canonical text re-encodes to itself (modulo letter case)
    if let Ok(v) = &whole {
        let re = lib_encode(c, v);
        vensure!(lib_decode(c, &re).as_ref() == Ok(v), format!("{n}:decode-encode-decode"), "{n}: {:?} -> {} -> {re:?} does not decode back", show(text), hex(v));
        if matches!(class, Class::Canonical(_)) {
            let norm = if spec.case_insensitive { text.to_ascii_uppercase() } else { text.to_string() };
            vensure!(re == norm, format!("{n}:canonical-text-does-not-reencode-to-itself"), "{n}: canonical {:?} re-encodes to {re:?}", show(text));
        }
    }
    Ok(class)
}

/// Everything that can be asked about one octet string.
fn check_octets(c: Codec, d: &[u8], ctx: &mut Ctx) -> CaseResult {
    let spec = c.spec();
    let n = c.name();
    let e = lib_encode(c, d);
    let want = rf::encode(spec, d);
    vensure!(e == want, format!("{n}:encode:differs-from-rfc4648"), "{n} encode_string({}) = {:?}, RFC 4648 gives {:?}", hex(d), show(&e), show(&want));
    let disp = lib_display(c, d);
    vensure!(disp == e, format!("{n}:display:differs-from-encode_string"), "{n} display({}) = {:?}, encode_string = {:?}", hex(d), show(&disp), show(&e));
    let ed = lib_encode_display(c, d);
    vensure!(ed == e, format!("{n}:encode_display:differs-from-encode_string"), "{n} encode_display({}) = {:?}, encode_string = {:?}", hex(d), show(&ed), show(&e));
    let dv = d.to_vec();
    let ser = lib_serde_ser(c, &dv);
    vensure!(ser.as_deref() == Ok(&e[..]), format!("{n}:serde-serialize:differs-from-encode_string"), "{n} serde serialize({}) = {ser:?}", hex(d));
    // inverse, through every decoding entry point
    let back = lib_decode(c, &e);
    vensure!(back.as_deref() == Ok(d), format!("{n}:decode:not-inverse-of-encode"), "{n}: {} encodes to {:?} which decodes to {back:?}", hex(d), show(&e));
    vensure!(lib_decode_bytes(c, &e).as_deref() == Ok(d), format!("{n}:decode:bytes-not-inverse"), "{n}: Bytes target");
    let pieces = [e.clone()];
    let got = match c {
        B16 => drive_all::<base16::Decoder<Vec<u8>>>(&pieces),
        B32Hex => drive_all::<base32::Decoder<Vec<u8>>>(&pieces),
        B64 => drive_all::<base64::Decoder<Vec<u8>>>(&pieces),
    };
    vensure!(got.results.iter().all(|r| r.is_none()) && got.fin.as_deref() == Ok(d), format!("{n}:decoder:not-inverse-of-encode"), "{n}: Decoder on {:?}: {:?}", show(&e), got.fin);
    let conv = lib_convert(c, &pieces, false);
    vensure!(conv.as_deref() == Ok(d), format!("{n}:converter:not-inverse-of-encode"), "{n}: SymbolConverter on {:?}: {conv:?}", show(&e));
    let tok = iter_token(c, &e);
    vensure!(tok.as_deref() == Ok(d), format!("{n}:iterscanner-token:not-inverse-of-encode"), "{n}: IterScanner::convert_token on {:?}: {tok:?}", show(&e));
    let de = lib_serde_de(c, &e);
    vensure!(de.as_deref() == Ok(d), format!("{n}:serde-deserialize:not-inverse"), "{n}: serde on {:?}: {de:?}", show(&e));
    if spec.case_insensitive {
        let lower = e.to_ascii_lowercase();
        let got = lib_decode(c, &lower);
        vensure!(got.as_deref() == Ok(d), format!("{n}:decode:lower-case-differs"), "{n}: {:?} decodes to {got:?}", show(&lower));
    }
    // typed users
    if c == B32Hex && d.len() <= 255 {
        let h = OwnerHash::from_octets(d.to_vec()).expect("<= 255 octets");
        let shown = h.to_string();
        vensure!(shown == e, "b32hex:ownerhash-display:differs-from-encode_string", "OwnerHash({}) displays as {shown:?}", hex(d));
        let back = OwnerHash::<Vec<u8>>::from_str(&shown);
        vensure!(back.as_ref().map(|h| h.as_slice()).ok() == Some(d), "b32hex:ownerhash-from_str:not-inverse-of-display", "OwnerHash({}) -> {shown:?} -> {back:?}", hex(d));
    }
    if c == B16 && d.len() <= 255 {
        let s = Nsec3Salt::from_octets(d.to_vec()).expect("<= 255 octets");
        let shown = s.to_string();
        let want = if d.is_empty() { "-".to_string() } else { e.clone() };
        vensure!(shown == want, "b16:nsec3salt-display:differs", "Nsec3Salt({}) displays as {shown:?}", hex(d));
        let back = Nsec3Salt::<Vec<u8>>::from_str(&shown);
        vensure!(back.as_ref().map(|h| h.as_slice()).ok() == Some(d), "b16:nsec3salt-from_str:not-inverse-of-display", "Nsec3Salt({}) -> {shown:?} -> {back:?}", hex(d));
    }
    if d.len() % c.block_octets() != 0 {
        ctx.class(format!("{n}:octets-partial-block"));
    } else {
        ctx.class(format!("{n}:octets-full-blocks"));
    }
    Ok(())
}

/// All texts that differ from the encoding of `d` only in the unused low
/// bits of the last symbol.
fn trailing_bit_variants(c: Codec, d: &[u8]) -> Vec<String> {
    let spec = c.spec();
    let e: Vec<char> = rf::encode(spec, d).chars().collect();
    let nd = e.iter().position(|&ch| ch == '=').unwrap_or(e.len());
    let rem = nd % spec.block();
    let mut out = vec![];
    if nd == 0 || rem == 0 {
        return out;
    }
    let tb = spec.residue_trailing_bits(rem).expect("encoder output has a possible residue");
    let v = spec.value(e[nd - 1]).unwrap();
    for r in 1..(1u8 << tb) {
        let mut t = e.clone();
        t[nd - 1] = spec.alphabet[(v | r) as usize] as char;
        out.push(t.into_iter().collect());
    }
    out
}

//------------ Sub-check: octets_sweep ------------------------------------------

const SWEEP_OCTETS: u64 = 1 + 256 + 65536;

fn sweep_octets(i: u64) -> Vec<u8> {
    match i {
        0 => vec![],
        1..=256 => vec![(i - 1) as u8],
        _ => {
            let j = i - 257;
            vec![(j >> 8) as u8, j as u8]
        }
    }
}

fn run_octets_sweep(data: &[u8], ctx: &mut Ctx) -> CaseResult {
    let mut b = [0u8; 8];
    b[..data.len().min(8)].copy_from_slice(&data[..data.len().min(8)]);
    let i = u64::from_le_bytes(b) % SWEEP_OCTETS;
    let d = sweep_octets(i);
    ctx.nontrivial(&d);
    ctx.sample(|| format!("octets {} through all codecs + every trailing-bit variant", hex(&d)));
    for c in CODECS {
        check_octets(c, &d, ctx)?;
        for t in trailing_bit_variants(c, &d) {
            let class = check_text(c, &t, ctx)?;
            vensure!(class == Class::TrailingBits(d.clone()), "harness:reference-inconsistent", "{t:?} should be a trailing-bits variant of {}", hex(&d));
        }
    }
    Ok(())
}

//------------ Sub-check: text_sweep --------------------------------------------

struct Seg {
    codec: Codec,
    chars: &'static [char],
    maxlen: u32,
}
/// All strings up to `maxlen` over small alphabets that hold, per codec: a
/// zero symbol, an all-ones symbol, symbols whose low bits are zero for
/// some residues only, the pad, neighbours of the alphabet and non-ASCII.
const SEGS: [Seg; 7] = [
    Seg { codec: B64, chars: &['A', 'Q', 'E', '/', 'z', '=', '-', ' ', 'é', '\0'], maxlen: 5 },
    Seg { codec: B64, chars: &['A', 'Q', '/', '=', 'h'], maxlen: 8 },
    Seg { codec: B32Hex, chars: &['0', 'V', 'g', '=', 'W'], maxlen: 8 },
    Seg { codec: B32Hex, chars: &['0', 'G', 'v', '8', '=', 'w', 'O', ' ', 'Z', 'é'], maxlen: 5 },
    Seg { codec: B16, chars: &['0', '9', 'a', 'F', 'f', 'g', 'G', '=', ' ', 'é', ':', '/', '@', '`'], maxlen: 4 },
    // thorough tier only (appended, so quick indices keep their meaning)
    Seg { codec: B64, chars: &['A', 'Q', '/', '=', 'h'], maxlen: 10 },
    Seg { codec: B32Hex, chars: &['0', 'V', 'g', '=', 'W'], maxlen: 10 },
];
const QUICK_SEGS: usize = 5;
fn seg_size(s: &Seg) -> u64 {
    let k = s.chars.len() as u64;
    (0..=s.maxlen).map(|l| k.pow(l)).sum()
}
fn text_sweep_total(thorough: bool) -> u64 {
    SEGS.iter().take(if thorough { SEGS.len() } else { QUICK_SEGS }).map(seg_size).sum()
}
fn sweep_text(mut i: u64) -> (Codec, String) {
    for s in &SEGS {
        let size = seg_size(s);
        if i >= size {
            i -= size;
            continue;
        }
        let k = s.chars.len() as u64;
        let mut len = 0u32;
        while i >= k.pow(len) {
            i -= k.pow(len);
            len += 1;
        }
        let mut t = String::new();
        for _ in 0..len {
            t.push(s.chars[(i % k) as usize]);
            i /= k;
        }
        return (s.codec, t);
    }
    (B64, String::new())
}

fn nontrivial_text(c: Codec, text: &str, class: &Class, edit1: bool) -> bool {
    let len = text.chars().count();
    len % c.spec().block() != 0 || text.contains('=') || (edit1 && matches!(class, Class::Invalid(_)))
}

fn run_text_sweep(data: &[u8], ctx: &mut Ctx) -> CaseResult {
    let mut b = [0u8; 8];
    b[..data.len().min(8)].copy_from_slice(&data[..data.len().min(8)]);
    let i = u64::from_le_bytes(b) % text_sweep_total(true);
    let (c, t) = sweep_text(i);
    ctx.sample(|| format!("{} {:?}", c.name(), show(&t)));
    let class = check_text(c, &t, ctx)?;
    if nontrivial_text(c, &t, &class, false) {
        ctx.nontrivial(&(c, &t));
    }
    Ok(())
}

//------------ Generators -------------------------------------------------------

fn gen_octets(u: &mut Unstructured, big: bool) -> Vec<u8> {
    let len = match pick(u, 8) {
        0..=3 => pick(u, 12),
        4 | 5 => pick(u, 70),
        6 => pick(u, 400),
        _ => {
            if big && chance(u, 96) {
                [4096, 4095, 4094, 4093, 4092, 1024, 2047, 3000][pick(u, 8)] - pick(u, 6)
            } else {
                pick(u, 40)
            }
        }
    };
    let mut v = Vec::with_capacity(len);
    match pick(u, 5) {
        0 | 1 => {
            for _ in 0..len {
                v.push(byte(u));
            }
        }
        2 => {
            let b = byte(u);
            v.resize(len, b);
        }
        3 => {
            let mut x = u32_(u) | 1;
            for _ in 0..len {
                x = x.wrapping_mul(1664525).wrapping_add(1013904223);
                v.push((x >> 24) as u8);
            }
        }
        _ => {
            let b = [0x00u8, 0xFF, 0x80, 0x7F, 0x01, 0xFE][pick(u, 6)];
            v.resize(len, b);
            if len > 0 && flag(u) {
                let p = pick(u, len);
                v[p] = byte(u);
            }
        }
    }
    v
}

/// Characters planted by the mutators: pad, the URL-safe pair, the Base64
/// specials, white space, NUL/control, non-ASCII (incl. letters whose case
/// mapping lands in ASCII and non-ASCII digits), the neighbours of the ASCII
/// digit/letter ranges, letters just outside each alphabet, and the
/// characters with a meaning in zone files.
const ODD: &[char] = &[
    '=', '-', '_', '+', '/', ' ', '\t', '\n', '\r', '\0', '\u{b}', '\u{7f}', '\u{80}', 'é', 'ÿ', '\u{17f}', '\u{212a}', '\u{ff10}', '\u{663}', '\u{1f600}', '\u{a0}', '.', ',', ':', '@', '[', '`', '{', 'G', 'g', 'W', 'w', 'Z', 'z', 'V', 'v', 'F', 'f', '0',
    '9', 'A', 'a', '*', '!', '~', '\\', '"', '(', ')', ';',
];
/// Number of trailing entries of ODD that the zone-file tokenizer gives a
/// meaning to (kept out of token bodies; white space is filtered separately).
fn token_safe(ch: char) -> bool {
    !matches!(ch, ' ' | '\t' | '\r' | '\n' | '(' | ')' | ';' | '"' | '\\')
}
fn odd_char(u: &mut Unstructured, safe: bool) -> char {
    for _ in 0..8 {
        let ch = ODD[pick(u, ODD.len())];
        if !safe || token_safe(ch) {
            return ch;
        }
    }
    '='
}
fn pos(u: &mut Unstructured, n: usize) -> usize {
    match pick(u, 6) {
        0 => 0,
        1 => n,
        2 => n.saturating_sub(1),
        3 => n.saturating_sub(2),
        _ => pick(u, n + 1),
    }
}

/// One mutation; returns (name, is a single-character edit).
fn mutate(u: &mut Unstructured, spec: &Spec, t: &mut Vec<char>, safe: bool) -> (&'static str, bool) {
    let n = t.len();
    let block = spec.block();
    match pick(u, 14) {
        0 => {
            let before = t.len();
            while t.last() == Some(&'=') {
                t.pop();
            }
            let k = pick(u, block + 2);
            for _ in 0..k {
                t.push('=');
            }
            ("set-pad-count", (before as i64 - t.len() as i64).abs() == 1)
        }
        1 => {
            let p = pos(u, n);
            t.insert(p, '=');
            ("insert-pad", true)
        }
        2 => {
            let cut = if flag(u) { 1 + pick(u, block) } else { pick(u, n + 1) }.min(n);
            t.truncate(n - cut);
            ("truncate", cut == 1)
        }
        3 => {
            t.push(spec.alphabet[pick(u, spec.alphabet.len())] as char);
            ("append-symbol", true)
        }
        4 if n > 0 => {
            let p = pos(u, n - 1);
            t[p] = odd_char(u, safe);
            ("replace-with-odd-char", true)
        }
        5 => {
            let p = pos(u, n);
            t.insert(p, odd_char(u, safe));
            ("insert-odd-char", true)
        }
        6 if n > 0 => {
            let p = pos(u, n - 1);
            t.remove(p);
            ("delete-char", true)
        }
        7 if n > 0 => {
            let p = pos(u, n - 1);
            t[p] = if t[p].is_ascii_lowercase() { t[p].to_ascii_uppercase() } else { t[p].to_ascii_lowercase() };
            ("flip-case", true)
        }
        8 => {
            let lower = flag(u);
            for ch in t.iter_mut() {
                *ch = if lower { ch.to_ascii_lowercase() } else { ch.to_ascii_uppercase() };
            }
            (if lower { "lower-all" } else { "upper-all" }, false)
        }
        9 => {
            let nd = t.iter().position(|&ch| ch == '=').unwrap_or(n);
            if nd > 0 && nd % block != 0 {
                if let (Some(tb), Some(v)) = (spec.residue_trailing_bits(nd % block), spec.value(t[nd - 1])) {
                    if tb > 0 {
                        let r = 1 + pick(u, (1usize << tb) - 1) as u8;
                        t[nd - 1] = spec.alphabet[((v & !((1u8 << tb) - 1)) | r) as usize] as char;
                    }
                }
            }
            ("set-trailing-bits", true)
        }
        10 => {
            let copy = t.clone();
            t.extend(copy);
            ("duplicate", false)
        }
        11 if n > 1 => {
            let p = pos(u, n - 2);
            t.swap(p, p + 1);
            ("swap-adjacent", false)
        }
        12 if n > 0 => {
            let p = pos(u, n - 1);
            t[p] = spec.alphabet[pick(u, spec.alphabet.len())] as char;
            ("replace-with-symbol", true)
        }
        13 if n > 1 => {
            let p = 1 + pick(u, n - 1);
            t.insert(p, '=');
            ("pad-in-the-middle", true)
        }
        _ => {
            t.push('=');
            ("append-pad", true)
        }
    }
}

struct TextCase {
    codec: Codec,
    text: String,
    ops: Vec<&'static str>,
    /// Exactly one single-character edit away from a valid encoding.
    edit1: bool,
}

fn gen_text(u: &mut Unstructured, forced: Option<Codec>, safe: bool, big: bool) -> TextCase {
    let codec = forced.unwrap_or_else(|| CODECS[pick(u, 3)]);
    let spec = codec.spec();
    match pick(u, 10) {
        0 => {
            // symbol soup: alphabet, pad and odd characters, every length
            let n = pick(u, 26);
            let mut t = String::new();
            for _ in 0..n {
                t.push(match pick(u, 8) {
                    0 => '=',
                    1 => odd_char(u, safe),
                    _ => spec.alphabet[pick(u, spec.alphabet.len())] as char,
                });
            }
            TextCase { codec, text: t, ops: vec!["soup"], edit1: false }
        }
        1 => {
            let n = pick(u, 40);
            let raw: Vec<u8> = (0..n).map(|_| byte(u)).collect();
            let t: String = String::from_utf8_lossy(&raw).chars().filter(|&ch| !safe || token_safe(ch)).collect();
            TextCase { codec, text: t, ops: vec!["arbitrary"], edit1: false }
        }
        _ => {
            let d = gen_octets(u, big);
            let mut t: Vec<char> = rf::encode(spec, &d).chars().collect();
            let mut ops = vec![];
            if spec.case_insensitive {
                match pick(u, 4) {
                    0 => {
                        t.iter_mut().for_each(|ch| *ch = ch.to_ascii_lowercase());
                        ops.push("valid-lower-case");
                    }
                    1 => {
                        for ch in t.iter_mut() {
                            if flag(u) {
                                *ch = ch.to_ascii_lowercase();
                            }
                        }
                        ops.push("valid-mixed-case");
                    }
                    _ => {}
                }
            }
            let nmut = [0usize, 1, 1, 1, 1, 2, 2, 3][pick(u, 8)];
            let mut edit1 = nmut == 1;
            for _ in 0..nmut {
                let (name, single) = mutate(u, spec, &mut t, safe);
                ops.push(name);
                edit1 &= single;
            }
            if nmut == 0 {
                ops.push("valid");
            }
            TextCase { codec, text: t.into_iter().collect(), ops, edit1 }
        }
    }
}

//------------ Sub-check: roundtrip ---------------------------------------------

fn run_roundtrip(data: &[u8], ctx: &mut Ctx) -> CaseResult {
    let mut u = Unstructured::new(data);
    let c = CODECS[pick(&mut u, 3)];
    let d = gen_octets(&mut u, true);
    ctx.class(format!("{}:octets-len-{}", c.name(), match d.len() { 0 => "0", 1..=2 => "1-2", 3..=64 => "3-64", 65..=1023 => "65-1023", _ => "1024-4096" }));
    ctx.sample(|| format!("{} octets {}", c.name(), hex(&d)));
    if d.len() % c.block_octets() != 0 {
        ctx.nontrivial(&(c, &d));
    }
    check_octets(c, &d, ctx)
}

//------------ Sub-check: mutated_text ------------------------------------------

fn run_mutated(data: &[u8], ctx: &mut Ctx) -> CaseResult {
    let mut u = Unstructured::new(data);
    let tc = gen_text(&mut u, None, false, true);
    for op in &tc.ops {
        ctx.class(format!("op:{op}"));
    }
    ctx.sample(|| format!("{} {:?} via {:?}", tc.codec.name(), show(&tc.text), tc.ops));
    let class = check_text(tc.codec, &tc.text, ctx)?;
    if tc.edit1 && matches!(class, Class::Invalid(_)) {
        ctx.class("rejected-one-edit-from-valid");
    }
    if nontrivial_text(tc.codec, &tc.text, &class, tc.edit1) {
        ctx.nontrivial(&(tc.codec, &tc.text));
    }
    Ok(())
}

//------------ Sub-check: text_raw (also the libFuzzer entry) --------------------

fn run_text_raw(data: &[u8], ctx: &mut Ctx) -> CaseResult {
    // byte 0: low bits select the codec, the top bit selects how the rest
    // becomes text: as (lossy) UTF-8, or byte by byte through a table that
    // is mostly the codec's alphabet, then '=', then odd characters (so
    // that undirected generation reaches well-formed shapes too)
    let (c, mapped, rest) = match data.split_first() {
        Some((b, rest)) => (CODECS[((*b & 0x7f) % 3) as usize], *b & 0x80 != 0, rest),
        None => (B64, false, data),
    };
    let text: String = if mapped {
        ctx.class("text_raw:mapped");
        let a = c.spec().alphabet;
        rest.iter()
            .map(|&b| match b {
                0..=159 => a[b as usize % a.len()] as char,
                160..=219 => '=',
                _ => ODD[b as usize % ODD.len()],
            })
            .collect()
    } else {
        ctx.class("text_raw:utf8");
        String::from_utf8_lossy(rest).into_owned()
    };
    ctx.sample(|| format!("{} {:?}", c.name(), show(&text)));
    let class = check_text(c, &text, ctx)?;
    if nontrivial_text(c, &text, &class, false) {
        ctx.nontrivial(&(c, &text));
    }
    // the same text as one token and char by char through the scanner-facing
    // converter (a backslash would start an escape sequence there)
    if !text.contains('\\') {
        let tok = iter_token(c, &text);
        check_outcome(c, "iterscanner-token", &text, &class, tok.as_ref().map(|v| &v[..]).map_err(|e| e.clone()))?;
        let singles: Vec<String> = text.chars().map(|ch| ch.to_string()).collect();
        let ent = iter_entry(c, &singles);
        check_outcome(c, "iterscanner-entry", &text, &class, ent.as_ref().map(|v| &v[..]).map_err(|e| e.clone()))?;
    }
    Ok(())
}

//------------ Sub-check: chunking ----------------------------------------------

fn split_at_cuts(chars: &[char], cuts: &[usize]) -> Vec<String> {
    let mut out = vec![];
    let mut last = 0;
    for &c in cuts {
        out.push(chars[last..c].iter().collect());
        last = c;
    }
    out.push(chars[last..].iter().collect());
    out
}

type R = Result<Vec<u8>, String>;

fn same(a: &R, b: &R) -> bool {
    match (a, b) {
        (Ok(x), Ok(y)) => x == y,
        (Err(_), Err(_)) => true,
        _ => false,
    }
}

fn run_chunking(data: &[u8], ctx: &mut Ctx) -> CaseResult {
    let mut u = Unstructured::new(data);
    let tc = gen_text(&mut u, None, false, false);
    let c = tc.codec;
    let n = c.name();
    let chars: Vec<char> = tc.text.chars().collect();
    let len = chars.len();
    let class = rf::classify(c.spec(), &tc.text);
    classes_for_text(c, &tc.text, &class, ctx);
    let whole = [tc.text.clone()];
    let escapes = tc.text.contains('\\');

    // whole-text results per entry point (and against the reference)
    let dec_whole: R = lib_decode(c, &tc.text).map_err(|e| format!("{e:?}"));
    check_outcome(c, "decode", &tc.text, &class, dec_whole.as_ref().map(|v| &v[..]).map_err(|e| e.clone()))?;
    let conv_whole = lib_convert(c, &whole, true);
    check_outcome(c, "converter", &tc.text, &class, conv_whole.as_ref().map(|v| &v[..]).map_err(|e| e.clone()))?;
    let iter_whole = if escapes { None } else { Some(iter_entry(c, &whole)) };
    if let Some(r) = &iter_whole {
        check_outcome(c, "iterscanner-entry", &tc.text, &class, r.as_ref().map(|v| &v[..]).map_err(|e| e.clone()))?;
    }

    // the splits: all of them for short texts, else every single cut, all
    // one-character pieces and a handful of generated multi-cuts
    let mut splits: Vec<Vec<usize>> = vec![];
    if len >= 1 && len <= 10 {
        for mask in 0u32..(1 << (len - 1)) {
            splits.push((1..len).filter(|i| mask >> (i - 1) & 1 == 1).collect());
        }
        ctx.class("chunking:all-splits");
    } else if len > 10 {
        if len <= 160 {
            for i in 1..len {
                splits.push(vec![i]);
            }
            ctx.class("chunking:every-single-cut");
        }
        splits.push((1..len).collect());
        for _ in 0..6 {
            let k = 1 + pick(&mut u, 8);
            let mut cuts: Vec<usize> = (0..k)
                .map(|_| match pick(&mut u, 4) {
                    0 => len - 1 - pick(&mut u, 9.min(len - 1)),
                    _ => 1 + pick(&mut u, len - 1),
                })
                .collect();
            cuts.sort();
            cuts.dedup();
            splits.push(cuts);
        }
        ctx.class("chunking:sampled-splits");
    }
    // empty pieces (empty tokens) at the start, the end and in the middle
    let mut with_empty: Vec<Vec<String>> = vec![];
    {
        let mut p = vec![String::new()];
        p.extend(whole.iter().cloned());
        p.push(String::new());
        with_empty.push(p);
        if len >= 2 {
            let mid = 1 + pick(&mut u, len - 1);
            with_empty.push(vec![chars[..mid].iter().collect(), String::new(), String::new(), chars[mid..].iter().collect()]);
        }
    }
    let mut count = 0u32;
    let all = splits.iter().map(|cuts| split_at_cuts(&chars, cuts)).chain(with_empty);
    for pieces in all {
        count += 1;
        let d: R = match c {
            B16 => drive_stop::<base16::Decoder<Vec<u8>>>(&pieces),
            B32Hex => drive_stop::<base32::Decoder<Vec<u8>>>(&pieces),
            B64 => drive_stop::<base64::Decoder<Vec<u8>>>(&pieces),
        }
        .map_err(|e| format!("{e:?}"));
        vensure!(d == dec_whole, format!("{n}:chunking:decoder-differs"), "{n} Decoder fed {pieces:?}: {d:?}; whole text: {dec_whole:?}");
        for eot in [true, false] {
            let r = lib_convert(c, &pieces, eot);
            vensure!(same(&r, &conv_whole), format!("{n}:chunking:converter-differs"), "{n} SymbolConverter fed {pieces:?} (EndOfToken between pieces: {eot}): {r:?}; whole text: {conv_whole:?}");
        }
        if let Some(w) = &iter_whole {
            let r = iter_entry(c, &pieces);
            vensure!(same(&r, w), format!("{n}:chunking:iterscanner-entry-differs"), "{n} IterScanner::convert_entry over tokens {pieces:?}: {r:?}; one token: {w:?}");
        }
    }
    ctx.class(format!("chunking:pieces-{}", match splits.iter().map(|s| s.len() + 1).max().unwrap_or(1) { 1 => "1", 2..=4 => "2-4", _ => "5+" }));
    ctx.sample(|| format!("{} {:?} in {count} splits", n, show(&tc.text)));
    if len >= 2 && nontrivial_text(c, &tc.text, &class, tc.edit1) {
        ctx.nontrivial(&(c, &tc.text));
    }
    Ok(())
}

//------------ Sub-check: zonefile ----------------------------------------------

struct Tmpl {
    name: &'static str,
    codec: Codec,
    /// The field takes the rest of the entry (any number of tokens) rather
    /// than one token.
    entry: bool,
    pre: &'static str,
    post: &'static str,
}
const TMPLS: [Tmpl; 13] = [
    Tmpl { name: "DNSKEY", codec: B64, entry: true, pre: "DNSKEY 256 3 8 ", post: "" },
    Tmpl { name: "CDNSKEY", codec: B64, entry: true, pre: "CDNSKEY 257 3 13 ", post: "" },
    Tmpl { name: "OPENPGPKEY", codec: B64, entry: true, pre: "OPENPGPKEY ", post: "" },
    Tmpl { name: "RRSIG", codec: B64, entry: true, pre: "RRSIG A 8 2 3600 20300101000000 20000101000000 12345 example. ", post: "" },
    Tmpl { name: "IPSECKEY", codec: B64, entry: true, pre: "IPSECKEY 10 0 2 . ", post: "" },
    Tmpl { name: "DS", codec: B16, entry: true, pre: "DS 12345 8 2 ", post: "" },
    Tmpl { name: "CDS", codec: B16, entry: true, pre: "CDS 12345 8 2 ", post: "" },
    Tmpl { name: "SSHFP", codec: B16, entry: true, pre: "SSHFP 1 1 ", post: "" },
    Tmpl { name: "TLSA", codec: B16, entry: true, pre: "TLSA 3 1 1 ", post: "" },
    Tmpl { name: "ZONEMD", codec: B16, entry: true, pre: "ZONEMD 2018031900 1 1 ", post: "" },
    Tmpl { name: "NSEC3PARAM-salt", codec: B16, entry: false, pre: "NSEC3PARAM 1 0 10 ", post: "" },
    Tmpl { name: "NSEC3-salt", codec: B16, entry: false, pre: "NSEC3 1 0 10 ", post: " 2T7B4G4VSA5SMI47K61MV5BV1A22BOJR A RRSIG" },
    Tmpl { name: "NSEC3-hash", codec: B32Hex, entry: false, pre: "NSEC3 1 0 10 - ", post: " A RRSIG" },
];

/// Second family (sub-check `zonefile_ext`): fields whose text reaches the
/// codec by another road than `convert_entry`/`convert_token` of a typed
/// record -- the SVCB/HTTPS `ech=` parameter value (the record type drives
/// `base64::SymbolConverter` by hand over the octets delivered by
/// `scan_svcb_octets`: process_symbol per octet, then process_tail) and
/// the RFC 3597 generic form `\# <len> <hex>` of an unknown record type
/// (`UnknownRecordData::scan`). Kept in a table of its own so that the
/// byte-to-case mapping of `zonefile` (and its replay files) stays as is.
const TMPLS_EXT: [Tmpl; 5] = [
    Tmpl { name: "SVCB-ech", codec: B64, entry: false, pre: "SVCB 1 svc.example. ", post: "" },
    Tmpl { name: "HTTPS-ech", codec: B64, entry: false, pre: "HTTPS 1 . ", post: "" },
    Tmpl { name: "HTTPS-ech-mid", codec: B64, entry: false, pre: "HTTPS 1 . alpn=h2 ", post: " port=443" },
    Tmpl { name: "SVCB-ech-first", codec: B64, entry: false, pre: "SVCB 16 . ", post: " ipv4hint=192.0.2.1" },
    Tmpl { name: "GENERIC-hex", codec: B16, entry: true, pre: "TYPE65280 \\# ", post: "" },
];

fn field_octets(t: &Tmpl, data: &ZoneRecordData<bytes::Bytes, domain::zonefile::inplace::ScannedDname>) -> Option<Vec<u8>> {
    Some(match (t.name, data) {
        ("DNSKEY", ZoneRecordData::Dnskey(d)) => d.public_key().to_vec(),
        ("CDNSKEY", ZoneRecordData::Cdnskey(d)) => d.public_key().to_vec(),
        ("OPENPGPKEY", ZoneRecordData::Openpgpkey(d)) => d.key().to_vec(),
        ("RRSIG", ZoneRecordData::Rrsig(d)) => d.signature().to_vec(),
        ("IPSECKEY", ZoneRecordData::Ipseckey(d)) => d.key().to_vec(),
        ("DS", ZoneRecordData::Ds(d)) => d.digest().to_vec(),
        ("CDS", ZoneRecordData::Cds(d)) => d.digest().to_vec(),
        ("SSHFP", ZoneRecordData::Sshfp(d)) => d.fingerprint().to_vec(),
        ("TLSA", ZoneRecordData::Tlsa(d)) => d.data().to_vec(),
        ("ZONEMD", ZoneRecordData::Zonemd(d)) => d.digest().to_vec(),
        ("NSEC3PARAM-salt", ZoneRecordData::Nsec3param(d)) => d.salt().as_slice().to_vec(),
        ("NSEC3-salt", ZoneRecordData::Nsec3(d)) => d.salt().as_slice().to_vec(),
        ("NSEC3-hash", ZoneRecordData::Nsec3(d)) => d.next_owner().as_slice().to_vec(),
        ("SVCB-ech" | "SVCB-ech-first", ZoneRecordData::Svcb(d)) => d.params().ech()?.as_slice().to_vec(),
        ("HTTPS-ech" | "HTTPS-ech-mid", ZoneRecordData::Https(d)) => d.params().ech()?.as_slice().to_vec(),
        ("GENERIC-hex", ZoneRecordData::Unknown(d)) => d.data().to_vec(),
        _ => return None,
    })
}

/// How the escape sequences planted in a rendering bear on the outcome.
#[derive(Clone, Copy, PartialEq, Eq, Debug)]
enum Esc {
    /// None, or only `\X` with X a printable non-digit: RFC 1035 §5.1 makes
    /// that X itself, so the outcome is that of the plain text.
    Transparent,
    /// A `\DDD` with a printable ASCII value: RFC 1035 reads it as that
    /// character; the library's converters refuse decimal escapes. No
    /// outcome is demanded; if accepted the octets must be those of the
    /// plain text.
    Decimal,
    /// A malformed escape (`\` at the end, `\D`, `\DD`, value above 255):
    /// the token is not well-formed presentation format, must be rejected.
    Broken,
}

/// Writes a piece as a token with escape sequences (valid for both the
/// zone-file reader and `Symbols`); returns the text and whether the
/// zone-file rendering should put it in double quotes.
fn render_piece(u: &mut Unstructured, piece: &str, esc: &mut Esc, ctx: &mut Ctx) -> (String, bool) {
    let chars: Vec<char> = piece.chars().collect();
    match pick(u, 10) {
        0 => (piece.to_string(), true),
        1 => {
            let mut s = String::new();
            let mut any = false;
            for &ch in &chars {
                // never "\#": as a token of its own that is the RFC 3597
                // generic-RDATA marker
                if (0x21..=0x7e).contains(&(ch as u32)) && !ch.is_ascii_digit() && ch != '#' && chance(u, 100) {
                    s.push('\\');
                    any = true;
                }
                s.push(ch);
            }
            if any {
                ctx.class("escape:simple");
            }
            (s, false)
        }
        2 if !chars.is_empty() => {
            // one printable character as \DDD
            let p = pick(u, chars.len());
            let mut s = String::new();
            for (i, &ch) in chars.iter().enumerate() {
                if i == p && (0x21..=0x7e).contains(&(ch as u32)) {
                    s.push_str(&format!("\\{:03}", ch as u32));
                    if *esc == Esc::Transparent {
                        *esc = Esc::Decimal;
                    }
                    ctx.class("escape:decimal");
                } else {
                    s.push(ch);
                }
            }
            (s, false)
        }
        3 => {
            // a malformed escape where the next character is not a digit
            let mut spots: Vec<usize> = (0..=chars.len()).filter(|&i| i == chars.len() || !chars[i].is_ascii_digit()).collect();
            let lone = flag(u);
            if lone {
                // a lone backslash is malformed only at the very end
                spots = vec![chars.len()];
            }
            let p = spots[pick(u, spots.len())];
            let bad = if lone { "\\" } else { ["\\9", "\\99", "\\256", "\\999", "\\2", "\\25"][pick(u, 6)] };
            let mut s: String = chars[..p].iter().collect();
            s.push_str(bad);
            s.extend(chars[p..].iter());
            *esc = Esc::Broken;
            ctx.class("escape:broken");
            (s, false)
        }
        _ => (piece.to_string(), false),
    }
}

/// Outcome check under an escape mode.
fn check_escaped(c: Codec, entry: &str, shown: &str, class: &Class, esc: Esc, got: Result<&[u8], String>) -> CaseResult {
    match esc {
        Esc::Transparent => check_outcome(c, entry, shown, class, got),
        Esc::Broken => check_outcome(c, entry, shown, &Class::Invalid("malformed-escape-sequence"), got),
        Esc::Decimal => match got {
            Err(_) => Ok(()),
            Ok(g) => check_outcome(c, entry, shown, class, Ok(g)),
        },
    }
}

fn run_zonefile(data: &[u8], ctx: &mut Ctx) -> CaseResult {
    run_zonefile_with(data, ctx, &TMPLS)
}

fn run_zonefile_ext(data: &[u8], ctx: &mut Ctx) -> CaseResult {
    run_zonefile_with(data, ctx, &TMPLS_EXT)
}

fn run_zonefile_with(data: &[u8], ctx: &mut Ctx, tmpls: &[Tmpl]) -> CaseResult {
    let mut u = Unstructured::new(data);
    let ti = pick(&mut u, tmpls.len());
    let t = &tmpls[ti];
    let c = t.codec;
    let n = c.name();
    let is_salt = t.name.ends_with("-salt");
    let is_nsec3 = t.name.starts_with("NSEC3");
    let is_ech = t.name.contains("-ech");
    let is_generic = t.name == "GENERIC-hex";
    // text for this codec: token-safe characters only
    let mut tc = gen_text(&mut u, Some(c), true, false);
    if is_salt && chance(&mut u, 24) {
        // RFC 5155 §3.3: "-" is the empty salt; its neighbours are not
        tc.text = ["-", "--", "-00", "00-", "-\u{2d}"][pick(&mut u, 4)].to_string();
        tc.edit1 = false;
    }
    let chars: Vec<char> = tc.text.chars().filter(|&ch| token_safe(ch)).collect();
    let text: String = chars.iter().collect();
    let mut class = rf::classify(c.spec(), &text);
    if is_salt && text == "-" {
        class = Class::Canonical(vec![]);
        ctx.class("zonefile:salt-dash");
    }
    if !t.entry && text.is_empty() {
        // a token cannot be empty
        ctx.class("zonefile:skipped-empty-token");
        return Ok(());
    }
    if t.name == "IPSECKEY" && matches!(&class, Class::Canonical(v) | Class::TrailingBits(v) if v.is_empty()) {
        // RFC 4025: no key only with algorithm 0; the record type rejects
        // this for its own reasons
        ctx.class("zonefile:skipped-ipseckey-empty-key");
        return Ok(());
    }
    if is_nsec3 {
        // NSEC3 salt and hash hold at most 255 octets
        if let Class::Canonical(v) | Class::TrailingBits(v) = &class {
            if v.len() > 255 {
                ctx.class("zonefile:nsec3-field-longer-than-255");
                class = Class::Invalid("nsec3-field-longer-than-255-octets");
            }
        }
    }
    classes_for_text(c, &text, &rf::classify(c.spec(), &text), ctx);

    // pieces
    let pieces: Vec<String> = if t.entry && !chars.is_empty() {
        let k = pick(&mut u, 6).min(chars.len() - 1);
        let mut cuts: Vec<usize> = (0..k).map(|_| 1 + pick(&mut u, chars.len() - 1)).collect();
        cuts.sort();
        cuts.dedup();
        split_at_cuts(&chars, &cuts)
    } else if chars.is_empty() {
        vec![]
    } else {
        vec![text.clone()]
    };
    ctx.class(format!("zonefile:tokens-{}", match pieces.len() { 0 => "0", 1 => "1", 2..=3 => "2-3", _ => "4+" }));

    // render
    let mut esc = Esc::Transparent;
    let mut need_parens = flag(&mut u);
    let mut body = String::new();
    let mut tokens: Vec<String> = vec![];
    let mut whole_quoted = false;
    for (i, p) in pieces.iter().enumerate() {
        if i > 0 {
            let sep = match pick(&mut u, 7) {
                0 => "\t",
                1 => "  \t ",
                2 => {
                    need_parens = true;
                    ctx.class("zonefile:newline-between-tokens");
                    "\n"
                }
                3 => {
                    need_parens = true;
                    ctx.class("zonefile:comment-between-tokens");
                    " ; Zg== 00 CO\n  "
                }
                4 => {
                    need_parens = true;
                    "\r\n\t"
                }
                _ => " ",
            };
            body.push_str(sep);
        }
        let (tok, quoted) = render_piece(&mut u, p, &mut esc, ctx);
        if is_ech {
            // RFC 9460 section 2.1: SvcParam = SvcParamKey ["=" SvcParamValue],
            // the value a char-string, i.e. contiguous or quoted
            if !quoted {
                body.push_str("ech=");
                body.push_str(&tok);
            } else if !flag(&mut u) {
                ctx.class("zonefile:ech-quoted-value");
                body.push_str(&format!("ech=\"{tok}\""));
            } else {
                // the whole parameter in quotes: not in the RFC's grammar,
                // the reader takes it; no outcome demanded for well-formed
                // values, but never wrong octets or an accepted malformed one
                ctx.class("zonefile:ech-quoted-param");
                body.push_str(&format!("\"ech={tok}\""));
                whole_quoted = true;
            }
        } else if quoted {
            ctx.class("zonefile:quoted-token");
            body.push('"');
            body.push_str(&tok);
            body.push('"');
        } else {
            body.push_str(&tok);
        }
        tokens.push(tok);
    }
    let pre: String = if is_generic {
        // RFC 3597 section 5: "\# <length> <hex>"; the length announced is
        // the one the reference decodes (for malformed text: any)
        let len = match &class {
            Class::Canonical(v) | Class::TrailingBits(v) => v.len(),
            Class::Invalid(_) => chars.len() / 2 + pick(&mut u, 2),
        };
        format!("{}{} ", t.pre, len)
    } else {
        t.pre.to_string()
    };
    let rdata = if need_parens {
        ctx.class("zonefile:parenthesised");
        match pick(&mut u, 3) {
            0 => format!("{}( {} ){}", pre, body, t.post),
            1 => format!("{}(\n\t{}\n){}", pre, body, t.post),
            _ => format!("( {}{}{} )", pre, body, t.post),
        }
    } else {
        format!("{}{}{}", pre, body, t.post)
    };
    let zone = format!("x.example. 3600 IN {rdata}\nnext.example. 3600 IN A 192.0.2.1\n");
    ctx.sample(|| format!("{} field of {}: {:?}", n, t.name, show(&zone)));

    let mut zf = Zonefile::from(zone.as_str());
    let first = zf.next_entry();
    let got: Result<Vec<u8>, String> = match first {
        Ok(Some(Entry::Record(rec))) => match field_octets(t, rec.data()) {
            Some(v) => Ok(v),
            None => vfail!(format!("zonefile:{}:wrong-record-type", t.name), "{:?} parsed to {:?}", show(&zone), rec.data()),
        },
        Ok(Some(other)) => vfail!(format!("zonefile:{}:not-a-record", t.name), "{:?} parsed to {other:?}", show(&zone)),
        Ok(None) => vfail!(format!("zonefile:{}:no-entry", t.name), "{:?} gave no entry", show(&zone)),
        Err(e) => Err(e.to_string()),
    };
    ctx.class(format!("zonefile:{}:{}", t.name, if got.is_ok() { "accepted" } else { "rejected" }));
    // (a wholly quoted parameter is outside the RFC 9460 grammar: like a
    // decimal escape, rejecting it is fine, accepting it binds the octets)
    let esc_zone = if whole_quoted && esc == Esc::Transparent { Esc::Decimal } else { esc };
    check_escaped(c, &format!("zonefile:{}", t.name), &zone, &class, esc_zone, got.as_ref().map(|v| &v[..]).map_err(|e| e.clone()))?;
    if got.is_ok() {
        // the reader is still in step: the next line is the A record
        match zf.next_entry() {
            Ok(Some(Entry::Record(rec))) => {
                let ok = rec.owner().name_eq(&Name::<Vec<u8>>::from_str("next.example.").unwrap()) && matches!(rec.data(), ZoneRecordData::A(a) if a.addr() == std::net::Ipv4Addr::new(192, 0, 2, 1));
                vensure!(ok, format!("zonefile:{}:next-record-damaged", t.name), "after {:?} the next record reads {rec:?}", show(&zone));
            }
            other => vfail!(format!("zonefile:{}:next-record-lost", t.name), "after {:?} the next entry is {other:?}", show(&zone)),
        }
        match zf.next_entry() {
            Ok(None) => {}
            other => vfail!(format!("zonefile:{}:spurious-entry", t.name), "after both records of {:?}: {other:?}", show(&zone)),
        }
    }

    // the same tokens (escapes included, no quoting) through IterScanner
    let shown = tokens.join(" ");
    if is_ech {
        // the value parser itself, handed the plain text as the octets of
        // the value (what scan_svcb_octets delivers after unescaping)
        let mut sc = IterScanner::<_, Vec<u8>>::new(std::iter::empty::<&str>());
        let r: R = match Ech::<Vec<u8>>::value_from_scan_octets(&mut sc, SvcParamKey::ECH, text.as_bytes()) {
            Ok(Some(e)) => {
                // and its display form is "ech=" + the RFC 4648 encoding
                let shown = e.to_string();
                let want = format!("ech={}", rf::encode(c.spec(), e.as_slice()));
                vensure!(e.as_slice().is_empty() || shown == want, "b64:ech-display:differs-from-rfc4648", "Ech of {} displays as {:?}, reference {:?}", hex(e.as_slice()), shown, want);
                Ok(e.as_slice().to_vec())
            }
            Ok(None) => vfail!("b64:ech-value-scan:key-not-recognised", "value_from_scan_octets(ECH, {:?}) returned None", show(&text)),
            Err(e) => Err(e.to_string()),
        };
        check_outcome(c, "ech-value-scan", &text, &class, r.as_ref().map(|v| &v[..]).map_err(|e| e.clone()))?;
    } else if is_generic {
        // the same tokens behind "<len>" through UnknownRecordData on an
        // IterScanner
        let len = pre[t.pre.len()..].trim().to_string();
        let mut all: Vec<&str> = vec![len.as_str()];
        all.extend(tokens.iter().map(|s| s.as_str()));
        let mut sc = IterScanner::<_, Vec<u8>>::new(all.into_iter());
        let r: R = UnknownRecordData::scan_without_marker(Rtype::from_int(65280), &mut sc).map(|d| d.data().to_vec()).map_err(|e| e.to_string());
        check_escaped(c, "generic-rdata-scan", &shown, &class, esc, r.as_ref().map(|v| &v[..]).map_err(|e| e.clone()))?;
        let r = iter_entry(c, &tokens);
        check_escaped(c, "iterscanner-entry", &shown, &class, esc, r.as_ref().map(|v| &v[..]).map_err(|e| e.clone()))?;
    } else if t.entry {
        let r = iter_entry(c, &tokens);
        check_escaped(c, "iterscanner-entry", &shown, &class, esc, r.as_ref().map(|v| &v[..]).map_err(|e| e.clone()))?;
        if tokens.len() == 1 {
            let r = iter_token(c, &tokens[0]);
            check_escaped(c, "iterscanner-token", &shown, &class, esc, r.as_ref().map(|v| &v[..]).map_err(|e| e.clone()))?;
        }
    } else {
        let mut sc = IterScanner::<_, Vec<u8>>::new(std::iter::once(tokens[0].as_str()));
        let r: R = if is_salt {
            Nsec3Salt::scan(&mut sc).map(|s| s.as_slice().to_vec()).map_err(|e| e.to_string())
        } else {
            OwnerHash::scan(&mut sc).map(|s| s.as_slice().to_vec()).map_err(|e| e.to_string())
        };
        check_escaped(c, if is_salt { "nsec3salt-scan" } else { "ownerhash-scan" }, &shown, &class, esc, r.as_ref().map(|v| &v[..]).map_err(|e| e.clone()))?;
    }
    if nontrivial_text(c, &text, &class, tc.edit1) {
        ctx.nontrivial(&(t.name, &zone));
    }
    Ok(())
}

//------------ Health ------------------------------------------------------------

fn health(c: &BTreeMap<String, u64>, _t: bool) -> Result<(), String> {
    let mut need: Vec<String> = vec![];
    for r in TABLE.iter().filter(|r| r.lib.is_some()) {
        let n = r.name;
        let block = r.spec.block();
        for l in ["canonical", "invalid", "lib-accepts", "invalid:non-alphabet-character", "octets-full-blocks"] {
            need.push(format!("{n}:{l}"));
        }
        if r.spec.bits != 4 {
            need.push(format!("{n}:octets-partial-block"));
        }
        for i in 0..block {
            need.push(format!("{n}:len%{block}={i}"));
        }
        if r.spec.bits != 4 {
            need.push(format!("{n}:noncanonical-trailing-bits"));
            need.push(format!("{n}:invalid:impossible-final-group-length"));
        }
    }
    for k in [
        "b64:pad-count=1", "b64:pad-count=2", "b64:pad-count=3", "b64:pad-count=4", "b64:invalid:wrong-padding-count", "b64:invalid:data-after-padding", "b32hex:invalid:padding-not-allowed", "b64:lib-error:IllegalChar", "b64:lib-error:TrailingInput",
        "b64:lib-error:ShortInput", "b32hex:lib-error:ShortInput", "b16:lib-error:ShortInput", "pad-in-the-middle", "pad-at-start", "empty-text", "char:non-ascii", "char:nul", "char:whitespace", "char:url-safe", "char:lower-case",
        "rejected-one-edit-from-valid", "op:valid", "op:set-trailing-bits", "op:set-pad-count", "op:pad-in-the-middle", "op:truncate", "chunking:all-splits", "chunking:every-single-cut", "chunking:sampled-splits", "zonefile:parenthesised",
        "zonefile:newline-between-tokens", "zonefile:comment-between-tokens", "zonefile:tokens-4+", "zonefile:quoted-token", "zonefile:salt-dash", "escape:simple", "escape:decimal", "escape:broken", "b64:octets-len-1024-4096", "b16:octets-len-1024-4096", "b32hex:octets-len-1024-4096",
    ] {
        need.push(k.to_string());
    }
    need.push("zonefile:ech-quoted-value".to_string());
    need.push("zonefile:ech-quoted-param".to_string());
    for t in TMPLS.iter().chain(TMPLS_EXT.iter()) {
        need.push(format!("zonefile:{}:accepted", t.name));
        need.push(format!("zonefile:{}:rejected", t.name));
    }
    for k in need {
        if c.get(&k).copied().unwrap_or(0) < 5 {
            return Err(format!("class {k} starved ({:?})", c.get(&k)));
        }
    }
    Ok(())
}

pub fn prop() -> Prop {
    Prop {
        id: "C18",
        rule: "case = (codec, octet string) or (codec, text[, split into pieces / zone-file rendering]); non-trivial = text length not a multiple of the codec's block (2/8/4 symbols), or text contains '=', or text is rejected by the reference and is one single-character edit away from a valid encoding (octet cases: length not a multiple of the block's octet count 1/5/3); distinct by (codec, text or octets)",
        assumptions: &[
            "reference: independent RFC 4648 transcoder (props/c18/rfc4648.rs, unit-tested on the RFC 4648 section 10 vectors), configured per module from the module docs: Base16 case-insensitive; Base32hex unpadded and case-insensitive; Base64 padded, case-sensitive",
            "non-zero pad bits in the last symbol (RFC 4648 section 3.5) have no demanded outcome: accept or reject, octets as the lenient reference if accepted",
            "standard-alphabet Base32 is not implemented by the library at this commit (base32.rs: 'currently only implements base32hex'); nothing to test",
            "Decoder::push takes one char, so splitting the text over calls is trivial there; chunking is exercised as token boundaries (EndOfToken symbols, IterScanner tokens, zone-file tokens incl. parentheses, newlines, comments)",
            "SymbolConverter is not called again after it returned an error (no documented contract for that); Decoder::push is (its doc allows it)",
        ],
        subchecks: vec![
            SubCheck::sweep("octets_sweep", run_octets_sweep, |_| SWEEP_OCTETS),
            SubCheck::sweep("text_sweep", run_text_sweep, text_sweep_total),
            SubCheck::new("roundtrip", run_roundtrip, 250_000, 3_000_000, 600),
            SubCheck::new("mutated_text", run_mutated, 800_000, 10_000_000, 400),
            SubCheck::new("chunking", run_chunking, 160_000, 2_000_000, 300),
            SubCheck::new("zonefile", run_zonefile, 250_000, 3_000_000, 400),
            SubCheck::new("zonefile_ext", run_zonefile_ext, 80_000, 1_000_000, 400),
            SubCheck::new("text_raw", run_text_raw, 300_000, 4_000_000, 200),
        ],
        health: Some(health),
        extra: None,
    }
}
