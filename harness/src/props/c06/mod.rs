//! C06 — records written in presentation format read back equal.
//!
//! Writer: `ZonefileFmt::display_zonefile(Simple | Tabbed | Multiline)` on
//! `Record<Name<Bytes>, ZoneRecordData<Bytes, Name<Bytes>>>` (which renders
//! unknown types in the RFC 3597 generic form). Reader:
//! `zonefile::inplace::Zonefile` with and without an origin. Oracle: both
//! records composed uncompressed are octet-for-octet equal.
use crate::engine::*;
use crate::gen::name::{self as gn, Labels};
use crate::gen::rdata as gr;
use crate::gen::*;
use crate::refimpl::rdata::{self as rr, F};
use crate::refimpl::wire;
use arbitrary::Unstructured;
use bytes::Bytes;
use domain::base::message::Message;
use domain::base::name::{FlattenInto, Name, ParsedName};
use domain::base::zonefile_fmt::{DisplayKind, ZonefileFmt};
use domain::base::Record;
use domain::rdata::ZoneRecordData;
use domain::zonefile::inplace::{Entry, Zonefile};
use std::collections::BTreeMap;

type ZData = ZoneRecordData<Bytes, Name<Bytes>>;
type ZRec = Record<Name<Bytes>, ZData>;

//------------ Case ----------------------------------------------------------

#[derive(Clone, Debug, PartialEq, Eq, Hash)]
struct Rec {
    owner: Labels,
    ttl: u32,
    rtype: u16,
    rdata: Vec<u8>,
}

#[derive(Clone, Debug, Hash)]
struct Case {
    kind: u8, // 0 simple, 1 tabbed, 2 multiline
    origin: Option<Labels>,
    class: u16,
    recs: Vec<Rec>,
}

#[derive(Clone, Copy, PartialEq, Eq, Debug)]
enum Mode {
    /// arbitrary octets everywhere
    Full,
    /// names and strings avoid the octets of the known (unfixed) findings
    Restricted,
    /// harness-written RFC 3597 generic form for every type
    Generic,
}

const KINDS: [&str; 3] = ["simple", "tabbed", "multiline"];

fn display_kind(k: u8) -> DisplayKind {
    match k {
        0 => DisplayKind::Simple,
        1 => DisplayKind::Tabbed,
        _ => DisplayKind::Multiline,
    }
}

/// Type codes without a typed representation in `ZoneRecordData`: private
/// use, unassigned, assigned but unimplemented (WKS 11, AFSDB 18, SINK 40,
/// SPF 99, URI 256), and the non-zone types the library knows (NULL 10).
const UNKNOWN_TYPES: &[u16] = &[99, 258, 1234, 65280, 65534, 32768, 11, 18, 40, 10, 256, 65535, 0x00ff + 2, 62];

fn gen_ttl(u: &mut Unstructured) -> u32 {
    match pick(u, 4) {
        0 => [0u32, 1, 3600, 0x7fff_ffff, 0x8000_0000, 0xffff_ffff, 86400, 60][pick(u, 8)],
        1 => u16_(u) as u32,
        _ => u32_(u),
    }
}

fn gen_class(u: &mut Unstructured) -> u16 {
    match pick(u, 8) {
        0..=3 => 1,
        4 => 3,
        5 => 4,
        6 => [2u16, 5, 0, 253, 254, 255, 256, 65535, 65280, 1000][pick(u, 10)],
        _ => u16_(u),
    }
}

/// Decoding does not depend on the tier: a replay file must decode to the
/// same case whichever tier replays it.
fn decode(u: &mut Unstructured, mode: Mode) -> Case {
    // Cheap structural choices first, bulky names last, so that short
    // inputs still give varied record types.
    let kind = pick(u, 3) as u8;
    let class = gen_class(u);
    let plain = false;
    let k = match pick(u, 8) {
        0..=3 => 1,
        4..=6 => 1 + pick(u, 4),
        _ => 1 + pick(u, 8),
    };
    let max_blob = if chance(u, 24) { 2000 } else { 300 };
    let origin_sel = pick(u, 6);
    let heads: Vec<(u16, u32, u8)> = (0..k)
        .map(|_| {
            let b = byte(u) as usize;
            let rtype = if b >= 232 {
                UNKNOWN_TYPES[(b - 232) * UNKNOWN_TYPES.len() / 24]
            } else {
                rr::ZONE_TYPES[b * rr::ZONE_TYPES.len() / 232]
            };
            (rtype, gen_ttl(u), byte(u))
        })
        .collect();
    let npool = 1 + pick(u, 3);
    let names = gn::pool(u, npool, plain);
    let mut recs = vec![];
    for (rtype, ttl, osel) in heads {
        let o = gr::Opts { plain_names: plain, max_blob };
        let rdata = gr::rdata(u, rtype, &names, o);
        let owner = match osel {
            0..=99 => names[osel as usize % names.len()].clone(),
            100..=119 => vec![],
            120..=139 => {
                let mut n = names[osel as usize % names.len()].clone();
                if gn::wire_len(&n) + 2 <= 255 {
                    n.insert(0, b"*".to_vec());
                }
                n
            }
            _ => gn::name(u, plain),
        };
        let mut r = Rec { owner, ttl, rtype, rdata };
        widen(u, &mut r);
        normalise(&mut r);
        if mode == Mode::Restricted {
            r = restrict(&r);
        }
        recs.push(r);
    }
    let origin = match origin_sel {
        0 | 1 | 2 => None,
        3 => Some(vec![b"example".to_vec(), b"com".to_vec()]),
        4 => Some(names[0].clone()),
        _ => Some(gn::name(u, plain)),
    };
    Case { kind, origin, class, recs }
}

/// Splits SVCB/HTTPS RDATA into the offset of the parameters and the list
/// of (key, value).
fn svc_split(r: &Rec) -> Option<(usize, Vec<(u16, Vec<u8>)>)> {
    if r.rtype != rr::SVCB && r.rtype != rr::HTTPS {
        return None;
    }
    let &(off, len, _, _) = rr::name_spans(r.rtype, &r.rdata).first()?;
    let start = off + len;
    let mut params: Vec<(u16, Vec<u8>)> = vec![];
    let mut p = start;
    while p + 4 <= r.rdata.len() {
        let k = u16::from_be_bytes([r.rdata[p], r.rdata[p + 1]]);
        let n = u16::from_be_bytes([r.rdata[p + 2], r.rdata[p + 3]]) as usize;
        if p + 4 + n > r.rdata.len() {
            return None;
        }
        params.push((k, r.rdata[p + 4..p + 4 + n].to_vec()));
        p += 4 + n;
    }
    Some((start, params))
}

fn svc_build(r: &mut Rec, start: usize, params: Vec<(u16, Vec<u8>)>) {
    r.rdata.truncate(start);
    for (k, v) in params {
        r.rdata.extend_from_slice(&k.to_be_bytes());
        r.rdata.extend_from_slice(&(v.len() as u16).to_be_bytes());
        r.rdata.extend_from_slice(&v);
    }
}

/// Removes the SVCB parameters with the given key (also from `mandatory`).
fn svc_without(r: &Rec, pred: &dyn Fn(u16) -> bool) -> Rec {
    let mut out = r.clone();
    if let Some((start, params)) = svc_split(r) {
        let mut keep: Vec<(u16, Vec<u8>)> = vec![];
        for (k, v) in params {
            if k != 0 && pred(k) {
                continue;
            }
            if k == 0 {
                let v2: Vec<u8> = v.chunks(2).filter(|c| c.len() == 2 && !pred(u16::from_be_bytes([c[0], c[1]]))).flatten().copied().collect();
                if !v2.is_empty() {
                    keep.push((0, v2));
                }
            } else {
                keep.push((k, v));
            }
        }
        svc_build(&mut out, start, keep);
    }
    out
}

/// Value spaces the shared generator covers only narrowly: ALPN ids with
/// arbitrary octets and `dohpath` values with arbitrary (UTF-8) text.
fn widen(u: &mut Unstructured, r: &mut Rec) {
    let Some((start, mut params)) = svc_split(r) else { return };
    if params.is_empty() || !flag(u) {
        return;
    }
    for (k, v) in params.iter_mut() {
        match *k {
            1 => {
                // "," and "\" inside an ALPN id are excluded: the reader
                // documents that it does not implement the value-list
                // escaping (RFC 9460 §7.1.1 allows that).
                let mut p = 0;
                while p < v.len() {
                    let l = v[p] as usize;
                    let e = (p + 1 + l).min(v.len());
                    for b in v[p + 1..e].iter_mut() {
                        let c = match pick(u, 4) {
                            0 | 1 => *b,
                            2 => gn::SPECIAL[pick(u, gn::SPECIAL.len())],
                            _ => byte(u),
                        };
                        if c != b',' && c != b'\\' {
                            *b = c;
                        }
                    }
                    p += 1 + l;
                }
            }
            7 => {
                const ASCII: &[u8] = b"/abcxyzABC019-._~{}?=;,()@$!*'+&:%#[]";
                const OTHER: &[&str] = &[" ", "\"", "\\", "\t", "\u{e9}", "\u{20ac}", "\u{1f600}", "\u{7f}", "\u{0}", "\n"];
                let n = pick(u, 24);
                let mut t = String::new();
                for _ in 0..n {
                    if chance(u, 40) {
                        t.push_str(OTHER[pick(u, OTHER.len())]);
                    } else {
                        t.push(ASCII[pick(u, ASCII.len())] as char);
                    }
                }
                *v = t.into_bytes();
            }
            _ => {}
        }
    }
    svc_build(r, start, params);
}

/// Keeps generated RDATA inside the domain that has a presentation format.
fn normalise(r: &mut Rec) {
    if let Some((start, params)) = svc_split(r) {
        // RFC 9460 §8: every key listed in "mandatory" must be present (the
        // reader enforces it). The shared generator lists `alpn` when
        // `mandatory` is the only parameter; drop such a parameter.
        let keys: Vec<u16> = params.iter().map(|x| x.0).collect();
        let ok = |v: &[u8]| v.chunks(2).all(|c| c.len() == 2 && keys.contains(&u16::from_be_bytes([c[0], c[1]])));
        if params.iter().any(|(k, v)| *k == 0 && !ok(v)) {
            svc_build(r, start, params.into_iter().filter(|p| p.0 != 0).collect());
        }
    }
    if let Some((start, mut params)) = svc_split(r) {
        // key 9 (tls-supported-groups) is typed in this version of the
        // library: a non-empty list of distinct 16-bit values. The shared
        // generator produces an opaque blob for it.
        let mut changed = false;
        for (k, v) in params.iter_mut() {
            if *k == 1 {
                // "," and "\" inside an ALPN id: the reader documents that
                // it does not implement the value-list escaping and rejects
                // them (RFC 9460 §7.1.1 allows that), so no text exists that
                // it would read back.
                let mut p = 0;
                while p < v.len() {
                    let e = (p + 1 + v[p] as usize).min(v.len());
                    for b in v[p + 1..e].iter_mut() {
                        if *b == b',' || *b == b'\\' {
                            *b = if *b == b',' { b'-' } else { b'_' };
                            changed = true;
                        }
                    }
                    p = e;
                }
            }
            if *k == 5 && v.is_empty() {
                // an ECHConfigList is never empty (2-octet length prefix);
                // the reader documents "ech requires a value"
                *v = vec![0, 0];
                changed = true;
            }
            if *k == 9 {
                let mut seen: Vec<[u8; 2]> = vec![];
                for c in v.chunks(2) {
                    if c.len() == 2 && !seen.contains(&[c[0], c[1]]) {
                        seen.push([c[0], c[1]]);
                    }
                }
                if seen.is_empty() {
                    seen.push([0, 0x1d]);
                }
                let nv: Vec<u8> = seen.into_iter().flatten().collect();
                if nv != *v {
                    *v = nv;
                    changed = true;
                }
            }
        }
        if changed {
            svc_build(r, start, params);
        }
    }
    if r.rtype == rr::ZONEMD && r.rdata.len() < 6 + 12 {
        // RFC 8976 §2.2.4: the digest is at least 12 octets (the library
        // rejects shorter ones when parsing).
        r.rdata.resize(6 + 12, 0x5a);
    }
    if r.rtype == rr::NSEC3 && r.rdata.len() >= 6 {
        // RFC 5155 §3.1.6/§3.2: hash length ranges from 1 to 255 and the
        // presentation format has no form for an empty next hashed owner.
        let s = r.rdata[4] as usize;
        if r.rdata.get(5 + s) == Some(&0) {
            r.rdata[5 + s] = 1;
            r.rdata.insert(6 + s, 0xab);
        }
    }
    if r.rtype == rr::TXT && r.rdata.is_empty() {
        // "TXT record data is not allowed to be empty" (Txt::from_octets
        // docs, RFC 1035 §3.3.14: one or more strings): the smallest TXT
        // value is one empty string.
        r.rdata.push(0);
    }
    if r.rtype == rr::IPSECKEY && r.rdata.len() >= 3 {
        // RFC 4025 §3.2: the public key field is omitted exactly when the
        // algorithm is 0; "algorithm n, no key" has no presentation form.
        let gwlen = match r.rdata[1] {
            1 => 4,
            2 => 16,
            3 => rr::name_spans(r.rtype, &r.rdata).first().map(|s| s.1).unwrap_or(0),
            _ => 0,
        };
        if r.rdata.len() == 3 + gwlen {
            r.rdata[2] = 0;
        }
    }
}

//------------ Field walker ----------------------------------------------------

/// Kinds of RDATA/record fields rendered through an escaping routine.
#[derive(Clone, Copy, PartialEq, Eq, Debug, PartialOrd, Ord)]
enum FK {
    Owner,
    RdataName,
    CharStr,
    Txt,
    CaaValue,
    SvcAlpn,
    SvcDohpath,
    SvcOpaque,
    /// Base16/32/64 rendered field (never sanitised; for class labels only)
    Binary,
}
const FKS: [FK; 8] =
    [FK::Owner, FK::RdataName, FK::CharStr, FK::Txt, FK::CaaValue, FK::SvcAlpn, FK::SvcDohpath, FK::SvcOpaque];

impl FK {
    fn name(self) -> &'static str {
        match self {
            FK::Owner => "owner",
            FK::RdataName => "rdata-name",
            FK::CharStr => "charstr",
            FK::Txt => "txt",
            FK::CaaValue => "caa-value",
            FK::SvcAlpn => "svcparam-alpn",
            FK::SvcDohpath => "svcparam-dohpath",
            FK::SvcOpaque => "svcparam-opaque",
            FK::Binary => "binary",
        }
    }
}

/// Content ranges (offset, len) of the escaped fields of uncompressed
/// RDATA: name label contents, char-string contents, CAA value, SVCB alpn
/// ids and opaque SVCB values.
fn rdata_spans(rtype: u16, rd: &[u8]) -> Vec<(FK, usize, usize)> {
    let mut out = vec![];
    let Some(fields) = rr::schema(rtype) else { return out };
    let end = rd.len();
    let mut pos = 0usize;
    let mut gw = 0u8;
    let name_at = |pos: usize, out: &mut Vec<(FK, usize, usize)>| -> Option<usize> {
        let mut p = pos;
        loop {
            let n = *rd.get(p)? as usize;
            p += 1;
            if n == 0 {
                return Some(p);
            }
            if n > 63 || p + n > end {
                return None;
            }
            out.push((FK::RdataName, p, n));
            p += n;
        }
    };
    for (i, f) in fields.iter().enumerate() {
        if pos > end {
            return out;
        }
        match *f {
            F::U8 => {
                if rtype == rr::IPSECKEY && i == 1 && pos < end {
                    gw = rd[pos];
                }
                pos += 1
            }
            F::U16 => pos += 2,
            F::U32 => pos += 4,
            F::U48 => pos += 6,
            F::Fixed(n) => pos += n,
            F::Name { .. } => match name_at(pos, &mut out) {
                Some(p) => pos = p,
                None => return out,
            },
            F::CharStr => {
                if pos >= end {
                    return out;
                }
                let n = rd[pos] as usize;
                out.push((FK::CharStr, pos + 1, n));
                pos += 1 + n;
            }
            F::CharStrs => {
                while pos < end {
                    let n = rd[pos] as usize;
                    if pos + 1 + n > end {
                        return out;
                    }
                    out.push((FK::Txt, pos + 1, n));
                    pos += 1 + n;
                }
            }
            F::Len8 => {
                if pos >= end {
                    return out;
                }
                out.push((FK::Binary, pos + 1, rd[pos] as usize));
                pos += 1 + rd[pos] as usize;
            }
            F::CaaTag => {
                if pos >= end {
                    return out;
                }
                pos += 1 + rd[pos] as usize;
            }
            F::Len16 => {
                if pos + 2 > end {
                    return out;
                }
                pos += 2 + u16::from_be_bytes([rd[pos], rd[pos + 1]]) as usize;
            }
            F::IpsecGateway => match gw {
                1 => pos += 4,
                2 => pos += 16,
                3 => match name_at(pos, &mut out) {
                    Some(p) => pos = p,
                    None => return out,
                },
                _ => {}
            },
            F::Rest => {
                if rtype == rr::CAA && pos <= end {
                    out.push((FK::CaaValue, pos, end - pos));
                } else if pos <= end {
                    out.push((FK::Binary, pos, end - pos));
                }
                pos = end;
            }
            F::SvcParams => {
                while pos + 4 <= end {
                    let k = u16::from_be_bytes([rd[pos], rd[pos + 1]]);
                    let n = u16::from_be_bytes([rd[pos + 2], rd[pos + 3]]) as usize;
                    let v = pos + 4;
                    if v + n > end {
                        return out;
                    }
                    match k {
                        1 => {
                            let mut p = v;
                            while p < v + n {
                                let l = rd[p] as usize;
                                if p + 1 + l > v + n {
                                    break;
                                }
                                out.push((FK::SvcAlpn, p + 1, l));
                                p += 1 + l;
                            }
                        }
                        0 | 2 | 3 | 4 | 5 | 6 | 8 | 9 => {}
                        7 => out.push((FK::SvcDohpath, v, n)),
                        _ => out.push((FK::SvcOpaque, v, n)),
                    }
                    pos = v + n;
                }
                pos = end;
            }
            F::Bitmap | F::OptOptions => pos = end,
        }
    }
    out
}

//------------ Octet classes -----------------------------------------------------

/// Classes of octets that presentation format treats specially.
const OCS: [&str; 16] = [
    "dquote", "paren", "semicolon", "space", "tab", "newline", "ctl", "del", "high", "backslash", "dot", "at", "dollar",
    "hash", "comma", "other-punct",
];

fn oc_of(b: u8) -> Option<usize> {
    Some(match b {
        b'"' => 0,
        b'(' | b')' => 1,
        b';' => 2,
        b' ' => 3,
        b'\t' => 4,
        b'\n' | b'\r' => 5,
        0..=0x1f => 6,
        0x7f => 7,
        0x80..=0xff => 8,
        b'\\' => 9,
        b'.' => 10,
        b'@' => 11,
        b'$' => 12,
        b'#' => 13,
        b',' => 14,
        b'0'..=b'9' | b'a'..=b'z' | b'A'..=b'Z' | b'-' | b'_' => return None,
        _ => 15,
    })
}

/// Replaces every octet `b` of the selected field kinds for which
/// `sel(fk, class-of-b)` holds by `x`.
fn sanitize(r: &Rec, sel: &dyn Fn(FK, usize) -> bool) -> Rec {
    let mut out = r.clone();
    for l in out.owner.iter_mut() {
        // the wildcard label is not a special octet
        if l.as_slice() == b"*" {
            continue;
        }
        for b in l.iter_mut() {
            if let Some(c) = oc_of(*b) {
                if sel(FK::Owner, c) {
                    *b = b'x';
                }
            }
        }
    }
    for (fk, off, len) in rdata_spans(r.rtype, &r.rdata) {
        if fk == FK::Binary || (fk == FK::RdataName && &r.rdata[off..off + len] == b"*") {
            continue;
        }
        for b in out.rdata[off..off + len].iter_mut() {
            if let Some(c) = oc_of(*b) {
                if sel(fk, c) {
                    *b = b'x';
                }
            }
        }
    }
    out
}

/// (field kind, octet class) pairs present in the record.
fn present(r: &Rec) -> Vec<(FK, usize)> {
    let mut v = vec![];
    for l in &r.owner {
        if l.as_slice() == b"*" {
            continue;
        }
        for &b in l {
            if let Some(c) = oc_of(b) {
                v.push((FK::Owner, c));
            }
        }
    }
    for (fk, off, len) in rdata_spans(r.rtype, &r.rdata) {
        if fk == FK::Binary || (fk == FK::RdataName && &r.rdata[off..off + len] == b"*") {
            continue;
        }
        for &b in &r.rdata[off..off + len] {
            if let Some(c) = oc_of(b) {
                v.push((fk, c));
            }
        }
    }
    v.sort();
    v.dedup();
    v
}

/// The (field kind, octet class) pairs excluded in restricted mode: exactly
/// the shapes of the known, unfixed findings (see known_findings.d/C06.json).
fn excluded(fk: FK, oc: usize) -> bool {
    let _ = (fk, oc);
    false
}

fn restrict(r: &Rec) -> Rec {
    let r = sanitize(r, &|fk, oc| excluded(fk, oc));
    // C06-F1: no-default-alpn is written under a name the reader rejects
    svc_without(&r, &|k| k == 2)
}

//------------ Typed value, writer, reader ----------------------------------------

fn record_wire(r: &Rec, class: u16) -> Vec<u8> {
    let mut a = wire::Asm::new(0, 0);
    a.record(1, &r.owner, r.rtype, class, r.ttl, &r.rdata);
    a.buf[12..].to_vec()
}

/// Parses the generated wire record into the typed, flat value.
fn typed(r: &Rec, class: u16) -> Result<ZRec, String> {
    let mut a = wire::Asm::new(0, 0);
    a.record(1, &r.owner, r.rtype, class, r.ttl, &r.rdata);
    let msg = Message::from_octets(Bytes::from(a.buf)).map_err(|e| format!("message: {e}"))?;
    let mut sec = msg.answer().map_err(|e| format!("answer: {e}"))?;
    let pr = sec.next().ok_or("no record")?.map_err(|e| format!("record: {e}"))?;
    let rec = pr
        .to_record::<ZoneRecordData<Bytes, ParsedName<Bytes>>>()
        .map_err(|e| format!("rdata: {e}"))?
        .ok_or("to_record gave None")?;
    let flat: ZRec = rec.flatten_into();
    Ok(flat)
}

fn compose<N: domain::base::ToName, D: domain::base::rdata::RecordData + domain::base::rdata::ComposeRecordData>(
    r: &Record<N, D>,
) -> Vec<u8> {
    let mut v = Vec::new();
    r.compose(&mut v).expect("compose into Vec");
    v
}

fn write_record(rec: &ZRec, kind: u8) -> Result<String, String> {
    use std::fmt::Write;
    let mut s = String::new();
    write!(s, "{}", rec.display_zonefile(display_kind(kind))).map_err(|_| "fmt::Error".to_string())?;
    s.push('\n');
    Ok(s)
}

/// Harness-side writer for the RFC 3597 generic form; names are written
/// with every octet outside [A-Za-z0-9-_] as a decimal escape.
fn write_generic(r: &Rec, class: u16, kind: u8) -> String {
    let mut s = String::new();
    if r.owner.is_empty() {
        s.push('.');
    }
    for l in &r.owner {
        for &b in l {
            if b.is_ascii_alphanumeric() || b == b'-' || b == b'_' {
                s.push(b as char);
            } else {
                s.push_str(&format!("\\{b:03}"));
            }
        }
        s.push('.');
    }
    let sep = if kind == 1 { '\t' } else { ' ' };
    let cls = match class {
        1 => "IN".to_string(),
        3 => "CH".to_string(),
        4 => "HS".to_string(),
        n => format!("CLASS{n}"),
    };
    s.push(sep);
    s.push_str(&r.ttl.to_string());
    s.push(sep);
    s.push_str(&cls);
    s.push(sep);
    // kind 0: mnemonic where there is one, else TYPEn
    if kind == 2 {
        s.push_str(&format!("TYPE{}", r.rtype));
    } else {
        s.push_str(&rr::mnemonic(r.rtype));
    }
    s.push(sep);
    s.push_str(&format!("\\# {}", r.rdata.len()));
    if kind == 2 && !r.rdata.is_empty() {
        s.push_str(" (");
    }
    for (i, b) in r.rdata.iter().enumerate() {
        // hex in words of varying length, upper and lower case
        if i % 7 == 0 {
            s.push(if kind == 2 && i > 0 && i % 21 == 0 { '\n' } else { ' ' });
        }
        if i % 2 == 0 {
            s.push_str(&format!("{b:02x}"));
        } else {
            s.push_str(&format!("{b:02X}"));
        }
    }
    if kind == 2 && !r.rdata.is_empty() {
        s.push_str(" )");
    }
    s.push('\n');
    s
}

#[derive(Debug)]
struct Fail {
    phase: &'static str,
    detail: String,
}

/// Reads `text` and compares with the expected uncompressed compositions.
fn read_and_compare(text: &str, origin: &Option<Labels>, expect: &[Vec<u8>]) -> Result<(), Fail> {
    let mut zf = Zonefile::from(text.as_bytes());
    if let Some(o) = origin {
        zf.set_origin(gn::to_name_bytes(o));
    }
    let mut i = 0usize;
    loop {
        match zf.next_entry() {
            Err(e) => {
                return Err(Fail { phase: "reader-error", detail: format!("entry {i}: {e}") });
            }
            Ok(None) => break,
            Ok(Some(Entry::Include { .. })) => {
                return Err(Fail { phase: "not-a-record", detail: format!("entry {i} read as $INCLUDE") });
            }
            Ok(Some(Entry::Record(rec))) => {
                if i >= expect.len() {
                    return Err(Fail { phase: "extra-record", detail: format!("more than {} records read", expect.len()) });
                }
                let got = compose(&rec);
                if got != expect[i] {
                    return Err(Fail {
                        phase: "differs",
                        detail: format!("record {i}:\n  written {}\n  read    {}", hex(&expect[i]), hex(&got)),
                    });
                }
                i += 1;
            }
        }
    }
    if i != expect.len() {
        return Err(Fail { phase: "missing-record", detail: format!("{i} records read, {} written", expect.len()) });
    }
    Ok(())
}

fn hex(b: &[u8]) -> String {
    let mut s = String::new();
    for (i, x) in b.iter().enumerate() {
        if i >= 300 {
            s.push('…');
            break;
        }
        s.push_str(&format!("{x:02x}"));
    }
    s
}

/// One full write/read round trip of a file of records. Ok(text) on success.
fn roundtrip(recs: &[Rec], class: u16, kind: u8, origin: &Option<Labels>, mode: Mode) -> Result<String, (Fail, String)> {
    let mut text = String::new();
    let mut expect = vec![];
    for r in recs {
        let t = match typed(r, class) {
            Ok(t) => t,
            Err(e) => return Err((Fail { phase: "gen-rejected", detail: e }, String::new())),
        };
        expect.push(compose(&t));
        if mode == Mode::Generic {
            text.push_str(&write_generic(r, class, kind));
        } else {
            match write_record(&t, kind) {
                Ok(s) => text.push_str(&s),
                Err(e) => return Err((Fail { phase: "writer-error", detail: e }, text)),
            }
        }
    }
    match guarded("zonefile reader", || read_and_compare(&text, origin, &expect)) {
        Ok(Ok(())) => Ok(text),
        Ok(Err(f)) => Err((f, text)),
        Err(v) => Err((Fail { phase: "reader-panic", detail: v.detail }, text)),
    }
}

//------------ Attribution of a failure to a writer routine ----------------------

/// Signature of the failure of a single record: which escaped field kind
/// and which octet class is by itself sufficient to make the round trip
/// fail (everything else replaced by harmless octets).
fn attribute(r: &Rec, class: u16, kind: u8, origin: &Option<Labels>, mode: Mode, f: &Fail) -> String {
    let fails = |x: &Rec| roundtrip(std::slice::from_ref(x), class, kind, origin, mode).is_err();
    // no case-specific values in signatures: unknown type codes are "unknown"
    let ty = if rr::schema(r.rtype).is_some() { rr::mnemonic(r.rtype) } else { "unknown".to_string() };
    let pres = present(r);
    // nothing special anywhere → not an escaping problem
    let all_clean = sanitize(r, &|_, _| true);
    if pres.is_empty() || fails(&all_clean) {
        if let Some((_, params)) = svc_split(&all_clean) {
            // which single parameter is enough to make it fail?
            for (k, _) in &params {
                if *k == 0 {
                    continue;
                }
                let only = svc_without(&all_clean, &|x| x != *k);
                if fails(&only) {
                    return format!("roundtrip:{}:{ty}:svcparam-key{k}", f.phase);
                }
            }
        }
        return format!("roundtrip:{}:{ty}", f.phase);
    }
    for fk in FKS {
        if !pres.iter().any(|p| p.0 == fk) {
            continue;
        }
        // isolate the field kind
        let only_fk = sanitize(r, &|k, _| k != fk);
        if !fails(&only_fk) {
            continue;
        }
        for (oc, ocname) in OCS.iter().enumerate() {
            if !pres.contains(&(fk, oc)) {
                continue;
            }
            let only = sanitize(r, &|k, c| !(k == fk && c == oc));
            if fails(&only) {
                let fkn = if fk == FK::CharStr { format!("charstr-{ty}") } else { fk.name().to_string() };
                return format!("unescaped:{fkn}:{ocname}");
            }
        }
        return format!("unescaped:{}:combination", fk.name());
    }
    format!("unescaped:combination:{ty}")
}

//------------ The check ------------------------------------------------------------

fn nontrivial_text(text: &str, case: &Case) -> bool {
    text.contains('\\')
        || text.contains('"')
        || case.recs.iter().any(|r| {
            r.owner.iter().any(|l| l.iter().any(|b| !(b.is_ascii_alphanumeric() || *b == b'-')))
                || rr::schema(r.rtype).map(|s| s.len() > 1 || matches!(s[0], F::Rest)).unwrap_or(true)
        })
}

fn run_mode(data: &[u8], ctx: &mut Ctx, mode: Mode) -> CaseResult {
    let mut u = Unstructured::new(data);
    let case = decode(&mut u, mode);
    let kname = KINDS[case.kind as usize];
    ctx.class(format!("kind:{kname}"));
    ctx.class(if case.origin.is_some() { "origin:set" } else { "origin:none" });
    ctx.class(match case.class {
        1 => "class:IN",
        3 => "class:CH",
        4 => "class:HS",
        _ => "class:CLASSn",
    });
    ctx.class(format!("records:{}", case.recs.len().min(4)));
    for r in &case.recs {
        let known = rr::schema(r.rtype).is_some() && r.rtype != rr::NULL;
        if known {
            ctx.class(format!("type:{}:{kname}", rr::mnemonic(r.rtype)));
        } else {
            ctx.class(format!("type:unknown:{kname}"));
        }
        match r.ttl {
            0 => ctx.class("ttl:0"),
            0x7fff_ffff => ctx.class("ttl:2^31-1"),
            0x8000_0000 => ctx.class("ttl:2^31"),
            0xffff_ffff => ctx.class("ttl:2^32-1"),
            _ => {}
        }
        if r.owner.is_empty() {
            ctx.class("owner:root");
        }
        if gn::wire_len(&r.owner) >= 254 {
            ctx.class("owner:max-length");
        }
        if r.rdata.is_empty() {
            ctx.class("rdata:empty");
        }
        for (fk, oc) in present(r) {
            ctx.class(format!("octets:{}:{}", fk.name(), OCS[oc]));
        }
        for (fk, _, len) in rdata_spans(r.rtype, &r.rdata) {
            match (fk, len) {
                (FK::CharStr, 0) | (FK::Txt, 0) => ctx.class("string:empty"),
                (FK::CharStr, 255) | (FK::Txt, 255) => ctx.class("string:255"),
                (FK::CaaValue, 0) => ctx.class("caa-value:empty"),
                (FK::Binary, 0) => ctx.class("binary:empty"),
                (FK::Binary, n) => ctx.class(format!("binary:len%3={},len%5={}", n % 3, n % 5)),
                _ => {}
            }
        }
        if r.rtype == rr::TXT && r.rdata == [0] {
            ctx.class("txt:one-empty-string");
        }
        if r.rtype == rr::NSEC3 || r.rtype == rr::NSEC3PARAM {
            if r.rdata.get(4) == Some(&0) {
                ctx.class("nsec3:empty-salt");
            }
        }
    }

    // typed values must exist (generator validity; C05 covers parse itself)
    for r in &case.recs {
        if let Ok(t) = typed(r, case.class) {
            if compose(&t) != record_wire(r, case.class) {
                // parse/compose fidelity is C05's business; recorded only
                ctx.class("note:typed-compose-differs-from-generated-wire");
            }
        }
        if let Err(e) = typed(r, case.class) {
            ctx.class(format!("gen-rejected:{}", rr::mnemonic(r.rtype)));
            ctx.sample(|| format!("generator output rejected by the library: {} {e} rdata={}", rr::mnemonic(r.rtype), hex(&r.rdata)));
            return Ok(());
        }
    }

    match roundtrip(&case.recs, case.class, case.kind, &case.origin, mode) {
        Ok(text) => {
            if nontrivial_text(&text, &case) {
                ctx.nontrivial(&case);
            }
            ctx.sample(|| {
                let mut o = case.origin.as_ref().map(gn::show).unwrap_or_else(|| "-".into());
                if o.len() > 40 {
                    o.truncate(40);
                    o.push('…');
                }
                format!("{kname} origin={o} | {}", text.escape_debug())
            });
            ctx.class("outcome:equal");
            Ok(())
        }
        Err((f, text)) => {
            // find the failing records one by one
            let mut any_single = false;
            for r in &case.recs {
                if let Err((f1, t1)) = roundtrip(std::slice::from_ref(r), case.class, case.kind, &case.origin, mode) {
                    any_single = true;
                    let sig = attribute(r, case.class, case.kind, &case.origin, mode, &f1);
                    let sig = if mode == Mode::Generic { format!("generic:{sig}") } else { sig };
                    ctx.class(format!("finding:{sig}"));
                    ctx.report(Violation::new(
                        sig,
                        format!(
                            "{} record does not read back ({}, {kname}, origin {:?}, class {}):\n text: {}\n owner: {}\n rdata: {}\n {}",
                            rr::mnemonic(r.rtype),
                            f1.phase,
                            case.origin.as_ref().map(gn::show),
                            case.class,
                            t1.escape_debug(),
                            gn::show(&r.owner),
                            hex(&r.rdata),
                            f1.detail
                        ),
                    ))?;
                }
            }
            if !any_single {
                let sig = format!("file:{}:records-interact", f.phase);
                return Err(Violation::new(
                    sig,
                    format!("each record reads back alone, the file does not ({kname}):\n text: {}\n {}", text.escape_debug(), f.detail),
                ));
            }
            Ok(())
        }
    }
}

fn run_full(data: &[u8], ctx: &mut Ctx) -> CaseResult {
    run_mode(data, ctx, Mode::Full)
}
fn run_restricted(data: &[u8], ctx: &mut Ctx) -> CaseResult {
    run_mode(data, ctx, Mode::Restricted)
}
fn run_generic(data: &[u8], ctx: &mut Ctx) -> CaseResult {
    run_mode(data, ctx, Mode::Generic)
}

fn health(classes: &BTreeMap<String, u64>, thorough: bool) -> Result<(), String> {
    let floor = if thorough { 10_000 } else { 2000 };
    let get = |k: &str| classes.get(k).copied().unwrap_or(0);
    let mut starved = vec![];
    for k in KINDS {
        for t in rr::ZONE_TYPES {
            let key = format!("type:{}:{k}", rr::mnemonic(*t));
            if get(&key) < floor {
                starved.push(format!("{key}={}", get(&key)));
            }
        }
        let key = format!("type:unknown:{k}");
        if get(&key) < floor {
            starved.push(format!("{key}={}", get(&key)));
        }
    }
    for k in [
        "origin:set", "origin:none", "class:IN", "class:CH", "class:HS", "class:CLASSn", "ttl:0", "ttl:2^31-1", "ttl:2^31",
        "ttl:2^32-1", "owner:root", "owner:max-length", "rdata:empty", "string:empty", "string:255", "txt:one-empty-string",
        "nsec3:empty-salt", "caa-value:empty", "outcome:equal", "binary:empty",
    ] {
        if get(k) < 20 {
            starved.push(format!("{k}={}", get(k)));
        }
    }
    let rejected: u64 = classes.iter().filter(|(k, _)| k.starts_with("gen-rejected:")).map(|(_, v)| *v).sum();
    let total = get("kind:simple") + get("kind:tabbed") + get("kind:multiline");
    if rejected * 20 > total {
        starved.push(format!("generator output rejected in {rejected} of {total} cases"));
    }
    if starved.is_empty() {
        Ok(())
    } else {
        Err(format!("starved classes: {}", starved.join(", ")))
    }
}

pub fn prop() -> Option<Prop> {
    Some(Prop {
        id: "C06",
        rule: "the written text contains an escape or a quoted string, or an owner has an octet outside [A-Za-z0-9-], or the record type has several fields or a Base16/32/64 field",
        assumptions: &[
            "writer = ZonefileFmt::display_zonefile on Record<Name<Bytes>, ZoneRecordData<Bytes, Name<Bytes>>>; plain fmt::Display is not the documented zone-file form and is not checked",
            "files hold records of one class (the reader enforces RFC 1035 §5.2 rule 1), every record ends with a newline (the reader's documented requirement)",
            "equality = uncompressed wire composition of written and read record, octet for octet (case-exact, TTL included)",
            "typed values are obtained by parsing generated valid wire RDATA (parse/compose fidelity itself is C05)",
        ],
        subchecks: vec![
            SubCheck::new("full", run_full, 500_000, 3_000_000, 1500),
            SubCheck::new("restricted", run_restricted, 350_000, 2_200_000, 1500),
            SubCheck::new("generic", run_generic, 150_000, 800_000, 1200),
        ],
        health: Some(health),
        extra: None,
    })
}
